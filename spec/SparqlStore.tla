------------------------------- MODULE SparqlStore -------------------------------
(***************************************************************************)
(* C20 - a graph backed by a SPARQL endpoint (SPARQLUpdateStore).          *)
(*   E      the endpoint's dataset (graph name -> set of triples)          *)
(*   queue  the updates written but not yet sent (store._edits)            *)
(* One action per public call.  A write op is a record:                    *)
(*   [op "add", g, t] [op "addN", quads] [op "remove", g, pat]             *)
(*   [op "remove_graph", g] [op "add_graph", g]                            *)
(*   [op "update", g, kind "insertdata" | "deletedata" | "replace", t, o2] *)
(*     (through the facade graph g: INSERT DATA / DELETE DATA of one       *)
(*      triple, or DELETE {s p ?o} INSERT {s p o2} WHERE {s p ?o})         *)
(* With Autocommit the op is applied to E at once; without, it is queued   *)
(* and Commit applies the queue IN ORDER; Rollback empties it.  A read     *)
(* flushes the queue first unless DirtyReads.                              *)
(* L is a ghost: what a local dataset would hold after the same calls      *)
(* (rollback: back to what the endpoint holds).  Inv_Mirror says the       *)
(* endpoint plus the queue always amounts to L.                            *)
(* Variant = "reversed" (queue applied last-first) must be refuted.        *)
(***************************************************************************)
EXTENDS StoreOps, TLC, Json
CONSTANTS Names, Triples, Autocommit, DirtyReads, Depth, Variant
VARIABLES E, queue, L, act, hist
vars == <<E, queue, L, act, hist>>

T3(q) == <<q[1], q[2], q[3]>>
Apply(G, w) ==
  CASE w.op = "add" -> PAdd(G, w.g, w.t)
    [] w.op = "addN" -> PAddQuads(G, w.quads)
    [] w.op = "remove" -> PRemove(G, w.g, w.pat)
    [] w.op = "remove_graph" -> PRemoveGraph(G, w.g)
    [] w.op = "add_graph" -> PGraph(G, w.g)
    [] w.op = "update" ->
         (CASE w.kind = "insertdata" -> PAdd(G, w.g, w.t)
            [] w.kind = "deletedata" -> PRemove(G, w.g, w.t)
            [] w.kind = "replace" ->        \* DELETE {s p ?o} INSERT {s p o2} WHERE {s p ?o}
                 IF Sel(GGet(G, w.g), <<w.t[1], w.t[2], Wild>>) = {} THEN G
                 ELSE PAdd(PRemove(G, w.g, <<w.t[1], w.t[2], Wild>>), w.g, <<w.t[1], w.t[2], w.o2>>))
RECURSIVE ApplyAll(_, _)
ApplyAll(G, s) == IF s = <<>> THEN G ELSE ApplyAll(Apply(G, s[1]), Tail(s))
Rev(s) == [i \in 1..Len(s) |-> s[Len(s) + 1 - i]]
Flush(G, s) == IF Variant = "reversed" THEN ApplyAll(G, Rev(s)) ELSE ApplyAll(G, s)

Pats == UNION {{<<t[1], t[2], t[3]>>, <<t[1], t[2], Wild>>, <<Wild, Wild, t[3]>>, <<Wild, Wild, Wild>>} : t \in Triples}
Objects == {t[3] : t \in Triples}
WriteOps ==
  {[op |-> "add", g |-> g, t |-> t] : g \in Names, t \in Triples}
  \cup {[op |-> "remove", g |-> g, pat |-> p] : g \in Names, p \in Pats}
  \cup {[op |-> "remove_graph", g |-> g] : g \in Names}
  \cup {[op |-> "add_graph", g |-> g] : g \in Names \ {DEFAULT}}
  \cup {[op |-> "addN", quads |-> {<<t[1], t[2], t[3], g>>, <<u[1], u[2], u[3], h>>}] : t \in Triples, u \in Triples, g \in Names, h \in Names}
  \cup {[op |-> "update", g |-> g, kind |-> kd, t |-> t, o2 |-> o] : g \in Names, kd \in {"insertdata", "deletedata", "replace"}, t \in Triples, o \in Objects}

Step(e) == act' = e /\ hist' = Append(hist, e)
Write(w) ==
  /\ IF Autocommit THEN E' = Apply(E, w) /\ UNCHANGED queue ELSE queue' = Append(queue, w) /\ UNCHANGED E
  /\ L' = Apply(L, w)
  /\ Step(w)
Commit   == /\ E' = Flush(E, queue) /\ queue' = <<>> /\ UNCHANGED L /\ Step([op |-> "commit"])
Rollback == /\ queue' = <<>> /\ UNCHANGED E /\ L' = E /\ Step([op |-> "rollback"])
Read(g, p) ==
  /\ IF ~Autocommit /\ ~DirtyReads THEN E' = Flush(E, queue) /\ queue' = <<>> ELSE UNCHANGED <<E, queue>>
  /\ UNCHANGED L /\ Step([op |-> "triples", g |-> g, pat |-> p])

Next == /\ Len(hist) < Depth
        /\ \/ \E w \in WriteOps : Write(w)
           \/ Commit \/ Rollback
           \/ \E g \in Names : Read(g, <<Wild, Wild, Wild>>)
Init == E = [n \in {DEFAULT} |-> {}] /\ queue = <<>> /\ L = E /\ act = [op |-> "init"] /\ hist = <<>>
Spec == Init /\ [][Next]_vars

SameQ(A, B) == GQuads(A) = GQuads(B)
Inv_Mirror == SameQ(ApplyAll(E, queue), L)                  \* endpoint + pending writes = the local graph
Inv_AutocommitNoQueue == Autocommit => queue = <<>>
(* the endpoint changes only where the property allows it *)
Prop_VisibleOnlyAtCommit ==
  [][~SameQ(E', E) => \/ act'.op = "commit"
                      \/ Autocommit /\ act'.op \notin {"commit", "rollback", "triples"}
                      \/ act'.op = "triples" /\ ~Autocommit /\ ~DirtyReads]_vars
Prop_RollbackDiscards == [][act'.op = "rollback" /\ hist' # hist => SameQ(E', E) /\ queue' = <<>> /\ SameQ(L', E)]_vars
Prop_ReadSeesWrites == [][act'.op = "triples" /\ hist' # hist /\ ~DirtyReads => SameQ(E', L)]_vars

QBound == Len(queue) <= 2
View == <<E, queue, L>>
Export == IF Len(hist) = Depth THEN PrintT(ToJson(hist)) ELSE TRUE
===============================================================================
