---------------------------- MODULE MCSparqlPaths ----------------------------
(***************************************************************************)
(* Model-side checks of the path semantics (they guard the oracle, not     *)
(* rdflib) and enumeration of the C11 input space for export.              *)
(* One TLC "state" per (path, graph) case.                                 *)
(***************************************************************************)
EXTENDS SparqlPaths, TLC, Json
CONSTANTS Preds, Nodes, MaxEdges, PathDepth, ExportMode

Iri(p) == [op |-> "iri", iri |-> p]
P0 == {Iri(p) : p \in Preds}
Negs == {[op |-> "neg", fwd |-> <<p>>, inv |-> <<>>] : p \in Preds}
        \cup {[op |-> "neg", fwd |-> <<>>, inv |-> <<p>>] : p \in Preds}
        \cup {[op |-> "neg", fwd |-> <<p>>, inv |-> <<q>>] : p \in Preds, q \in Preds}
Up(X) == X \cup {[op |-> o, arg |-> x] : o \in {"inv", "star", "plus", "opt"}, x \in X}
           \cup {[op |-> o, args |-> <<x, y>>] : o \in {"seq", "alt"}, x \in X, y \in X}
P1 == Up(P0) \cup Negs
P2 == Up(P1)
Paths == IF PathDepth = 0 THEN P0 ELSE IF PathDepth = 1 THEN P1 ELSE P2
Edges == Nodes \X Preds \X Nodes
Graphs == {g \in SUBSET Edges : Cardinality(g) <= MaxEdges}

VARIABLES path, graph
Init == path \in Paths /\ graph \in Graphs
Next == UNCHANGED <<path, graph>>
Spec == Init /\ [][Next]_<<path, graph>>

N0 == NodesOf(graph) \cup Nodes
R(p) == Rel(p, graph, N0)
(* double entry: fixed-point closure = walk-based closure *)
Inv_ClosureAgrees == TC(R(path)) = TCWalk(R(path))
(* algebraic laws of section 18.4 *)
Inv_Laws ==
  /\ R([op |-> "star", arg |-> path]) = R([op |-> "plus", arg |-> path]) \cup Id(N0)
  /\ R([op |-> "opt", arg |-> path]) = R(path) \cup Id(N0)
  /\ R([op |-> "inv", arg |-> [op |-> "inv", arg |-> path]]) = R(path)
  /\ \A q \in P0 : R([op |-> "inv", arg |-> [op |-> "seq", args |-> <<path, q>>]])
                   = R([op |-> "seq", args |-> <<[op |-> "inv", arg |-> q], [op |-> "inv", arg |-> path]>>])
  /\ R([op |-> "plus", arg |-> path]) = R([op |-> "seq", args |-> <<path, [op |-> "star", arg |-> path]>>])
  /\ \A a \in Preds, b \in Preds :
        R([op |-> "neg", fwd |-> <<a>>, inv |-> <<b>>]) =
           {<<t[1], t[3]>> : t \in {u \in graph : u[2] # a}} \cup {<<t[3], t[1]>> : t \in {u \in graph : u[2] # b}}
(* restriction to given ends is the same as evaluating and filtering; a zero-length match holds for an absent term *)
Inv_ZeroLength == \A t \in {"absent"} : <<t, t>> \in PathAnswer([op |-> "star", arg |-> path], graph, {t}, {})
                                        /\ <<t, t>> \in PathAnswer([op |-> "opt", arg |-> path], graph, {}, {t})
                                        /\ PathAnswer(path, graph, {}, {}) = R(path) \cap (NodesOf(graph) \X NodesOf(graph))
                                        /\ \A n \in Nodes : PathAnswer(path, graph, {n}, {}) = {x \in Rel(path, graph, NodesOf(graph) \cup {n}) : x[1] = n}
Export == IF ExportMode THEN PrintT(ToJson([path |-> path, graph |-> graph])) ELSE TRUE
===============================================================================
