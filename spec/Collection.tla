------------------------------- MODULE Collection -------------------------------
(***************************************************************************)
(* C19 - rdflib.collection.Collection over a graph.                        *)
(*                                                                         *)
(* Tier P: the ghost variable lst is the Python list the collection        *)
(* represents, updated by list semantics; WellFormed(T, lst) says what the *)
(* rdf:first / rdf:rest triples in the graph must look like.               *)
(* Tier I: T (the triples about list cells) is updated by a transcription  *)
(* of collection.py (_get_container, _end, append, __iadd__, __setitem__,  *)
(* __getitem__, __delitem__, clear, Graph.items).                          *)
(*   Variant = "as_written" : the pinned commit                            *)
(*   Variant = "repaired"   : truthiness tests replaced by `is not None`,  *)
(*                            rdf:nil is not a cell, deleting the first    *)
(*                            item moves the second cell into the head     *)
(* TLC proves tier I refines tier P for "repaired" and produces            *)
(* counterexamples for "as_written".                                       *)
(***************************************************************************)
EXTENDS Integers, Sequences, FiniteSets, TLC, Json

CONSTANTS Members,        \* member terms, e.g. {"m1", "m2", "z"}
          Falsy,          \* the members that are falsy in Python
          MaxLen, Depth, Variant

VARIABLES T,              \* set of <<cell, "first"|"rest", value>>
          nxt,            \* fresh-cell counter
          lst,            \* ghost: the Python list
          res,            \* result of the last call: [k |-> "ok"|"val"|"raise", ...]
          hist
vars == <<T, nxt, lst, res, hist>>

HeadC == "h"
Nil  == "nil"
None == "none"
Cell(i) == "c" \o ToString(i)

(* ---- tier P ------------------------------------------------------------------ *)
Vals(TT, c, p) == {t[3] : t \in {x \in TT : x[1] = c /\ x[2] = p}}
RECURSIVE Chain(_, _, _, _, _)
Chain(TT, L, c, i, seen) ==
  IF i > Len(L) THEN c = Nil
  ELSE /\ c # Nil /\ c \notin seen
       /\ Vals(TT, c, "first") = {L[i]}
       /\ Cardinality(Vals(TT, c, "rest")) = 1
       /\ Chain(TT, L, CHOOSE x \in Vals(TT, c, "rest") : TRUE, i + 1, seen \cup {c})
WellFormed(TT, L) ==
  IF L = <<>> THEN TT \subseteq {<<HeadC, "rest", Nil>>}
  ELSE Chain(TT, L, HeadC, 1, {}) /\ Cardinality(TT) = 2 * Len(L)       \* no orphaned cells

RemoveAt(s, i) == SubSeq(s, 1, i - 1) \o SubSeq(s, i + 1, Len(s))   \* 1-based
IndexOf(s, x) == IF \E i \in 1..Len(s) : s[i] = x THEN (CHOOSE i \in 1..Len(s) : s[i] = x /\ \A j \in 1..(i - 1) : s[j] # x) - 1 ELSE -1

(* ---- tier I: transcription ------------------------------------------------------ *)
Val(TT, c, p) == IF Vals(TT, c, p) = {} THEN None ELSE CHOOSE x \in Vals(TT, c, p) : TRUE   \* graph.value
Truthy(x) == x # None /\ (Variant = "repaired" \/ x \notin Falsy)
IsCell(c) == c # None /\ (Variant = "as_written" \/ c # Nil)      \* `if c:` - rdf:nil is a truthy IRI
RECURSIVE GetContainer(_, _, _)
GetContainer(TT, c, idx) == IF idx <= 0 \/ c = None THEN c ELSE GetContainer(TT, Val(TT, c, "rest"), idx - 1)
RECURSIVE ItemsFrom(_, _, _)
ItemsFrom(TT, c, fuel) ==           \* Graph.items (cycle check abstracted by fuel: the model never builds cycles)
  IF c = None \/ fuel = 0 THEN <<>>
  ELSE LET v == Val(TT, c, "first")
       IN (IF v # None THEN <<v>> ELSE <<>>) \o ItemsFrom(TT, Val(TT, c, "rest"), fuel - 1)
Items(TT) == ItemsFrom(TT, HeadC, MaxLen + 3)
RECURSIVE EndFrom(_, _, _)
EndFrom(TT, c, fuel) == LET r == Val(TT, c, "rest") IN IF r = None \/ r = Nil \/ fuel = 0 THEN c ELSE EndFrom(TT, r, fuel - 1)
End(TT) == EndFrom(TT, HeadC, MaxLen + 3)
SetV(TT, c, p, x) == {t \in TT : ~(t[1] = c /\ t[2] = p)} \cup {<<c, p, x>>}          \* graph.set
RemSubj(TT, c) == {t \in TT : t[1] # c}                                              \* graph.remove((c, None, None))

IAppend(TT, n, x) ==
  LET e == End(TT) IN
  IF Vals(TT, e, "first") # {}
  THEN [T |-> (SetV(TT, e, "rest", Cell(n)) \cup {<<Cell(n), "first", x>>, <<Cell(n), "rest", Nil>>}), n |-> n + 1]
  ELSE [T |-> TT \cup {<<e, "first", x>>, <<e, "rest", Nil>>}, n |-> n]

RECURSIVE IExtend(_, _, _, _)
IExtend(TT, n, e, xs) ==
  IF xs = <<>> THEN [T |-> TT \cup {<<e, "rest", Nil>>}, n |-> n]
  ELSE IF Vals(TT, e, "first") # {}
       THEN IExtend(TT \cup {<<e, "rest", Cell(n)>>, <<Cell(n), "first", xs[1]>>}, n + 1, Cell(n), Tail(xs))
       ELSE IExtend(TT \cup {<<e, "first", xs[1]>>}, n, e, Tail(xs))
IIAdd(TT, n, xs) == LET e == End(TT) IN IExtend({t \in TT : ~(t[1] = e /\ t[2] = "rest")}, n, e, xs)

IGet(TT, i) == LET c == GetContainer(TT, HeadC, i) IN
               IF Variant = "repaired"
               THEN (IF IsCell(c) /\ Val(TT, c, "first") # None THEN [k |-> "val", v |-> Val(TT, c, "first")] ELSE [k |-> "raise", e |-> "IndexError"])
               ELSE IF IsCell(c) THEN (IF Truthy(Val(TT, c, "first")) THEN [k |-> "val", v |-> Val(TT, c, "first")] ELSE [k |-> "raise", e |-> "KeyError"])
               ELSE [k |-> "raise", e |-> "IndexError"]
ISet(TT, i, x) == LET c == GetContainer(TT, HeadC, i) IN
                  IF IsCell(c) /\ (Variant = "as_written" \/ Vals(TT, c, "first") # {})
                  THEN [T |-> SetV(TT, c, "first", x), r |-> [k |-> "ok"]]
                  ELSE [T |-> TT, r |-> [k |-> "raise", e |-> "IndexError"]]
IDel(TT, i) ==
  LET g == IGet(TT, i) IN
  IF g.k = "raise" THEN [T |-> TT, r |-> g]
  ELSE LET cur == GetContainer(TT, HeadC, i)  L == Len(Items(TT)) IN
       IF L = 1 /\ i > 0 THEN [T |-> TT, r |-> [k |-> "ok"]]
       ELSE IF i = L - 1
            THEN [T |-> RemSubj(SetV(TT, GetContainer(TT, HeadC, i - 1), "rest", Nil), cur), r |-> [k |-> "ok"]]
            ELSE IF Variant = "repaired" /\ i = 0
                 THEN LET nx == GetContainer(TT, HeadC, 1) IN      \* move the second cell into the head
                      [T |-> RemSubj(SetV(SetV(TT, HeadC, "first", Val(TT, nx, "first")), HeadC, "rest", Val(TT, nx, "rest")), nx),
                       r |-> [k |-> "ok"]]
                 ELSE [T |-> SetV(RemSubj(TT, cur), GetContainer(TT, HeadC, i - 1), "rest", GetContainer(TT, HeadC, i + 1)), r |-> [k |-> "ok"]]
RECURSIVE IClearFrom(_, _, _)
IClearFrom(TT, c, fuel) == IF c = None \/ fuel = 0 THEN TT
                           ELSE IClearFrom({t \in TT : t[1] # c}, Val(TT, c, "rest"), fuel - 1)
IClear(TT) == IClearFrom(TT, HeadC, MaxLen + 3)

Ev(e) == hist' = Append(hist, e)
Append1(x) == /\ Len(lst) < MaxLen
              /\ LET r == IAppend(T, nxt, x) IN T' = r.T /\ nxt' = r.n
              /\ lst' = Append(lst, x) /\ res' = [k |-> "ok"] /\ Ev([op |-> "append", x |-> x])
IAdd(xs)   == /\ Len(lst) + Len(xs) <= MaxLen
              /\ LET r == IIAdd(T, nxt, xs) IN T' = r.T /\ nxt' = r.n
              /\ lst' = lst \o xs /\ res' = [k |-> "ok"] /\ Ev([op |-> "iadd", xs |-> xs])
SetItem(i, x) == /\ LET r == ISet(T, i, x) IN T' = r.T /\ res' = r.r
                 /\ lst' = IF i < Len(lst) THEN [lst EXCEPT ![i + 1] = x] ELSE lst
                 /\ UNCHANGED nxt /\ Ev([op |-> "setitem", i |-> i, x |-> x])
DelItem(i) == /\ LET r == IDel(T, i) IN T' = r.T /\ res' = r.r
              /\ lst' = IF i < Len(lst) THEN RemoveAt(lst, i + 1) ELSE lst
              /\ UNCHANGED nxt /\ Ev([op |-> "delitem", i |-> i])
Clear == /\ T' = IClear(T) /\ lst' = <<>> /\ res' = [k |-> "ok"] /\ UNCHANGED nxt /\ Ev([op |-> "clear"])
GetItem(i) == /\ res' = IGet(T, i) /\ UNCHANGED <<T, nxt, lst>> /\ Ev([op |-> "getitem", i |-> i])

Next == /\ Len(hist) < Depth
        /\ \/ \E x \in Members : Append1(x)
           \/ \E x \in Members, y \in Members : IAdd(<<x>>) \/ IAdd(<<x, y>>)
           \/ IAdd(<<>>)
           \/ \E i \in 0..MaxLen, x \in Members : SetItem(i, x)
           \/ \E i \in 0..MaxLen : DelItem(i) \/ GetItem(i)
           \/ Clear

Init == T = {} /\ nxt = 1 /\ lst = <<>> /\ res = [k |-> "ok"] /\ hist = <<>>
Spec == Init /\ [][Next]_vars

(* ---- what TLC checks ------------------------------------------------------------ *)
Inv_WellFormed == WellFormed(T, lst)
Inv_ItemsAgree == Items(T) = lst
Last == hist[Len(hist)]
(* results and exceptions are the Python list's *)
Inv_ResultAgrees ==
  hist # <<>> =>
    CASE Last.op = "getitem" -> IF Last.i < Len(lst) THEN res = [k |-> "val", v |-> lst[Last.i + 1]]
                                ELSE res = [k |-> "raise", e |-> "IndexError"]
      [] Last.op \in {"setitem", "delitem"} -> TRUE    \* judged on the pre-state by Prop_Raises
      [] OTHER -> res.k = "ok"
Prop_Raises == [][\A e \in {hist'[Len(hist')]} :
                    (hist' # hist /\ e.op \in {"setitem", "delitem"}) =>
                       IF e.i < Len(lst) THEN res'.k = "ok" ELSE res' = [k |-> "raise", e |-> "IndexError"]]_vars

View == <<T, nxt, lst, res>>
Bound == nxt <= 6
Export == IF Len(hist) = Depth THEN PrintT(ToJson(hist)) ELSE TRUE
===============================================================================
