---------------------------- MODULE MCSparqlUpdate ----------------------------
(* Laws of the update semantics (they guard SparqlUpdate.tla): graph management identities, untouched graphs,
   and that the result of a DELETE/INSERT does not depend on the order in which solutions are enumerated. *)
EXTENDS SparqlUpdate, TLC
I(x) == [k |-> "iri", v |-> x]
Tri == {<<I("a"), I("p"), [k |-> "num", v |-> 1]>>, <<I("a"), I("p"), [k |-> "num", v |-> 2]>>}
VARIABLE D
Init == D \in [{"D", "g1", "g2"} -> SUBSET Tri]
Next == UNCHANGED D
Spec == Init /\ [][Next]_D
c0 == [D |-> D, active |-> {}, ord |-> [x \in {} |-> 0], dev |-> FALSE, dev2 |-> FALSE, union |-> FALSE, dev3 |-> FALSE, init |-> EmptyMu]
Op(u) == ApplyOp(D, u, c0)
Inv_CopySelf == \A g \in {"DEFAULT", "g1"} : \A kk \in {"add", "move", "copy"} : Op([u |-> kk, from |-> g, to |-> g]) = D
Inv_Move == LET R == Op([u |-> "move", from |-> "g1", to |-> "g2"]) IN R["g2"] = D["g1"] /\ R["g1"] = {} /\ R["D"] = D["D"]
Inv_Copy == LET R == Op([u |-> "copy", from |-> "DEFAULT", to |-> "g2"]) IN R["g2"] = D["D"] /\ R["g1"] = D["g1"] /\ R["D"] = D["D"]
Inv_Add  == LET R == Op([u |-> "add", from |-> "g1", to |-> "DEFAULT"]) IN R["D"] = D["D"] \cup D["g1"] /\ R["g1"] = D["g1"]
Inv_Clear == /\ DQuads(Op([u |-> "clear", target |-> "ALL"])) = {}
             /\ LET R == Op([u |-> "clear", target |-> "NAMED"]) IN R["D"] = D["D"] /\ R["g1"] = {} /\ R["g2"] = {}
             /\ Untouched(D, Op([u |-> "drop", target |-> "g1"]), {"g1"})
Inv_InsertDelete == LET q == <<I("a"), I("p"), [k |-> "num", v |-> 1], "g1">> IN
                    /\ DelQuads(AddQuads(D, {q}), {q})["g1"] = D["g1"] \ {QT(q)}
                    /\ Untouched(D, AddQuads(D, {q}), {"g1"})
(* increment every value: all deletions before any insertion gives a result independent of solution order *)
IncU == [u |-> "modify", with |-> "", using |-> <<>>, usingnamed |-> <<>>,
         del |-> << <<[k |-> "var", v |-> "s"], I("p"), [k |-> "var", v |-> "o"], [k |-> "g", v |-> ""]>> >>,
         ins |-> << <<[k |-> "var", v |-> "s"], I("p"), [k |-> "var", v |-> "n"], [k |-> "g", v |-> ""]>> >>,
         where |-> [elts |-> <<[t |-> "bgp", tps |-> << <<[k |-> "var", v |-> "s"], I("p"), [k |-> "var", v |-> "o"]>> >>],
                               [t |-> "bind", e |-> [e |-> "+", a |-> [e |-> "var", v |-> "o"], b |-> [e |-> "const", t |-> [k |-> "num", v |-> 1]]], v |-> "n"]>>]]
Inv_DeleteBeforeInsert == Op(IncU)["D"] = {<<t[1], t[2], [k |-> "num", v |-> t[3].v + 1]>> : t \in D["D"]} /\ Untouched(D, Op(IncU), {"D"})
===============================================================================
