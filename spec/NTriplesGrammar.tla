---------------------------- MODULE NTriplesGrammar ----------------------------
(***************************************************************************)
(* C05 - a strict recogniser and decoder for W3C N-Triples 1.1 and         *)
(* N-Quads 1.1 lines, transcribed from the grammar productions.  A line is *)
(* a sequence of Unicode code points.  Every scanner returns               *)
(*   [ok |-> BOOLEAN, next |-> position after the token, val |-> decoded]  *)
(*                                                                         *)
(*  [1] ntriplesDoc ::= triple? (EOL triple)* EOL?                         *)
(*  [2] triple      ::= subject predicate object '.'                       *)
(*  [2q] statement  ::= subject predicate object graphLabel? '.'           *)
(*  [3] subject     ::= IRIREF | BLANK_NODE_LABEL                          *)
(*  [4] predicate   ::= IRIREF                                             *)
(*  [5] object      ::= IRIREF | BLANK_NODE_LABEL | literal                *)
(*  [6] literal     ::= STRING_LITERAL_QUOTE ('^^' IRIREF | LANGTAG)?      *)
(*  [144s] LANGTAG  ::= '@' [a-zA-Z]+ ('-' [a-zA-Z0-9]+)*                  *)
(*  [8] IRIREF      ::= '<' ([^#x00-#x20<>"{}|^`\] | UCHAR)* '>'           *)
(*  [9] STRING_LITERAL_QUOTE ::= '"' ([^#x22#x5C#xA#xD] | ECHAR | UCHAR)* '"' *)
(*  [141s] BLANK_NODE_LABEL ::= '_:' (PN_CHARS_U | [0-9]) ((PN_CHARS | '.')* PN_CHARS)? *)
(*  [10] UCHAR      ::= '\u' HEX HEX HEX HEX | '\U' HEX{8}                  *)
(*  [153s] ECHAR    ::= '\' [tbnrf"'\]                                     *)
(***************************************************************************)
EXTENDS Integers, Sequences, FiniteSets

Fail == [ok |-> FALSE, next |-> 0, val |-> <<>>]
Ok(n, v) == [ok |-> TRUE, next |-> n, val |-> v]
At(s, i) == IF i >= 1 /\ i <= Len(s) THEN s[i] ELSE -1

HexVal(c) == IF c \in 48..57 THEN c - 48 ELSE IF c \in 65..70 THEN c - 55 ELSE IF c \in 97..102 THEN c - 87 ELSE -1
AllHex(s, i, n) == i + n - 1 <= Len(s) /\ \A j \in i..(i + n - 1) : HexVal(s[j]) >= 0
RECURSIVE HexNum(_, _, _)
HexNum(s, i, n) == IF n = 0 THEN 0 ELSE HexNum(s, i, n - 1) * 16 + HexVal(s[i + n - 1])
(* s[i] is a backslash *)
UChar(s, i) ==
  IF At(s, i + 1) = 117 /\ AllHex(s, i + 2, 4) THEN Ok(i + 6, HexNum(s, i + 2, 4))
  ELSE IF At(s, i + 1) = 85 /\ AllHex(s, i + 2, 8) /\ s[i + 2] = 48 /\ s[i + 3] = 48 /\ HexNum(s, i + 4, 6) <= 1114111 THEN Ok(i + 10, HexNum(s, i + 4, 6))
  ELSE Fail
EChar(s, i) ==
  LET c == At(s, i + 1) IN
  IF c = 116 THEN Ok(i + 2, 9) ELSE IF c = 98 THEN Ok(i + 2, 8) ELSE IF c = 110 THEN Ok(i + 2, 10) ELSE IF c = 114 THEN Ok(i + 2, 13)
  ELSE IF c = 102 THEN Ok(i + 2, 12) ELSE IF c = 34 THEN Ok(i + 2, 34) ELSE IF c = 39 THEN Ok(i + 2, 39) ELSE IF c = 92 THEN Ok(i + 2, 92) ELSE Fail

IriForbidden == (0..32) \cup {60, 62, 34, 123, 125, 124, 94, 96, 92}
RECURSIVE IriBody(_, _, _)
IriBody(s, i, acc) ==
  LET c == At(s, i) IN
  IF c = 62 THEN Ok(i + 1, acc)
  ELSE IF c = -1 THEN Fail
  ELSE IF c = 92 THEN (LET u == UChar(s, i) IN IF u.ok THEN IriBody(s, u.next, Append(acc, u.val)) ELSE Fail)
  ELSE IF c \in IriForbidden THEN Fail
  ELSE IriBody(s, i + 1, Append(acc, c))
IriRef(s, i) == IF At(s, i) = 60 THEN IriBody(s, i + 1, <<>>) ELSE Fail

RECURSIVE StrBody(_, _, _)
StrBody(s, i, acc) ==
  LET c == At(s, i) IN
  IF c = 34 THEN Ok(i + 1, acc)
  ELSE IF c = -1 \/ c = 10 \/ c = 13 THEN Fail
  ELSE IF c = 92 THEN (LET e == EChar(s, i)  u == UChar(s, i) IN
                       IF e.ok THEN StrBody(s, e.next, Append(acc, e.val)) ELSE IF u.ok THEN StrBody(s, u.next, Append(acc, u.val)) ELSE Fail)
  ELSE StrBody(s, i + 1, Append(acc, c))
StringQuote(s, i) == IF At(s, i) = 34 THEN StrBody(s, i + 1, <<>>) ELSE Fail

PnCharsBase(c) == \/ c \in 65..90 \/ c \in 97..122 \/ c \in 192..214 \/ c \in 216..246 \/ c \in 248..767 \/ c \in 880..893 \/ c \in 895..8191
                  \/ c \in 8204..8205 \/ c \in 8304..8591 \/ c \in 11264..12271 \/ c \in 12289..55295 \/ c \in 63744..64975 \/ c \in 65008..65533
                  \/ c \in 65536..983039
PnCharsU(c) == PnCharsBase(c) \/ c = 95 \/ c = 58
PnChars(c) == PnCharsU(c) \/ c = 45 \/ c \in 48..57 \/ c = 183 \/ c \in 768..879 \/ c \in 8255..8256
RECURSIVE LabelEnd(_, _)
LabelEnd(s, i) == IF PnChars(At(s, i)) \/ At(s, i) = 46 THEN LabelEnd(s, i + 1) ELSE i      \* first position after (PN_CHARS | '.')*
RECURSIVE BackOffDots(_, _)
BackOffDots(s, i) == IF At(s, i - 1) = 46 THEN BackOffDots(s, i - 1) ELSE i              \* the label cannot end with '.'
BlankNode(s, i) ==
  IF At(s, i) = 95 /\ At(s, i + 1) = 58 /\ (PnCharsU(At(s, i + 2)) \/ At(s, i + 2) \in 48..57)
  THEN LET e == BackOffDots(s, LabelEnd(s, i + 3)) IN Ok(e, SubSeq(s, i + 2, e - 1))
  ELSE Fail

Alpha(c) == c \in 65..90 \/ c \in 97..122
AlNum(c) == Alpha(c) \/ c \in 48..57
RECURSIVE RunEnd(_, _, _)
RunEnd(s, i, alnum) == IF (IF alnum THEN AlNum(At(s, i)) ELSE Alpha(At(s, i))) THEN RunEnd(s, i + 1, alnum) ELSE i
RECURSIVE SubTags(_, _)
SubTags(s, i) == IF At(s, i) = 45 /\ AlNum(At(s, i + 1)) THEN SubTags(s, RunEnd(s, i + 1, TRUE)) ELSE i
Lower(c) == IF c \in 65..90 THEN c + 32 ELSE c
LangTag(s, i) ==
  IF At(s, i) = 64 /\ Alpha(At(s, i + 1))
  THEN LET e == SubTags(s, RunEnd(s, i + 1, FALSE)) IN Ok(e, [j \in 1..(e - i - 1) |-> Lower(s[i + j])])
  ELSE Fail

RECURSIVE SkipWs(_, _)
SkipWs(s, i) == IF At(s, i) = 32 \/ At(s, i) = 9 THEN SkipWs(s, i + 1) ELSE i

XsdString == <<104, 116, 116, 112, 58, 47, 47, 119, 119, 119, 46, 119, 51, 46, 111, 114, 103, 47, 50, 48, 48, 49, 47, 88, 77, 76, 83, 99, 104, 101, 109, 97, 35, 115, 116, 114, 105, 110, 103>>
LangString == <<104, 116, 116, 112, 58, 47, 47, 119, 119, 119, 46, 119, 51, 46, 111, 114, 103, 47, 49, 57, 57, 57, 47, 48, 50, 47, 50, 50, 45, 114, 100, 102, 45, 115, 121, 110, 116, 97, 120, 45, 110, 115, 35, 108, 97, 110, 103, 83, 116, 114, 105, 110, 103>>
Iri(v) == [k |-> "iri", v |-> v]
BN(v) == [k |-> "bnode", v |-> v]
Lit(v, dt, lang) == [k |-> "lit", v |-> v, dt |-> dt, lang |-> lang]
Literal(s, i) ==
  LET q == StringQuote(s, i) IN
  IF ~q.ok THEN Fail
  ELSE IF At(s, q.next) = 94 /\ At(s, q.next + 1) = 94
       THEN (LET d == IriRef(s, q.next + 2) IN IF d.ok THEN Ok(d.next, Lit(q.val, d.val, <<>>)) ELSE Fail)
  ELSE IF At(s, q.next) = 64
       THEN (LET t == LangTag(s, q.next) IN IF t.ok THEN Ok(t.next, Lit(q.val, LangString, t.val)) ELSE Fail)
  ELSE Ok(q.next, Lit(q.val, XsdString, <<>>))          \* RDF 1.1: a simple literal has datatype xsd:string

Subject(s, i) == LET a == IriRef(s, i)  b == BlankNode(s, i) IN IF a.ok THEN Ok(a.next, Iri(a.val)) ELSE IF b.ok THEN Ok(b.next, BN(b.val)) ELSE Fail
Predicate(s, i) == LET a == IriRef(s, i) IN IF a.ok THEN Ok(a.next, Iri(a.val)) ELSE Fail
Object(s, i) == LET a == Subject(s, i) IN IF a.ok THEN a ELSE Literal(s, i)

(* end of statement: '.' then optional white space and comment *)
EndOk(s, i) == At(s, i) = 46 /\ LET j == SkipWs(s, i + 1) IN j > Len(s) \/ s[j] = 35
DefaultGraph == [k |-> "default"]
(* quads = TRUE: N-Quads (optional graph label); result val = <<s, p, o, g>> *)
Statement(s, quads) ==
  LET a == Subject(s, SkipWs(s, 1)) IN IF ~a.ok THEN Fail ELSE
  LET b == Predicate(s, SkipWs(s, a.next)) IN IF ~b.ok THEN Fail ELSE
  LET c == Object(s, SkipWs(s, b.next)) IN IF ~c.ok THEN Fail ELSE
  LET j == SkipWs(s, c.next) IN
  IF EndOk(s, j) THEN Ok(Len(s) + 1, <<a.val, b.val, c.val, DefaultGraph>>)
  ELSE IF ~quads THEN Fail
  ELSE LET g == Subject(s, j) IN IF g.ok /\ EndOk(s, SkipWs(s, g.next)) THEN Ok(Len(s) + 1, <<a.val, b.val, c.val, g.val>>) ELSE Fail
BlankLine(s) == LET j == SkipWs(s, 1) IN j > Len(s) \/ s[j] = 35
LineOK(s, quads) == BlankLine(s) \/ Statement(s, quads).ok
Quads(lines, quads) == {Statement(lines[n], quads).val : n \in {m \in 1..Len(lines) : ~BlankLine(lines[m])}}
===============================================================================
