------------------------- MODULE TurtleSpellingTargets -------------------------
(***************************************************************************)
(* The writer machine of TurtleSpelling.tla steered along given token      *)
(* sequences: TARGETS_FILE holds a JSON array of documents (each a         *)
(* sequence of the machine's tokens, composed by the harness to make       *)
(* particular choices meet: a prefix re-bound with either keyword between  *)
(* two uses of the same prefixed name, a base replaced between two uses of *)
(* the same relative reference, ...).  TLC follows exactly the behaviour   *)
(* that writes each target - so a target that the grammar machine cannot   *)
(* write is never exported - and prints the meaning G the machine assigns  *)
(* to it.  The meaning of hand-composed documents thus still comes from    *)
(* the specification.                                                      *)
(***************************************************************************)
EXTENDS TurtleSpelling, IOUtils, SequencesExt
Targets == JsonDeserialize(IOEnv.TARGETS_FILE)
VARIABLE which
Init2 == Init /\ which \in 1..Len(Targets)
Next2 == Next /\ UNCHANGED which /\ IsPrefix(doc', Targets[which])
Spec2 == Init2 /\ [][Next2]_<<vars, which>>
Export2 == IF Finished /\ doc = Targets[which]
           THEN PrintT(ToJson([id |-> which, doc |-> doc, quads |-> {[s |-> q[1], p |-> q[2], o |-> q[3], g |-> q[4]] : q \in G}])) ELSE TRUE
===============================================================================
