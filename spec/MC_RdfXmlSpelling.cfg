SPECIFICATION Spec
CONSTANTS
  NNs = 2
  Locals = {"l1"}
  NLit = 1
  NDt = 0
  Langs = {"en"}
  MaxTop = 1
  MaxDepth = 4
  MaxTokens = 3
INVARIANT WellFormedMeaning
INVARIANT LangOnlyOnPlain
INVARIANT LiDense
INVARIANT NoDanglingCell
CONSTRAINT MCBound
CHECK_DEADLOCK FALSE
