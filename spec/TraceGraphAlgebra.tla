--------------------------- MODULE TraceGraphAlgebra ---------------------------
(***************************************************************************)
(* Trace validation for the Graph-level API (growth check G04).  The model *)
(* state is the pair of graphs; each recorded call is judged against the   *)
(* operator of GraphOps.tla that defines it: its result (or exception),    *)
(* the content of BOTH graphs after it (an operator on A must not touch B, *)
(* a binary operator must not touch either operand) and len().             *)
(***************************************************************************)
EXTENDS GraphOps, TLC, Json, IOUtils
Batch == ndJsonDeserialize(IOEnv.TRACE_FILE)
Devs  == LET d == JsonDeserialize(IOEnv.DEVS_FILE) IN {d[i] : i \in 1..Len(d)}
VARIABLES k, l, st, verdict
vars == <<k, l, st, verdict>>
S(s) == {s[i] : i \in 1..Len(s)}
T3(x) == {<<t[1], t[2], t[3]>> : t \in S(x)}
P2(x) == {<<t[1], t[2]>> : t \in S(x)}
Has(r, f) == f \in DOMAIN r
Count(s, x) == Cardinality({i \in 1..Len(s) : s[i] = x})
St0 == [A |-> {}, B |-> {}, H |-> {}]
Ops == {"new", "add", "batch", "remove", "set", "iadd", "isub", "binop", "value", "proj", "pairs", "choices", "cbd", "nodes", "connected", "iso", "contains", "len"}
P3(p) == <<p[1], p[2], p[3]>>

NewSt(M, e) ==
  CASE e.op = "new"    -> [A |-> T3(e.A0), B |-> T3(e.B0), H |-> T3(e.B0)]      \* H: a further graph in B's store that starts out with B's triples (some configurations)
    [] e.op = "add"    -> [M EXCEPT ![e.g] = @ \cup {P3(e.t)}]
    [] e.op = "batch"  -> [M EXCEPT ![e.g] = @ \cup T3(e.ts)]
    [] e.op = "remove" -> [M EXCEPT ![e.g] = RemoveOp(@, P3(e.pat))]
    [] e.op = "set"    -> [M EXCEPT ![e.g] = SetOp(@, P3(e.t))]
    [] e.op = "iadd"   -> [M EXCEPT ![e.g] = @ \cup M[e.h]]
    [] e.op = "isub"   -> [M EXCEPT ![e.g] = @ \ M[e.h]]
    [] OTHER -> M

Raised(e) == e.res.k = "raise"
ResVerdict(M, e) ==
  LET r == e.res  G == IF Has(e, "g") THEN M[e.g] ELSE {} IN
  CASE e.op \in {"new", "add", "batch", "remove", "set", "iadd", "isub"} -> IF r.k = "ok" THEN "ok" ELSE "OpRaised:" \o e.op
    [] e.op = "binop" -> IF r.k # "set" THEN "OpRaised:binop"
                         ELSE IF T3(r.v) = BinOp(e.o, M[e.g], M[e.h]) /\ Len(r.v) = Cardinality(T3(r.v)) THEN "ok" ELSE "SetOperator:" \o e.o
    [] e.op = "value" ->
         LET vs == ValueSet(G, P3(e.pat)) IN
         IF vs = {} THEN (IF r.k = "val" /\ r.v = e.default THEN "ok" ELSE "ValueDefault")
         ELSE IF Cardinality(vs) > 1 /\ ~e.any THEN (IF r.k = "raise" /\ r.e = "UniquenessError" THEN "ok" ELSE "ValueUniqueness")
         ELSE IF r.k = "val" /\ r.v \in vs THEN "ok" ELSE "ValueAgrees"
    [] e.op = "proj" ->
         IF r.k # "list" THEN "OpRaised:proj"
         ELSE IF S(r.v) # Proj(G, P3(e.pat), e.i) THEN "ProjectionAgrees:" \o e.via
         ELSE IF e.unique /\ \E x \in S(r.v) : Count(r.v, x) # 1 THEN "ProjectionUnique:" \o e.via
         ELSE IF ~e.unique /\ \E x \in S(r.v) : Count(r.v, x) # Mult(G, P3(e.pat), e.i, x) THEN "ProjectionMultiplicity:" \o e.via
         ELSE "ok"
    [] e.op = "pairs" ->
         IF r.k # "list" THEN "OpRaised:pairs"
         ELSE IF P2(r.v) # Pairs(G, P3(e.pat), e.i, e.j) THEN "PairsAgree:" \o e.via
         ELSE IF e.unique /\ \E x \in S(r.v) : Count(r.v, x) # 1 THEN "PairsUnique:" \o e.via
         ELSE IF ~e.unique /\ \E x \in S(r.v) : Count(r.v, x) # MultPair(G, P3(e.pat), e.i, e.j, <<x[1], x[2]>>) THEN "PairsMultiplicity:" \o e.via
         ELSE "ok"
    [] e.op = "choices" ->
         IF r.k # "set" THEN "OpRaised:choices"
         ELSE IF T3(r.v) = Choices(G, P3(e.pat), e.pos, S(e.alts)) THEN "ok" ELSE "ChoicesUnion"
    [] e.op = "cbd" -> IF r.k # "set" THEN "OpRaised:cbd" ELSE IF T3(r.v) = CBD(G, e.s, S(Batch[k].cfg.bn)) THEN "ok" ELSE "CBDAgrees"
    [] e.op = "nodes" -> IF r.k = "list" /\ S(r.v) = Nodes(G) THEN "ok" ELSE "NodesAgree"
    [] e.op = "connected" -> IF r.k = "bool" /\ r.v = Connected(G) THEN "ok" ELSE "ConnectedAgrees"
    [] e.op = "iso" -> IF r.k = "bool" /\ r.v = (M[e.g] = M[e.h]) THEN "ok" ELSE "IsoGround"
    [] e.op = "contains" -> IF r.k = "bool" /\ r.v = (Sel(G, P3(e.pat)) # {}) THEN "ok" ELSE "ContainsAgrees"
    [] e.op = "len" -> IF r.k = "val" /\ r.n = Cardinality(G) THEN "ok" ELSE "LenAgrees"

Judge(M, e) ==
  IF e.op \notin Ops THEN "UnknownEvent"
  ELSE IF e.res.k = "timeout" THEN "Terminates:" \o e.op
  ELSE LET v0 == ResVerdict(M, e) IN
  IF v0 # "ok" THEN v0
  ELSE LET M2 == NewSt(M, e) IN
       IF T3(e.A) # M2.A \/ T3(e.B) # M2.B THEN
            (IF e.op = "new" THEN "StateAgrees:new"
             ELSE IF e.op \in {"add", "batch", "remove", "set", "iadd", "isub"} /\ T3(e[e.g]) # M2[e.g] THEN "StateAgrees:" \o e.op
             ELSE "OperandsUntouched:" \o e.op)
       ELSE IF Has(e, "H") /\ T3(e.H) # M2.H THEN "OtherGraphUntouched:" \o e.op
       ELSE IF e.lenA # Cardinality(M2.A) \/ e.lenB # Cardinality(M2.B) THEN "LenAgrees:" \o e.op
       ELSE "ok"
Init == k = 1 /\ l = 1 /\ st = St0 /\ verdict = "ok"
Step == /\ k <= Len(Batch) /\ verdict = "ok" /\ l <= Len(Batch[k].ev)
        /\ LET e == Batch[k].ev[l]
               v == Judge(st, e)
           IN IF v = "ok"
              THEN st' = NewSt(st, e) /\ l' = l + 1 /\ UNCHANGED <<k, verdict>>
              ELSE verdict' = v /\ UNCHANGED <<k, l, st>>
NextTrace == /\ k <= Len(Batch) /\ (verdict # "ok" \/ l > Len(Batch[k].ev))
             /\ PrintT(<<"VERDICT", Batch[k].tid, verdict, l>>)
             /\ k' = k + 1 /\ l' = 1 /\ st' = St0 /\ verdict' = "ok"
TraceSpec == Init /\ [][Step \/ NextTrace]_vars
===============================================================================
