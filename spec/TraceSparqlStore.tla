--------------------------- MODULE TraceSparqlStore ---------------------------
(***************************************************************************)
(* C20 - trace validation of SPARQLUpdateStore against SparqlStore.tla's   *)
(* Apply / Flush.  State carried along a trace: [E, queue].  Every event   *)
(* logs `endpoint`, the quads of the loopback endpoint's dataset read      *)
(* directly after the call; read events log their result.  cfg gives the   *)
(* store's autocommit and dirty_reads switches.                            *)
(***************************************************************************)
EXTENDS StoreOps, TLC, Json, IOUtils
Batch == ndJsonDeserialize(IOEnv.TRACE_FILE)
Devs  == LET d == JsonDeserialize(IOEnv.DEVS_FILE) IN {d[i] : i \in 1..Len(d)}
VARIABLES k, l, st, verdict
vars == <<k, l, st, verdict>>
Has(r, f) == f \in DOMAIN r
T3(q) == <<q[1], q[2], q[3]>>
St0 == [E |-> EmptyDs, queue |-> <<>>]

Apply(G, w) ==
  CASE w.op = "add" -> PAdd(G, w.g, w.t)
    [] w.op = "addN" -> PAddQuads(G, SeqToSet(w.quads))
    [] w.op = "remove" -> PRemove(G, w.g, w.pat)
    [] w.op = "remove_graph" -> PRemoveGraph(G, w.g)
    [] w.op = "add_graph" -> PGraph(G, w.g)
    [] w.op = "update" ->
         (CASE w.kind = "insertdata" -> PAdd(G, w.g, w.t)
            [] w.kind = "deletedata" -> PRemove(G, w.g, w.t)
            [] w.kind = "replace" ->
                 IF Sel(GGet(G, w.g), <<w.t[1], w.t[2], Wild>>) = {} THEN G
                 ELSE PAdd(PRemove(G, w.g, <<w.t[1], w.t[2], Wild>>), w.g, <<w.t[1], w.t[2], w.o2>>))
RECURSIVE ApplyAll(_, _)
ApplyAll(G, s) == IF s = <<>> THEN G ELSE ApplyAll(Apply(G, s[1]), Tail(s))

Writes == {"add", "addN", "remove", "remove_graph", "add_graph", "update"}
Reads == {"triples", "len", "contains", "contexts", "contexts_of", "query"}
Flushes(cf) == ~cf.autocommit /\ ~cf.dirty_reads
Next(cf, s, e) ==
  IF e.op \in Writes THEN (IF cf.autocommit THEN [s EXCEPT !.E = Apply(s.E, e)] ELSE [s EXCEPT !.queue = Append(s.queue, e)])
  ELSE IF e.op = "commit" THEN [E |-> ApplyAll(s.E, s.queue), queue |-> <<>>]
  ELSE IF e.op = "rollback" THEN [s EXCEPT !.queue = <<>>]
  ELSE IF e.op \in Reads /\ Flushes(cf) THEN [E |-> ApplyAll(s.E, s.queue), queue |-> <<>>]
  ELSE s
(* what a read returns, as a function of the endpoint *)
Expected(E, e) ==
  CASE e.op = "triples" -> Sel(GGet(E, e.g), e.pat)
    [] e.op = "query" -> Sel(GGet(E, e.g), e.pat)
    [] e.op = "len" -> Cardinality(GGet(E, e.g))
    [] e.op = "contains" -> e.t \in GGet(E, e.g)
    [] e.op = "contexts" -> {n \in DOMAIN E \ {DEFAULT} : E[n] # {}}
    [] e.op = "contexts_of" -> {n \in DOMAIN E \ {DEFAULT} : e.t \in E[n]}        \* the named graphs that hold this very triple
ReadOK(E, e) ==
  CASE e.op \in {"triples", "query"} -> SeqToSet(e.result) = Expected(E, e) /\ NoDup(e.result)
    [] e.op = "len" -> e.result = Expected(E, e)
    [] e.op = "contains" -> e.result = Expected(E, e)
    [] e.op = "contexts_of" -> SeqToSet(e.result) = Expected(E, e)
    [] e.op = "contexts" -> Expected(E, e) \subseteq SeqToSet(e.result) /\ SeqToSet(e.result) = SeqToSet(e.endpoint_graphs) \ {DEFAULT}
Clause(cf, e) == IF e.op \in Writes THEN (IF cf.autocommit THEN "EndpointMirrors:" \o e.op ELSE "WriteWaitsForCommit:" \o e.op)
                 ELSE IF e.op = "commit" THEN "CommitInOrder"
                 ELSE IF e.op = "rollback" THEN "RollbackDiscards"
                 ELSE IF Flushes(cf) THEN "ReadFlushesFirst:" \o e.op ELSE "ReadLeavesEndpoint:" \o e.op
Judge(cf, s, e) ==
  IF e.op \notin Writes \cup Reads \cup {"commit", "rollback"} THEN "UnknownEvent"
  ELSE IF Has(e, "raise") THEN "OpRaised:" \o e.op
  ELSE LET s2 == Next(cf, s, e) IN
       IF SeqToSet(e.endpoint) # GQuads(s2.E) THEN Clause(cf, e)
       \* a graph that was announced (add_graph) or written to exists at the endpoint as soon as that write is there, also while it is empty
       ELSE IF Has(e, "endpoint_graphs") /\ ~(DOMAIN s2.E \ {DEFAULT} \subseteq SeqToSet(e.endpoint_graphs)) THEN "GraphAnnounced:" \o e.op
       ELSE IF e.op \in Reads /\ ~ReadOK(s2.E, e) THEN "ReadAgrees:" \o e.op
       ELSE "ok"

Init == k = 1 /\ l = 1 /\ st = St0 /\ verdict = "ok"
Step == /\ k <= Len(Batch) /\ verdict = "ok" /\ l <= Len(Batch[k].ev)
        /\ LET e == Batch[k].ev[l]
               v == Judge(Batch[k].cfg, st, e)
           IN IF v = "ok"
              THEN st' = Next(Batch[k].cfg, st, e) /\ l' = l + 1 /\ UNCHANGED <<k, verdict>>
              ELSE verdict' = v /\ UNCHANGED <<k, l, st>>
NextTrace == /\ k <= Len(Batch) /\ (verdict # "ok" \/ l > Len(Batch[k].ev))
             /\ PrintT(<<"VERDICT", Batch[k].tid, verdict, l>>)
             /\ k' = k + 1 /\ l' = 1 /\ st' = St0 /\ verdict' = "ok"
TraceSpec == Init /\ [][Step \/ NextTrace]_vars
===============================================================================
