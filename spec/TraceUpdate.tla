------------------------------- MODULE TraceUpdate -------------------------------
(***************************************************************************)
(* Tier T for C10: after each update request the dataset's quads must be   *)
(* the dataset SparqlUpdate.tla prescribes (up to the identity of blank    *)
(* nodes minted by INSERT templates).                                      *)
(*   KF_C10_per_solution : named deviation - evalModify deletes and        *)
(*        inserts solution by solution (in the order solutions come),      *)
(*        instead of all deletions before any insertion                    *)
(***************************************************************************)
EXTENDS SparqlUpdate, TLC, Json, IOUtils

Batch == ndJsonDeserialize(IOEnv.TRACE_FILE)
Devs  == LET d == JsonDeserialize(IOEnv.DEVS_FILE) IN {d[i] : i \in 1..Len(d)}
VARIABLES k, l, st, verdict
vars == <<k, l, st, verdict>>
Has(r, f) == f \in DOMAIN r
St0 == [D |-> [n \in {"D"} |-> {}]]
MkData(e) == [n \in {"D"} \cup SToSet(e.graphs) \cup {e.quads[i][4] : i \in 1..Len(e.quads)} |->
                {QT(e.quads[i]) : i \in {j \in 1..Len(e.quads) : e.quads[j][4] = n}}]
Ctx(s, cf) == [D |-> s.D, active |-> {}, ord |-> cf.ord, dev |-> FALSE, dev2 |-> FALSE, union |-> cf.union_default, dev3 |-> "KF_C10_using_named" \in Devs, init |-> EmptyMu]

(* deviation model: per-solution delete-then-insert, for SOME order of the solutions *)
RECURSIVE PerSolution(_, _, _, _)
PerSolution(D, u, Om, order) ==
  IF order = <<>> THEN D
  ELSE LET i == Head(order)
       IN PerSolution(AddQuads(DelQuads(D, InstQuads(u.del, <<Om[i]>>, u.with)), InstQuads(u.ins, <<Om[i]>>, u.with)), u, Om, Tail(order))
DevModifyOK(D, u, c, O) ==
  LET Om == EvalGroup(u.where, WhereCtx(D, u, c), EmptyMu) IN
  Len(Om) <= 4 /\ \E f \in Permutations(1..Len(Om)) :
      DQuads(PerSolution(D, u, Om, [i \in 1..Len(Om) |-> f[i]])) = O

(* KF_C10_deletewhere_vargraph: DELETE WHERE { GRAPH ?g { ... } } looks the variable up as if it were a graph name and
   deletes nothing *)
HasVarGraph(u) == u.u = "deletewhere" /\ \E j \in 1..Len(u.quads) : u.quads[j][4].k = "var"
RECURSIVE ApplyOpsDev(_, _, _, _)
ApplyOpsDev(D, ops, i, c) == IF i > Len(ops) THEN D
                             ELSE ApplyOpsDev(IF HasVarGraph(ops[i]) THEN D ELSE ApplyOp(D, ops[i], c), ops, i + 1, c)
Judge(s, cf, e) ==
  CASE e.op = "data" -> "ok"
    [] e.op = "update" ->
         IF e.res.k = "raise" THEN "UpdateRaised"
         ELSE LET c == Ctx(s, cf)
                  E == DQuads(ApplyOps(s.D, e.ops, 1, c))
                  O == SToSet(e.after)
              IN IF QuadsIso(E, O) THEN "ok"
                 ELSE IF "KF_C10_per_solution" \in Devs /\ Len(e.ops) = 1 /\ e.ops[1].u = "modify" /\ FreshO(O) = {}
                         /\ DevModifyOK(s.D, e.ops[1], c, O) THEN "ok"
                 ELSE IF "KF_C10_deletewhere_vargraph" \in Devs /\ (\E i \in 1..Len(e.ops) : HasVarGraph(e.ops[i]))
                         /\ QuadsIso(DQuads(ApplyOpsDev(s.D, e.ops, 1, c)), O) THEN "ok"
                 ELSE "UpdateResult"
    [] OTHER -> "UnknownEvent"

ApplyEv(s, cf, e) == CASE e.op = "data" -> [D |-> MkData(e)]
                       [] e.op = "update" -> [D |-> ApplyOps(s.D, e.ops, 1, Ctx(s, cf))]
                       [] OTHER -> s

Init == k = 1 /\ l = 1 /\ st = St0 /\ verdict = "ok"
Step == /\ k <= Len(Batch) /\ verdict = "ok" /\ l <= Len(Batch[k].ev)
        /\ LET e == Batch[k].ev[l]
               v == Judge(st, Batch[k].cfg, e)
           IN IF v = "ok"
              THEN st' = ApplyEv(st, Batch[k].cfg, e) /\ l' = l + 1 /\ UNCHANGED <<k, verdict>>
              ELSE verdict' = v /\ UNCHANGED <<k, l, st>>
NextTrace == /\ k <= Len(Batch) /\ (verdict # "ok" \/ l > Len(Batch[k].ev))
             /\ PrintT(<<"VERDICT", Batch[k].tid, verdict, l>>)
             /\ k' = k + 1 /\ l' = 1 /\ st' = St0 /\ verdict' = "ok"
TraceSpec == Init /\ [][Step \/ NextTrace]_vars
===============================================================================
