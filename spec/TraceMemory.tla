------------------------------ MODULE TraceMemory ------------------------------
(***************************************************************************)
(* Validation of traces recorded by the hooks in rdflib's Memory store     *)
(* (rdflib/_verif.py) while the REPOSITORY'S OWN TESTS run: one trace per  *)
(* store instance, events in program order, terms and contexts interned to *)
(* integers (0 = None / wild card).  State: the set Q of quads <<s,p,o,c>>.*)
(*   add(t, c)      Q' = Q \cup {<<t, c>>}                                  *)
(*   remove(pat, c) Q' = Q minus the quads matching pat in c (c = 0: in    *)
(*                  every context)                                         *)
(* After every event the store's own len(store) must equal the number of   *)
(* distinct triples of Q' and len(store, c) the number of quads in c:      *)
(* the three indexes, the per-context sets and the context compression of  *)
(* the store have to agree with the history (C01) and removing from one    *)
(* graph must not touch another (C02).  `off` ends a trace (store grew     *)
(* past the bound or met a quoted statement).                              *)
(***************************************************************************)
EXTENDS Integers, Sequences, FiniteSets, TLC, Json, IOUtils
Batch == ndJsonDeserialize(IOEnv.TRACE_FILE)
Devs  == LET d == JsonDeserialize(IOEnv.DEVS_FILE) IN {d[i] : i \in 1..Len(d)}
VARIABLES k, l, st, verdict
vars == <<k, l, st, verdict>>
T3(q) == <<q[1], q[2], q[3]>>
MatchP(pat, q) == \A i \in 1..3 : pat[i] = 0 \/ pat[i] = q[i]
Next(Q, e) ==
  CASE e.op = "add" -> Q \cup {<<e.t[1], e.t[2], e.t[3], e.c>>}
    [] e.op = "remove" -> {q \in Q : ~(MatchP(e.t, q) /\ (e.c = 0 \/ q[4] = e.c))}
    [] OTHER -> Q
Triples(Q) == {T3(q) : q \in Q}
InCtx(Q, c) == IF c = 0 THEN Triples(Q) ELSE {T3(q) : q \in {r \in Q : r[4] = c}}
Judge(Q, e) ==
  IF e.op = "off" THEN "ok"
  ELSE IF e.op \notin {"add", "remove"} THEN "UnknownEvent"
  ELSE LET Q2 == Next(Q, e) IN
       IF e.n # Cardinality(Triples(Q2)) THEN "StoreLenAgrees:" \o e.op
       ELSE IF e.nc # Cardinality(InCtx(Q2, e.c)) THEN "ContextLenAgrees:" \o e.op
       ELSE "ok"
Init == k = 1 /\ l = 1 /\ st = {} /\ verdict = "ok"
AtEnd == IF l > Len(Batch[k].ev) THEN TRUE ELSE Batch[k].ev[l].op = "off"
Step == /\ k <= Len(Batch) /\ verdict = "ok" /\ ~AtEnd
        /\ LET e == Batch[k].ev[l]
               v == Judge(st, e)
           IN IF v = "ok"
              THEN st' = Next(st, e) /\ l' = l + 1 /\ UNCHANGED <<k, verdict>>
              ELSE verdict' = v /\ UNCHANGED <<k, l, st>>
NextTrace == /\ k <= Len(Batch) /\ (IF verdict # "ok" THEN TRUE ELSE AtEnd)
             /\ PrintT(<<"VERDICT", Batch[k].tid, verdict, l>>)
             /\ k' = k + 1 /\ l' = 1 /\ st' = {} /\ verdict' = "ok"
TraceSpec == Init /\ [][Step \/ NextTrace]_vars
===============================================================================
