---------------------------------- MODULE Sparql ----------------------------------
(***************************************************************************)
(* SPARQL 1.1 Query semantics transcribed from the recommendation          *)
(* (section 17 operators, 18.2.2 translation of group graph patterns,      *)
(* 18.5 evaluation) for the fragment C04 / C08 / C15 name.  Constant-level *)
(* operators only; the actions that use them are in TraceQuery.tla (judge  *)
(* rdflib's answers) and MCSparql.tla (laws that guard this transcription).*)
(*                                                                         *)
(* Terms are records [k, v]: k in {"iri","bnode","num","str","bool","lit"};*)
(* "num" = xsd:integer with value v, "str" = simple literal, "lit" = any   *)
(* other literal (opaque).  Variables in patterns are [k |-> "var", v].    *)
(* A solution mapping is a function from variable names to terms; a        *)
(* multiset of solutions is a sequence (order is irrelevant unless stated).*)
(* A dataset is a function from graph name to a set of triples; "D" is the *)
(* default graph.                                                          *)
(***************************************************************************)
EXTENDS Integers, Sequences, FiniteSets, TLC, SparqlPaths

Err   == [k |-> "err"]
TrueV == [k |-> "bool", v |-> TRUE]
FalseV == [k |-> "bool", v |-> FALSE]
BoolV(b) == IF b THEN TrueV ELSE FalseV
NumV(n) == [k |-> "num", v |-> n]
IsVar(x) == x.k = "var"
IsErr(x) == x.k = "err"
IsLit(x) == x.k \in {"num", "str", "bool", "lit"}
EmptyMu == [v \in {} |-> Err]
SToSet(s) == {s[i] : i \in 1..Len(s)}

RECURSIVE SetToSeq(_)
SetToSeq(S) == IF S = {} THEN <<>> ELSE LET x == CHOOSE y \in S : TRUE IN <<x>> \o SetToSeq(S \ {x})
RECURSIVE Flatten(_)
Flatten(ss) == IF ss = <<>> THEN <<>> ELSE Head(ss) \o Flatten(Tail(ss))
MapSeq(s, F(_)) == [i \in 1..Len(s) |-> F(s[i])]
Count(s, x) == Cardinality({i \in 1..Len(s) : s[i] = x})
BagEq(a, b) == Len(a) = Len(b) /\ \A x \in SToSet(a) \cup SToSet(b) : Count(a, x) = Count(b, x)

(* ---- solution mappings --------------------------------------------------------- *)
Compat(m1, m2) == \A v \in DOMAIN m1 \cap DOMAIN m2 : m1[v] = m2[v]
Merge(m1, m2)  == [v \in DOMAIN m1 \cup DOMAIN m2 |-> IF v \in DOMAIN m1 THEN m1[v] ELSE m2[v]]
RestrictMu(m, V) == [v \in DOMAIN m \cap V |-> m[v]]
Bind1(m, v, t) == [x \in DOMAIN m \cup {v} |-> IF x = v THEN t ELSE m[x]]

(* ---- datasets -------------------------------------------------------------------- *)
DGet(D, n) == IF n \in DOMAIN D THEN D[n] ELSE {}
DUnion(D) == UNION {D[n] : n \in DOMAIN D}
Named(D) == DOMAIN D \ {"D"}

(* ---- expressions (section 17) ------------------------------------------------------- *)
(* c: evaluation context [D, active (set of triples), ord (string order table)] *)
EBV(x) == CASE x.k = "bool" -> x
            [] x.k = "num"  -> BoolV(x.v # 0)
            [] x.k = "str"  -> BoolV(x.v # "")
            [] OTHER        -> Err
Not3(x) == IF IsErr(x) THEN Err ELSE BoolV(~x.v)
And3(a, b) == IF (~IsErr(a) /\ ~a.v) \/ (~IsErr(b) /\ ~b.v) THEN FalseV ELSE IF IsErr(a) \/ IsErr(b) THEN Err ELSE TrueV
Or3(a, b)  == IF (~IsErr(a) /\ a.v) \/ (~IsErr(b) /\ b.v) THEN TrueV ELSE IF IsErr(a) \/ IsErr(b) THEN Err ELSE FalseV

TermEqV(a, b) ==           \* operator "=" : value equality within a family, RDFterm-equal otherwise
  IF IsErr(a) \/ IsErr(b) THEN Err
  ELSE IF a.k = b.k /\ a.k \in {"num", "str", "bool"} THEN BoolV(a.v = b.v)
  ELSE IF a = b THEN TrueV
  \* two different literals: a type error only when a datatype is not understood ("lit"); literals of different
  \* understood families (number / string / boolean) have disjoint value spaces and are simply unequal
  ELSE IF IsLit(a) /\ IsLit(b) /\ (a.k = "lit" \/ b.k = "lit") THEN Err
  ELSE FalseV
StrOrd(c, s) == IF s \in DOMAIN c.ord THEN c.ord[s] ELSE 0 - 1
LessV(c, a, b) ==
  IF IsErr(a) \/ IsErr(b) THEN Err
  ELSE IF a.k = "num" /\ b.k = "num" THEN BoolV(a.v < b.v)
  ELSE IF a.k = "str" /\ b.k = "str" THEN BoolV(StrOrd(c, a.v) < StrOrd(c, b.v))
  ELSE IF a.k = "bool" /\ b.k = "bool" THEN BoolV(~a.v /\ b.v)
  ELSE Err
Arith(o, a, b) == IF IsErr(a) \/ IsErr(b) \/ a.k # "num" \/ b.k # "num" THEN Err
                  ELSE NumV(CASE o = "+" -> a.v + b.v [] o = "-" -> a.v - b.v [] o = "*" -> a.v * b.v)

RECURSIVE EvalExpr(_, _, _)
RECURSIVE EvalGroup(_, _, _)
RECURSIVE EvalElts(_, _, _, _, _)
RECURSIVE EvalQuery(_, _)
RECURSIVE FirstOk(_, _, _, _)
RECURSIVE InList(_, _, _, _, _)

EvalExpr(e, mu, c) ==
  CASE e.e = "var"   -> IF e.v \in DOMAIN mu THEN mu[e.v] ELSE Err
    [] e.e = "const" -> e.t
    [] e.e = "="     -> TermEqV(EvalExpr(e.a, mu, c), EvalExpr(e.b, mu, c))
    [] e.e = "!="    -> Not3(TermEqV(EvalExpr(e.a, mu, c), EvalExpr(e.b, mu, c)))
    [] e.e = "<"     -> LessV(c, EvalExpr(e.a, mu, c), EvalExpr(e.b, mu, c))
    [] e.e = ">"     -> LessV(c, EvalExpr(e.b, mu, c), EvalExpr(e.a, mu, c))
    [] e.e = "<="    -> Not3(LessV(c, EvalExpr(e.b, mu, c), EvalExpr(e.a, mu, c)))
    [] e.e = ">="    -> Not3(LessV(c, EvalExpr(e.a, mu, c), EvalExpr(e.b, mu, c)))
    [] e.e = "&&"    -> And3(EBV(EvalExpr(e.a, mu, c)), EBV(EvalExpr(e.b, mu, c)))
    [] e.e = "||"    -> Or3(EBV(EvalExpr(e.a, mu, c)), EBV(EvalExpr(e.b, mu, c)))
    [] e.e = "!"     -> Not3(EBV(EvalExpr(e.a, mu, c)))
    [] e.e = "bound" -> BoolV(e.v \in DOMAIN mu)
    [] e.e \in {"+", "-", "*"} -> Arith(e.e, EvalExpr(e.a, mu, c), EvalExpr(e.b, mu, c))
    [] e.e = "isiri"     -> LET x == EvalExpr(e.a, mu, c) IN IF IsErr(x) THEN Err ELSE BoolV(x.k = "iri")
    [] e.e = "isliteral" -> LET x == EvalExpr(e.a, mu, c) IN IF IsErr(x) THEN Err ELSE BoolV(IsLit(x))
    [] e.e = "isblank"   -> LET x == EvalExpr(e.a, mu, c) IN IF IsErr(x) THEN Err ELSE BoolV(x.k = "bnode")
    [] e.e = "sameterm"  -> LET x == EvalExpr(e.a, mu, c)  y == EvalExpr(e.b, mu, c) IN IF IsErr(x) \/ IsErr(y) THEN Err ELSE BoolV(x = y)
    [] e.e = "if"        -> LET x == EBV(EvalExpr(e.a, mu, c)) IN IF IsErr(x) THEN Err ELSE IF x.v THEN EvalExpr(e.b, mu, c) ELSE EvalExpr(e.c, mu, c)
    [] e.e = "coalesce"  -> FirstOk(e.args, 1, mu, c)
    \* x IN (e1 .. en) is (x = e1) || .. || (x = en) with the three-valued ||; NOT IN is its negation (17.4.1.9 / 17.4.1.10)
    [] e.e = "in"        -> LET x == EvalExpr(e.a, mu, c)
                                r == InList(x, e.args, 1, mu, c)
                            IN IF IsErr(x) THEN Err           \* 17.2: an operator applied to an unbound / erroring left-hand side is an error, also for the empty list
                               ELSE IF e.neg THEN Not3(r) ELSE r
    \* EXISTS: the pattern with the current solution substituted = the pattern evaluated starting from that solution
    [] e.e = "exists"    -> BoolV(Len(EvalGroup(e.g, c, mu)) > 0)
    [] e.e = "notexists" -> BoolV(Len(EvalGroup(e.g, c, mu)) = 0)
InList(x, args, i, mu, c) == IF i > Len(args) THEN FalseV
                             ELSE Or3(TermEqV(x, EvalExpr(args[i], mu, c)), InList(x, args, i + 1, mu, c))
FirstOk(args, i, mu, c) == IF i > Len(args) THEN Err
                           ELSE LET x == EvalExpr(args[i], mu, c) IN IF IsErr(x) THEN FirstOk(args, i + 1, mu, c) ELSE x
Holds(e, mu, c) == LET x == EBV(EvalExpr(e, mu, c)) IN ~IsErr(x) /\ x.v       \* FILTER keeps mu iff EBV is true

(* ---- algebra operators on multisets (sequences) ----------------------------------------- *)
Join(A, B) == Flatten([i \in 1..Len(A) |-> Flatten([j \in 1..Len(B) |-> IF Compat(A[i], B[j]) THEN <<Merge(A[i], B[j])>> ELSE <<>>])])
LeftJoin(A, B, F(_)) ==
  Flatten([i \in 1..Len(A) |->
     LET ext == Flatten([j \in 1..Len(B) |-> IF Compat(A[i], B[j]) /\ F(Merge(A[i], B[j])) THEN <<Merge(A[i], B[j])>> ELSE <<>>])
     IN IF ext = <<>> THEN <<A[i]>> ELSE ext])
(* named deviation KF_C04_values_leftjoin: evalLeftJoin's "re-check without prior bindings" forgets the variables a
   VALUES block bound (VALUES contributes nothing to _vars), so a row with no compatible extension is dropped when the
   OPTIONAL part matches on its own under the remaining bindings.  pv = variables bound by the non-VALUES elements before *)
LeftJoinDev(A, B, F(_), pv) ==
  Flatten([i \in 1..Len(A) |->
     LET ext == Flatten([j \in 1..Len(B) |-> IF Compat(A[i], B[j]) /\ F(Merge(A[i], B[j])) THEN <<Merge(A[i], B[j])>> ELSE <<>>])
         mr  == RestrictMu(A[i], pv)
     IN IF ext # <<>> THEN ext
        ELSE IF \E j \in 1..Len(B) : Compat(mr, B[j]) /\ F(Merge(mr, B[j])) THEN <<>> ELSE <<A[i]>>])
Minus(A, B) == SelectSeq(A, LAMBDA m : \A j \in 1..Len(B) : ~Compat(m, B[j]) \/ DOMAIN m \cap DOMAIN B[j] = {})
FilterSeq(A, P(_)) == SelectSeq(A, P)
Extend(A, v, F(_)) == [i \in 1..Len(A) |-> LET x == F(A[i]) IN IF IsErr(x) \/ v \in DOMAIN A[i] THEN A[i] ELSE Bind1(A[i], v, x)]
Project(A, V) == [i \in 1..Len(A) |-> RestrictMu(A[i], V)]
RECURSIVE Distinct(_)
Distinct(A) == IF A = <<>> THEN <<>> ELSE <<Head(A)>> \o Distinct(SelectSeq(Tail(A), LAMBDA m : m # Head(A)))

(* ---- basic graph patterns ------------------------------------------------------------------ *)
MatchPos(x, t, mu) == IF IsVar(x) THEN (IF x.v \in DOMAIN mu THEN mu[x.v] = t ELSE TRUE) ELSE x = t
ExtPos(x, t, mu) == IF IsVar(x) /\ x.v \notin DOMAIN mu THEN Bind1(mu, x.v, t) ELSE mu
(* all extensions of mu that match one triple pattern in graph G (a set: distinct triples give distinct extensions) *)
ExtTP(tp, G, mu) ==
  {ExtPos(tp[3], t[3], ExtPos(tp[2], t[2], ExtPos(tp[1], t[1], mu))) :
      t \in {u \in G : /\ MatchPos(tp[1], u[1], mu)
                       /\ MatchPos(tp[2], u[2], ExtPos(tp[1], u[1], mu))
                       /\ MatchPos(tp[3], u[3], ExtPos(tp[2], u[2], ExtPos(tp[1], u[1], mu)))}}
RECURSIVE EvalBGP(_, _, _, _)
EvalBGP(tps, i, G, Om) == IF i > Len(tps) THEN Om
                          ELSE EvalBGP(tps, i + 1, G, Flatten([j \in 1..Len(Om) |-> SetToSeq(ExtTP(tps[i], G, Om[j]))]))

(* ---- variables in scope for SELECT-star -------------------------------------------------------- *)
RECURSIVE VarsOfGroup(_)
\* (a blank node in a pattern is a variable that is not in scope for projection: the AST marks it [k "var", v name, hidden TRUE])
VarsOfTP(tp) == {tp[i].v : i \in {j \in 1..3 : IsVar(tp[j]) /\ "hidden" \notin DOMAIN tp[j]}}
VarsOfElt(e) ==
  CASE e.t = "bgp"      -> UNION {VarsOfTP(e.tps[i]) : i \in 1..Len(e.tps)}
    [] e.t \in {"group", "optional"} -> VarsOfGroup(e.g)
    [] e.t = "union"    -> UNION {VarsOfGroup(e.gs[i]) : i \in 1..Len(e.gs)}
    [] e.t = "graph"    -> VarsOfGroup(e.g) \cup (IF IsVar(e.name) THEN {e.name.v} ELSE {})
    [] e.t = "bind"     -> {e.v}
    [] e.t = "values"   -> SToSet(e.vars)
    [] e.t = "subselect" -> SToSet(e.q.proj)
    [] OTHER            -> {}
VarsOfGroup(g) == UNION {VarsOfElt(g.elts[i]) : i \in 1..Len(g.elts)}

(* ---- group graph patterns: translation 18.2.2 fused with evaluation 18.5 ---------------------- *)
(* c.active is the active graph; filters of a group apply to the whole group whatever their position *)
FiltersOf(g) == {g.elts[i].e : i \in {j \in 1..Len(g.elts) : g.elts[j].t = "filter"}}
NonFilterGroup(g) == [elts |-> SelectSeq(g.elts, LAMBDA x : x.t # "filter")]
AllHold(FS, mu, c) == \A f \in FS : Holds(f, mu, c)
InGraph(c, n) == [c EXCEPT !.active = DGet(c.D, n)]

ValuesRows(e) == [i \in 1..Len(e.rows) |->
                    LET B == {j \in 1..Len(e.vars) : e.rows[i][j].k # "undef"}
                    IN [v \in {e.vars[j] : j \in B} |-> e.rows[i][CHOOSE j \in B : e.vars[j] = v]]]

(* ---- where the named deviation KF_C04_pushdown applies: rdflib's "lazy" joins (algebra.py: analyse) ------------------------- *)
(* The group translation makes one Join per joined element after the first (adjacent triple blocks are one element; OPTIONAL, MINUS and
   BIND make LeftJoin / Minus / Extend instead).  A Join is evaluated lazily - right operand once per left solution, with that solution's
   bindings visible inside it - exactly when neither operand contains a Join, a DISTINCT or a LIMIT / OFFSET anywhere (the graph patterns
   of EXISTS filters included).  Everywhere else the operands are evaluated on their own, as the algebra says. *)
RECURSIVE LazyAble(_)
RECURSIVE LazyAbleElt(_)
RECURSIVE ExprLazy(_)
JoinType(e) == e.t \in {"bgp", "group", "union", "graph", "values", "subselect"}
MakesJoin(elts, i) == i > 1 /\ JoinType(elts[i]) /\ ~(elts[i].t = "bgp" /\ elts[i - 1].t = "bgp")
ExprLazy(x) ==
  IF x.e \in {"exists", "notexists"} THEN LazyAble(x.g)
  ELSE /\ ("a" \in DOMAIN x => ExprLazy(x.a))
       /\ ("b" \in DOMAIN x => ExprLazy(x.b))
       /\ ("c" \in DOMAIN x => ExprLazy(x.c))
       /\ ("args" \in DOMAIN x => \A i \in 1..Len(x.args) : ExprLazy(x.args[i]))
LazyAbleElt(e) ==
  CASE e.t \in {"bgp", "values"} -> TRUE
    [] e.t \in {"group", "optional", "minus", "graph"} -> LazyAble(e.g)
    [] e.t = "union"     -> \A i \in 1..Len(e.gs) : LazyAble(e.gs[i])
    [] e.t \in {"bind", "filter"} -> ExprLazy(e.e)
    [] e.t = "subselect" -> /\ ~("distinct" \in DOMAIN e.q /\ e.q.distinct) /\ "limit" \notin DOMAIN e.q /\ "offset" \notin DOMAIN e.q
                            /\ "postvalues" \notin DOMAIN e.q /\ LazyAble(e.q.where)
    [] OTHER -> TRUE
LazyAble(g) == LET nf == SelectSeq(g.elts, LAMBDA x : x.t # "filter")
               IN /\ \A i \in 1..Len(g.elts) : LazyAbleElt(g.elts[i])
                  /\ \A i \in 1..Len(nf) : ~MakesJoin(nf, i)
(* elts: the non-filter elements of a group; the join that brings in elts[i] is lazy *)
LazyJoinAt(elts, i) == /\ MakesJoin(elts, i) /\ LazyAbleElt(elts[i])
                       /\ \A j \in 1..(i - 1) : LazyAbleElt(elts[j]) /\ ~MakesJoin(elts, j)

EvalElt(e, c, outer) ==     \* the multiset an element that is JOINED contributes
  CASE e.t = "bgp"    -> EvalBGP(e.tps, 1, c.active, <<EmptyMu>>)
    [] e.t = "group"  -> EvalGroup(e.g, c, outer)
    [] e.t = "union"  -> Flatten([i \in 1..Len(e.gs) |-> EvalGroup(e.gs[i], c, outer)])
    [] e.t = "graph"  -> IF IsVar(e.name)
                         THEN Flatten([i \in 1..Len(SetToSeq(Named(c.D))) |->
                                 LET n == SetToSeq(Named(c.D))[i]
                                 IN Join(EvalGroup(e.g, InGraph(c, n), outer), <<[v \in {e.name.v} |-> [k |-> "iri", v |-> n]]>>)])
                         ELSE EvalGroup(e.g, InGraph(c, e.name.v), outer)
    [] e.t = "values" -> ValuesRows(e)
    [] e.t = "subselect" -> EvalQuery(e.q, c).rows

EvalElts(elts, i, Om, c, outer) ==
  IF i > Len(elts) THEN Om
  ELSE LET e == elts[i] IN
       EvalElts(elts, i + 1,
         CASE e.t = "optional" ->
                 LET FS == FiltersOf(e.g)
                     B  == EvalGroup(NonFilterGroup(e.g), c, outer)
                     pv == UNION {VarsOfElt(elts[j]) : j \in {n \in 1..(i - 1) : elts[n].t # "values"}}
                 IN IF c.dev2 THEN LeftJoinDev(Om, B, LAMBDA m : AllHold(FS, m, c), pv)
                    ELSE LeftJoin(Om, B, LAMBDA m : AllHold(FS, m, c))
           [] e.t = "minus"  -> Minus(Om, EvalGroup(e.g, c, outer))
           \* (under the pushdown deviation the expression of a BIND still does not see the bindings pushed in from outside, unless the group's
           \*  own pattern mentions the variable: evalExtend forgets them)
           [] e.t = "bind"   -> LET pv == UNION {VarsOfElt(elts[j]) : j \in 1..(i - 1)}
                                    see(m) == IF c.dev THEN [v \in (DOMAIN m \ (DOMAIN outer \ pv)) |-> m[v]] ELSE m
                                IN Extend(Om, e.v, LAMBDA m : EvalExpr(e.e, see(m), c))
           \* named deviation KF_C04_pushdown (c.dev): a nested group joined after other elements is evaluated once per
           \* solution so far, with that solution's bindings visible inside it (rdflib's lazy join)
           \* - where that join is one rdflib evaluates lazily (LazyJoinAt), and nowhere else
           [] e.t = "group" /\ c.dev /\ LazyJoinAt(elts, i) -> Flatten([j \in 1..Len(Om) |-> EvalGroup(e.g, c, Om[j])])
           \* ... and so is a GRAPH block (a nested group under another active graph) and a UNION (each branch sees the bindings)
           [] e.t \in {"graph", "union"} /\ c.dev /\ LazyJoinAt(elts, i) -> Flatten([j \in 1..Len(Om) |-> EvalElt(e, c, Om[j])])
           \* ... and so is a sub-SELECT: its non-projected variables are then correlated with outer variables of the same name
           [] e.t = "subselect" /\ c.dev /\ LazyJoinAt(elts, i) -> Flatten([j \in 1..Len(Om) |-> Join(<<Om[j]>>, EvalQuery(e.q, [c EXCEPT !.init = Om[j]]).rows)])
           [] OTHER          -> Join(Om, EvalElt(e, c, outer)),
         c, outer)

EvalGroup(g, c, outer) ==
  LET FS == FiltersOf(g)
      Om == EvalElts(NonFilterGroup(g).elts, 1, <<outer>>, c, outer)
  IN IF FS = {} THEN Om ELSE SelectSeq(Om, LAMBDA m : AllHold(FS, m, c))

(* ---- solution modifiers and aggregates (18.5, 18.2.4, 18.2.5) ------------------------------------- *)
(* order of sort keys: unbound < blank node < IRI < literal; numerics by value, strings by code point *)
IsNumericT(x) == ~IsErr(x) /\ x.k \in {"num", "dec"}
NumN(x) == IF x.k = "num" THEN x.v ELSE x.n
NumD(x) == IF x.k = "num" THEN 1 ELSE x.d
NumLessT(a, b) == NumN(a) * NumD(b) < NumN(b) * NumD(a)          \* denominators are positive
NumEqT(a, b) == NumN(a) * NumD(b) = NumN(b) * NumD(a)
KindRank(x) == CASE IsErr(x) -> 0 [] x.k = "bnode" -> 1 [] x.k = "iri" -> 2 [] OTHER -> 3
(* Before(a, b): SPARQL orders a strictly before b.  Partial: incomparable pairs constrain nothing. *)
Before(c, a, b) ==
  IF KindRank(a) # KindRank(b) THEN KindRank(a) < KindRank(b)
  ELSE IF IsErr(a) THEN FALSE
  ELSE IF a.k = "iri" /\ b.k = "iri" THEN StrOrd(c, a.v) < StrOrd(c, b.v) /\ StrOrd(c, a.v) >= 0
  ELSE IF IsNumericT(a) /\ IsNumericT(b) THEN NumLessT(a, b)         \* integers and exact decimals [k "dec", n, d] compare by value
  ELSE IF a.k = "str" /\ b.k = "str" THEN StrOrd(c, a.v) < StrOrd(c, b.v) /\ StrOrd(c, a.v) >= 0
  ELSE IF a.k = "bool" /\ b.k = "bool" THEN ~a.v /\ b.v
  ELSE FALSE
KeyVal(key, mu, c) == EvalExpr(key.e, mu, c)
SameKey(a, b) == a = b \/ (IsNumericT(a) /\ IsNumericT(b) /\ NumEqT(a, b))      \* 1 and 1.0 are the same sort key: the next key decides
RECURSIVE RowBefore(_, _, _, _, _)
(* lexicographic over the key list; DESC flips; stops at the first key that orders the pair *)
RowBefore(keys, i, m1, m2, c) ==
  IF i > Len(keys) THEN FALSE
  ELSE LET a == KeyVal(keys[i], m1, c)  b == KeyVal(keys[i], m2, c)
           lt == IF keys[i].desc THEN Before(c, b, a) ELSE Before(c, a, b)
           gt == IF keys[i].desc THEN Before(c, a, b) ELSE Before(c, b, a)
       IN IF lt THEN TRUE ELSE IF gt THEN FALSE
          ELSE IF SameKey(a, b) THEN RowBefore(keys, i + 1, m1, m2, c)
          ELSE FALSE      \* incomparable, unequal keys: no constraint from this or later keys
(* R is a valid ORDER BY arrangement: no later row must precede an earlier one *)
OrderedOK(R, keys, c) == \A i \in 1..Len(R) : \A j \in (i + 1)..Len(R) : ~RowBefore(keys, 1, R[j], R[i], c)

(* the lexical form of a literal, where the model has one *)
HasLex(x) == x.k \in {"str", "num", "bool"} \/ (x.k = "lit" /\ "lang" \in DOMAIN x)
LexOf(x) == CASE x.k = "num" -> ToString(x.v) [] x.k = "bool" -> (IF x.v THEN "true" ELSE "false") [] OTHER -> x.v
(* aggregates *)
RECURSIVE JoinStr(_, _)
JoinStr(ss, sep) == IF Len(ss) = 1 THEN ss[1] ELSE ss[1] \o sep \o JoinStr(Tail(ss), sep)
RECURSIVE SumSeq(_)
SumSeq(s) == IF s = <<>> THEN 0 ELSE Head(s).v + SumSeq(Tail(s))
AggVals(a, grp, c) ==      \* the values the aggregate's expression takes in the group, errors removed, DISTINCT applied
  LET vs == SelectSeq([i \in 1..Len(grp) |-> EvalExpr(a.e, grp[i], c)], LAMBDA x : ~IsErr(x))
  IN IF a.distinct THEN Distinct(vs) ELSE vs
AllVals(a, grp, c) == [i \in 1..Len(grp) |-> EvalExpr(a.e, grp[i], c)]
(* AggOK(a, grp, c, x): x (a term, or Err for unbound) is an allowed value of aggregate a over group grp *)
AggOK(a, grp, c, x) ==
  CASE a.f = "count*" -> x = NumV(IF a.distinct THEN Len(Distinct(grp)) ELSE Len(grp))
    [] a.f = "count"  -> x = NumV(Len(AggVals(a, grp, c)))
    [] a.f = "sum"    -> IF \E i \in 1..Len(grp) : AllVals(a, grp, c)[i].k # "num" THEN IsErr(x)
                         ELSE x = NumV(SumSeq(AggVals(a, grp, c)))
    [] a.f = "min"    -> LET vs == AggVals(a, grp, c) IN
                         IF vs = <<>> THEN IsErr(x)
                         ELSE x \in SToSet(vs) /\ \A y \in SToSet(vs) : ~Before(c, y, x)
    [] a.f = "max"    -> LET vs == AggVals(a, grp, c) IN
                         IF vs = <<>> THEN IsErr(x)
                         ELSE x \in SToSet(vs) /\ \A y \in SToSet(vs) : ~Before(c, x, y)
    [] a.f = "sample" -> LET vs == AggVals(a, grp, c) IN IF vs = <<>> THEN IsErr(x) ELSE x \in SToSet(vs)
    \* AVG over integers is an exact rational: x = [k |-> "dec", n, d] with n / d = sum / count (or an integer); 0 for nothing
    [] a.f = "avg"    -> IF \E i \in 1..Len(grp) : AllVals(a, grp, c)[i].k # "num" THEN IsErr(x)
                         ELSE LET vs == AggVals(a, grp, c) IN
                              IF vs = <<>> THEN x = NumV(0) \/ (x.k = "dec" /\ x.n = 0)
                              ELSE (x.k = "num" /\ x.v * Len(vs) = SumSeq(vs)) \/ (x.k = "dec" /\ x.d > 0 /\ x.n * Len(vs) = SumSeq(vs) * x.d)
    \* GROUP_CONCAT: some permutation of the lexical forms of the values (DISTINCT removes equal TERMS, not equal lexical forms) joined by
    \* the separator; judged when every value is a literal whose lexical form the model knows (strings, language-tagged strings, integers, booleans)
    [] a.f = "group_concat" ->
         LET vs == AggVals(a, grp, c) IN
         IF \E i \in 1..Len(vs) : ~HasLex(vs[i]) THEN TRUE
         ELSE IF vs = <<>> THEN x = [k |-> "str", v |-> ""]
         ELSE x.k = "str" /\ \E f \in Permutations(1..Len(vs)) : x.v = JoinStr([i \in 1..Len(vs) |-> LexOf(vs[f[i]])], a.sep)
    [] OTHER -> TRUE
GroupKey(keys, mu, c) == [i \in 1..Len(keys) |-> EvalExpr(keys[i], mu, c)]
Groups(Om, keys, c) ==     \* set of groups (each a sequence); implicit single group when keys = <<>>
  IF keys = <<>> THEN {Om}
  ELSE {SelectSeq(Om, LAMBDA m : GroupKey(keys, m, c) = kk) : kk \in {GroupKey(keys, Om[i], c) : i \in 1..Len(Om)}}

(* ---- queries -------------------------------------------------------------------------------------- *)
(* EvalQuery returns [vars, rows] for the non-aggregate, deterministic part (WHERE + projection + DISTINCT);
   ORDER BY / LIMIT / OFFSET / aggregates are judged by predicates in TraceQuery because SPARQL leaves freedom *)
EvalQuery(q, c) ==
  LET Om0 == EvalGroup(q.where, c, c.init)     \* c.init = EmptyMu except under the named deviation KF_C15_init_everywhere
      Om1 == IF "postvalues" \in DOMAIN q THEN Join(Om0, ValuesRows(q.postvalues)) ELSE Om0
      V   == IF q.proj = <<"*">> THEN VarsOfGroup(q.where) ELSE SToSet(q.proj)
      P   == Project(Om1, V)
  IN [vars |-> V, rows |-> IF "distinct" \in DOMAIN q /\ q.distinct THEN Distinct(P) ELSE P]
===============================================================================
