------------------------------ MODULE TraceResults ------------------------------
(***************************************************************************)
(* C16 - SPARQL results and their exchange formats.  A SELECT result is    *)
(* [vars : sequence of names, rows : sequence of partial maps var -> term] *)
(* (an unbound cell is an absent key); an ASK result is a boolean.         *)
(*   rt{fmt, table, after}   JSON / XML: same vars in the same order, the  *)
(*                           same SEQUENCE of rows, equal terms / unbound  *)
(*   tsv_read{table, after}  the document was rendered from `table` by the *)
(*                           randomised TSV writer; the reader must        *)
(*                           recover exactly the table                     *)
(*   csv{table, cells}       CSV keeps the row sequence and the string     *)
(*                           value of every bound term                     *)
(*   ask{fmt, value, after}  booleans survive                              *)
(* Blank nodes are compared up to a bijection over the whole table.        *)
(***************************************************************************)
EXTENDS GraphIso, TLC, Json, IOUtils
Batch == ndJsonDeserialize(IOEnv.TRACE_FILE)
Devs  == LET d == JsonDeserialize(IOEnv.DEVS_FILE) IN {d[i] : i \in 1..Len(d)}
VARIABLES k, l, verdict
vars == <<k, l, verdict>>
Has(r, f) == f \in DOMAIN r

CellsOf(rows) == UNION {{rows[i][v] : v \in DOMAIN rows[i]} : i \in 1..Len(rows)}
BN(rows) == {x \in CellsOf(rows) : IsB(x)}
RenRow(r, f) == [v \in DOMAIN r |-> Ren(r[v], f)]
RowsIso(A, B) == /\ Len(A) = Len(B)
                 /\ Cardinality(BN(A)) = Cardinality(BN(B))
                 /\ \E f \in Bijections(BN(A), BN(B)) : \A i \in 1..Len(A) : RenRow(A[i], f) = B[i]

CsvStr(t) == IF t.k = "bnode" THEN "_:" \o t.v ELSE t.v
CsvRow(vs, r) == [j \in 1..Len(vs) |-> IF vs[j] \in DOMAIN r THEN CsvStr(r[vs[j]]) ELSE ""]

TableVerdict(t, a) ==
  IF a.vars # t.vars THEN "VarsAgree"
  ELSE IF Len(a.rows) # Len(t.rows) THEN "RowCount"
  ELSE IF \E i \in 1..Len(t.rows) : DOMAIN a.rows[i] # DOMAIN t.rows[i] THEN "UnboundCells"
  ELSE IF ~RowsIso(t.rows, a.rows) THEN "CellAgrees"
  ELSE "ok"

Judge(e) ==
  IF Has(e, "raise") THEN "Raised:" \o e.stage
  ELSE CASE e.op \in {"rt", "tsv_read", "json_read", "xml_read"} -> TableVerdict(e.table, e.after)
         [] e.op = "ask" -> IF e.after = e.value THEN "ok" ELSE "BooleanAgrees"
         [] e.op = "csv" ->
              IF e.header # e.table.vars THEN "VarsAgree"
              ELSE IF Len(e.cells) # Len(e.table.rows) THEN "RowCount"
              ELSE IF \E i \in 1..Len(e.cells) : e.cells[i] # CsvRow(e.table.vars, e.table.rows[i]) THEN "CsvValue"
              ELSE "ok"
         [] OTHER -> "UnknownEvent"

Init == k = 1 /\ l = 1 /\ verdict = "ok"
Step == /\ k <= Len(Batch) /\ verdict = "ok" /\ l <= Len(Batch[k].ev)
        /\ LET v == Judge(Batch[k].ev[l])
           IN IF v = "ok" THEN l' = l + 1 /\ UNCHANGED <<k, verdict>> ELSE verdict' = v /\ UNCHANGED <<k, l>>
NextTrace == /\ k <= Len(Batch) /\ (verdict # "ok" \/ l > Len(Batch[k].ev))
             /\ PrintT(<<"VERDICT", Batch[k].tid, verdict, l>>)
             /\ k' = k + 1 /\ l' = 1 /\ verdict' = "ok"
TraceSpec == Init /\ [][Step \/ NextTrace]_vars
===============================================================================
