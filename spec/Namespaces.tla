------------------------------- MODULE Namespaces -------------------------------
(***************************************************************************)
(* C17 - prefix bindings and compact IRIs.                                 *)
(*                                                                         *)
(* Tier I: a transcription of Memory.bind (two dictionaries),              *)
(* NamespaceManager.bind (numbered fall-backs, override / replace),        *)
(* NamespaceManager.compute_qname (syntactic split, longest known          *)
(* namespace, prefix generation, memo cache).                              *)
(* Tier P: the invariants and action properties at the end: the two        *)
(* dictionaries are each other's inverse, a computed qname uses a prefix   *)
(* bound NOW and expands back to the IRI, a bind leaves bindings of other  *)
(* prefixes and namespaces alone.                                          *)
(*   InvalidateOnBind = FALSE : the pinned commit (memo cache never        *)
(*                              invalidated)  - TLC finds a 3-step         *)
(*                              counterexample to QnameBound               *)
(*   InvalidateOnBind = TRUE  : the repaired code                          *)
(* IRIs and namespaces are sequences of characters so that "is a prefix    *)
(* of" is SequencesExt!IsPrefix.                                           *)
(***************************************************************************)
EXTENDS Naturals, Sequences, SequencesExt, FiniteSets, TLC, Json

CONSTANTS UserPrefixes,     \* prefixes a caller may ask for, e.g. {"", "a", "b"}
          Nss,              \* namespaces (sequences of characters) a caller may bind
          Iris,             \* IRIs asked about
          SepChars,         \* characters after which split_uri may split, e.g. {"/", "#"}
          InvalidateOnBind,  \* TRUE: bind() clears the qname memo cache (repaired); FALSE: pinned commit
          KeepBothBound,     \* TRUE: store.bind(override=False) is a no-op when prefix and namespace are both bound (repaired)
          Depth

VARIABLES nsd,              \* store.__namespace : prefix -> namespace
          pfd,              \* store.__prefix    : namespace -> prefix
          cache,            \* NamespaceManager.__cache : iri -> <<prefix, namespace, local>>
          trie,             \* namespaces known to the manager's trie (never shrinks)
          res, hist
vars == <<nsd, pfd, cache, trie, res, hist>>

None  == <<"<none>">>       \* "no namespace" (namespaces are sequences)
NoneP == "<none>"           \* "no prefix" (prefixes are strings)
Get(d, x)  == IF x \in DOMAIN d THEN d[x] ELSE None
GetP(d, x) == IF x \in DOMAIN d THEN d[x] ELSE NoneP
Put(d, x, y) == [z \in DOMAIN d \cup {x} |-> IF z = x THEN y ELSE d[z]]
Del(d, x) == [z \in DOMAIN d \ {x} |-> d[z]]
Coalesce(a, b)  == IF a # None THEN a ELSE b
CoalesceP(a, b) == IF a # NoneP THEN a ELSE b

(* ---- Memory.bind / SimpleMemory.bind ---------------------------------------------- *)
StoreBind(N, Pf, prefix, ns, override) ==
  LET bound_ns == Get(N, prefix)
      bound_pf == CoalesceP(GetP(Pf, ns), IF bound_ns # None THEN GetP(Pf, bound_ns) ELSE NoneP)
  IN IF override
     THEN LET N1  == IF bound_pf # NoneP THEN Del(N, bound_pf) ELSE N
              Pf1 == IF bound_ns # None THEN Del(Pf, bound_ns) ELSE Pf
          IN [n |-> Put(N1, prefix, ns), p |-> Put(Pf1, ns, prefix)]
     ELSE IF KeepBothBound /\ bound_ns # None /\ GetP(Pf, ns) # NoneP THEN [n |-> N, p |-> Pf]
     ELSE [p |-> Put(Pf, Coalesce(bound_ns, ns), CoalesceP(bound_pf, prefix)),
           n |-> Put(N, CoalesceP(bound_pf, prefix), Coalesce(bound_ns, ns))]

(* ---- NamespaceManager.bind ----------------------------------------------------------- *)
Numbered(p, i) == (IF p = "" THEN "default" ELSE p) \o ToString(i)
RECURSIVE FreeSlot(_, _, _, _)
(* first i such that p<i> is unbound or already bound to ns; returns <<i, alreadyCorrect>> *)
FreeSlot(N, p, ns, i) == IF Get(N, Numbered(p, i)) = ns THEN <<i, TRUE>>
                         ELSE IF Get(N, Numbered(p, i)) = None THEN <<i, FALSE>>
                         ELSE FreeSlot(N, p, ns, i + 1)
MgrBind(N, Pf, prefix, ns, override, replace) ==
  LET bound_ns == Get(N, prefix) IN
  IF bound_ns # None /\ bound_ns # ns
  THEN IF replace THEN StoreBind(N, Pf, prefix, ns, override)
       ELSE LET fs == FreeSlot(N, prefix, ns, 1) IN
            IF fs[2] THEN [n |-> N, p |-> Pf] ELSE StoreBind(N, Pf, Numbered(prefix, fs[1]), ns, override)
  ELSE LET bound_pf == GetP(Pf, ns) IN
       IF bound_pf = NoneP THEN StoreBind(N, Pf, prefix, ns, override)
       ELSE IF bound_pf = prefix THEN [n |-> N, p |-> Pf]
       ELSE IF override THEN StoreBind(N, Pf, prefix, ns, override)      \* (generated "_" prefixes never occur here)
       ELSE [n |-> N, p |-> Pf]

(* ---- NamespaceManager.compute_qname ---------------------------------------------------- *)
LastSep(u) == LET I == {i \in 1..Len(u) : u[i] \in SepChars} IN IF I = {} THEN 0 ELSE CHOOSE i \in I : \A j \in I : j <= i
SynNs(u) == SubSeq(u, 1, LastSep(u))                         \* split_uri: up to the last separator
CanSplit(u) == LastSep(u) > 0 /\ LastSep(u) < Len(u)
Longest(TR, ns0, u) ==                                        \* get_longest_namespace over the trie
  LET C == {k \in TR : IsPrefix(ns0, k) /\ IsPrefix(k, u) /\ Len(k) < Len(u)} IN
  IF C = {} THEN ns0 ELSE CHOOSE k \in C : \A j \in C : Len(j) <= Len(k)
RECURSIVE FreeNs(_, _)
FreeNs(N, i) == IF Get(N, "ns" \o ToString(i)) = None THEN "ns" \o ToString(i) ELSE FreeNs(N, i + 1)

Ev(e) == hist' = Append(hist, e)

Bind(prefix, ns, override, replace) ==
  LET r == MgrBind(nsd, pfd, prefix, ns, override, replace) IN
  /\ nsd' = r.n /\ pfd' = r.p
  /\ trie' = trie \cup {ns}
  /\ cache' = IF InvalidateOnBind THEN <<>> ELSE cache
  /\ res' = [k |-> "ok"]
  /\ Ev([op |-> "bind", p |-> prefix, n |-> ns, override |-> override, replace |-> replace])

QName(u, generate) ==
  /\ Ev([op |-> "cq", iri |-> u, generate |-> generate])
  /\ IF u \in DOMAIN cache
     THEN res' = [k |-> "val", v |-> cache[u]] /\ UNCHANGED <<nsd, pfd, cache, trie>>
     ELSE IF ~CanSplit(u)
          THEN (IF GetP(pfd, u) # NoneP
                THEN res' = [k |-> "val", v |-> <<pfd[u], u, <<>> >>] /\ cache' = Put(cache, u, <<pfd[u], u, <<>> >>)
                     /\ trie' = trie \cup {u} /\ UNCHANGED <<nsd, pfd>>
                ELSE res' = [k |-> "raise", e |-> "ValueError"] /\ UNCHANGED <<nsd, pfd, cache, trie>>)
          ELSE LET ns0 == SynNs(u)
                   tr1 == trie \cup {ns0}
                   ns  == Longest(tr1, ns0, u)
                   loc == SubSeq(u, Len(ns) + 1, Len(u))
                   pf  == GetP(pfd, ns)
               IN IF pf # NoneP
                  THEN res' = [k |-> "val", v |-> <<pf, ns, loc>>] /\ cache' = Put(cache, u, <<pf, ns, loc>>)
                       /\ trie' = tr1 /\ UNCHANGED <<nsd, pfd>>
                  ELSE IF ~generate
                       THEN res' = [k |-> "raise", e |-> "KeyError"] /\ trie' = tr1 /\ UNCHANGED <<nsd, pfd, cache>>
                       ELSE LET np == FreeNs(nsd, 1)
                                r  == MgrBind(nsd, pfd, np, ns, TRUE, FALSE)
                            IN nsd' = r.n /\ pfd' = r.p /\ trie' = tr1 \cup {ns}
                               /\ cache' = Put(IF InvalidateOnBind THEN <<>> ELSE cache, u, <<np, ns, loc>>)
                               /\ res' = [k |-> "val", v |-> <<np, ns, loc>>]

Next == /\ Len(hist) < Depth
        /\ \/ \E p \in UserPrefixes, n \in Nss, ov \in BOOLEAN, rp \in BOOLEAN : Bind(p, n, ov, rp)
           \/ \E u \in Iris, g \in BOOLEAN : QName(u, g)

Init == nsd = <<>> /\ pfd = <<>> /\ cache = <<>> /\ trie = {} /\ res = [k |-> "ok"] /\ hist = <<>>
Spec == Init /\ [][Next]_vars

(* ---- tier P ---------------------------------------------------------------------------- *)
(* the listing agrees with lookups in both directions: the dictionaries are inverse bijections *)
Inv_Bijection == /\ \A p \in DOMAIN nsd : nsd[p] \in DOMAIN pfd /\ pfd[nsd[p]] = p
                 /\ \A n \in DOMAIN pfd : pfd[n] \in DOMAIN nsd /\ nsd[pfd[n]] = n
(* a qname uses only a prefix bound at that moment and expands back to the IRI *)
Inv_QnameBound == (hist # <<>> /\ hist[Len(hist)].op = "cq" /\ res.k = "val") =>
                    /\ res.v[1] \in DOMAIN nsd /\ nsd[res.v[1]] = res.v[2]
                    /\ res.v[2] \o res.v[3] = hist[Len(hist)].iri
(* compute_qname(generate=False) may raise KeyError but must not bind anything *)
Prop_NoGenerate == [][\A e \in {hist'[Len(hist')]} : (hist' # hist /\ e.op = "cq" /\ ~e.generate) => nsd' = nsd /\ pfd' = pfd]_vars
(* frame: a bind changes only bindings of its own prefix (or its numbered fall-backs) or namespace *)
Prop_BindFrame == [][\A e \in {hist'[Len(hist')]} : (hist' # hist /\ e.op = "bind") =>
                       /\ \A p \in DOMAIN nsd : (p # e.p /\ nsd[p] # e.n) => (p \in DOMAIN nsd' /\ nsd'[p] = nsd[p])
                       /\ \A p \in DOMAIN nsd' : (p \notin DOMAIN nsd \/ nsd[p] # nsd'[p]) => nsd'[p] = e.n]_vars
(* after bind(p, n) with override the namespace is bound *)
Prop_BindBinds == [][\A e \in {hist'[Len(hist')]} : (hist' # hist /\ e.op = "bind" /\ e.override) => e.n \in DOMAIN pfd']_vars
(* a qname that generates a prefix adds exactly one binding and removes none *)
Prop_QnameFrame == [][\A e \in {hist'[Len(hist')]} : (hist' # hist /\ e.op = "cq") =>
                        \A p \in DOMAIN nsd : p \in DOMAIN nsd' /\ nsd'[p] = nsd[p]]_vars

View == <<nsd, pfd, cache, trie, res>>
Export == IF Len(hist) = Depth THEN PrintT(ToJson(hist)) ELSE TRUE
===============================================================================
