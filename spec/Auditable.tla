------------------------------- MODULE Auditable -------------------------------
(***************************************************************************)
(* C18 - the auditable (transactional) store wrapper.                      *)
(*                                                                         *)
(* Tier P (what the property demands) is carried by ghost variables:       *)
(*   snap[w]    - the wrapped store's content when w's transaction began   *)
(*   touched[w] - the quads w's transaction has operated on                *)
(* and by PRollback / the action properties below.                         *)
(* Tier I transcribes rdflib/plugins/stores/auditable.py: a log of reverse *)
(* operations per wrapper with the search-and-cancel discipline.           *)
(*   Variant = "cancelling" : add() cancels a pending inverse entry or     *)
(*                            appends its own (the repaired code)          *)
(*   Variant = "as_written" : add() appends ("remove") AND cancels a       *)
(*                            pending ("add") - the pinned commit          *)
(* TLC must prove the invariants for the first and find a counterexample   *)
(* for the second; both facts are registered in the C18 check.             *)
(***************************************************************************)
EXTENDS StoreOps, TLC, Json

CONSTANTS Wrappers,        \* e.g. {"w1"} or {"w1", "w2"}
          Own,             \* Own[w] : the triples wrapper w may touch (disjoint between wrappers)
          Names,           \* graph names
          Variant, Depth,
          InitContents     \* set of initial datasets (functions Names -> SUBSET triples)

VARIABLES base, log, snap, touched, act, hist
vars == <<base, log, snap, touched, act, hist>>

NoSnap == [n \in {} |-> {}]
Quad(t, n) == <<t[1], t[2], t[3], n>>
T3(q) == <<q[1], q[2], q[3]>>
AllTriples == UNION {Own[w] : w \in Wrappers}
PatsOf(w) == UNION {{<<t[1], t[2], t[3]>>, <<t[1], t[2], Wild>>, <<t[1], Wild, Wild>>, <<t[1], Wild, t[3]>>} : t \in Own[w]}

(* ---- tier P: what rollback must produce ---------------------------------- *)
PRollback(G, S, TQ) ==
  [n \in DOMAIN G |-> {t \in G[n] : Quad(t, n) \notin TQ} \cup {t \in GGet(S, n) : Quad(t, n) \in TQ}]

(* ---- tier I: the log ------------------------------------------------------- *)
RemoveFirst(s, x) == LET i == CHOOSE j \in 1..Len(s) : s[j] = x /\ \A k \in 1..(j - 1) : s[k] # x
                     IN SubSeq(s, 1, i - 1) \o SubSeq(s, i + 1, Len(s))
InLog(s, x) == \E j \in 1..Len(s) : s[j] = x
(* try: log.remove(inverse) except ValueError: log.append(own) *)
CancelOrAppend(s, inverse, own) == IF InLog(s, inverse) THEN RemoveFirst(s, inverse) ELSE Append(s, own)

LogAdd(s, q) ==
  IF Variant = "as_written"
  THEN LET s1 == Append(s, <<q, "remove">>) IN IF InLog(s1, <<q, "add">>) THEN RemoveFirst(s1, <<q, "add">>) ELSE s1
  ELSE CancelOrAppend(s, <<q, "add">>, <<q, "remove">>)

RECURSIVE LogRemoveAll(_, _)
LogRemoveAll(s, Q) == IF Q = {} THEN s
                      ELSE LET q == CHOOSE x \in Q : TRUE
                           IN LogRemoveAll(CancelOrAppend(s, <<q, "remove">>, <<q, "add">>), Q \ {q})

RECURSIVE ApplyLog(_, _)
ApplyLog(G, s) == IF s = <<>> THEN G
                  ELSE LET q == s[1][1]
                           G2 == IF s[1][2] = "add" THEN PAdd(G, q[4], T3(q)) ELSE PRemove(G, q[4], T3(q))
                       IN ApplyLog(G2, Tail(s))

Begin(w) == IF snap[w] = NoSnap THEN [snap EXCEPT ![w] = base] ELSE snap

Step(e) == act' = e /\ hist' = Append(hist, e)

TxAdd(w, n, t) ==
  LET q == Quad(t, n) IN
  /\ snap' = Begin(w)
  /\ touched' = [touched EXCEPT ![w] = @ \cup {q}]
  /\ IF t \in GGet(base, n) THEN UNCHANGED <<base, log>>
     ELSE base' = PAdd(base, n, t) /\ log' = [log EXCEPT ![w] = LogAdd(@, q)]
  /\ Step([op |-> "tx_add", w |-> w, g |-> n, t |-> t])

TxRemove(w, n, pat) ==
  LET Q == IF n = ALLG THEN {q \in GQuads(base) : Match(pat, T3(q))}
           ELSE {Quad(t, n) : t \in Sel(GGet(base, n), pat)}
      touchedNow == IF n = ALLG THEN {Quad(t, m) : t \in {u \in AllTriples : Match(pat, u)}, m \in Names}
                    ELSE {Quad(t, n) : t \in {u \in AllTriples : Match(pat, u)}}
  IN
  /\ snap' = Begin(w)
  /\ touched' = [touched EXCEPT ![w] = @ \cup touchedNow]
  /\ base' = PRemove(base, n, pat)
  /\ log' = [log EXCEPT ![w] = LogRemoveAll(@, Q)]
  /\ Step([op |-> "tx_remove", w |-> w, g |-> n, pat |-> pat])

Commit(w) == /\ log' = [log EXCEPT ![w] = <<>>] /\ snap' = [snap EXCEPT ![w] = NoSnap]
             /\ touched' = [touched EXCEPT ![w] = {}] /\ UNCHANGED base
             /\ Step([op |-> "commit", w |-> w])

Rollback(w) == /\ base' = ApplyLog(base, log[w])
               /\ log' = [log EXCEPT ![w] = <<>>] /\ snap' = [snap EXCEPT ![w] = NoSnap]
               /\ touched' = [touched EXCEPT ![w] = {}]
               /\ Step([op |-> "rollback", w |-> w])

Next == /\ Len(hist) < Depth
        /\ \E w \in Wrappers :
             \/ \E n \in Names, t \in Own[w] : TxAdd(w, n, t)
             \/ \E n \in Names \cup {ALLG}, pat \in PatsOf(w) : TxRemove(w, n, pat)
             \/ Commit(w) \/ Rollback(w)

Init == /\ base \in InitContents
        /\ log = [w \in Wrappers |-> <<>>] /\ snap = [w \in Wrappers |-> NoSnap]
        /\ touched = [w \in Wrappers |-> {}] /\ act = [op |-> "init"]
        /\ hist = <<[op |-> "init", quads |-> GQuads(base)]>>
Spec == Init /\ [][Next]_vars

(* ---- properties ------------------------------------------------------------ *)
SameQ(A, B) == GQuads(A) = GQuads(B)
(* rollback restores exactly what the transaction touched and nothing else *)
Prop_RollbackRestores == [][act'.op = "rollback" /\ hist' # hist =>
                              SameQ(base', PRollback(base, snap[act'.w], touched[act'.w]))]_vars
Prop_CommitKeeps == [][act'.op = "commit" /\ hist' # hist => SameQ(base', base)]_vars
(* a rollback with no open transaction changes nothing *)
Prop_SecondRollbackNoop == [][act'.op = "rollback" /\ hist' # hist /\ snap[act'.w] = NoSnap => SameQ(base', base)]_vars
(* with one wrapper: the store is back to the snapshot *)
Prop_SingleRestores == [][act'.op = "rollback" /\ hist' # hist /\ Cardinality(Wrappers) = 1 /\ snap[act'.w] # NoSnap
                             => SameQ(base', snap[act'.w])]_vars
(* the other wrapper's quads are not disturbed by w's rollback *)
Prop_OtherIntact == [][act'.op = "rollback" /\ hist' # hist =>
                        \A v \in Wrappers \ {act'.w} : \A q \in touched[v] \ touched[act'.w] :
                            (q \in GQuads(base')) = (q \in GQuads(base))]_vars
(* the log discipline: at most one pending entry per quad, and it is the inverse of the net change *)
Inv_LogDiscipline ==
  \A w \in Wrappers :
     /\ \A i, j \in 1..Len(log[w]) : i # j => log[w][i][1] # log[w][j][1]
     /\ Cardinality(Wrappers) = 1 =>
          \A i \in 1..Len(log[w]) :
             LET q == log[w][i][1] IN
             IF log[w][i][2] = "add" THEN q \in GQuads(snap[w]) /\ q \notin GQuads(base)
             ELSE q \notin GQuads(snap[w]) /\ q \in GQuads(base)

View == <<base, log, snap, touched>>
Export == IF Len(hist) = Depth THEN PrintT(ToJson(hist)) ELSE TRUE
===============================================================================
