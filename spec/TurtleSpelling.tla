---------------------------- MODULE TurtleSpelling ----------------------------
(***************************************************************************)
(* C05 - the writer's side of the Turtle family (N-Triples, N-Quads,       *)
(* Turtle, TriG) as a state machine.  A behaviour writes one document,     *)
(* token by token, making at every step one of the choices the grammars    *)
(* leave to an author:                                                     *)
(*   directives   @prefix / PREFIX / @base / BASE, anywhere between        *)
(*                statements, re-binding prefixes and the base midway      *)
(*   IRIs         <absolute>, <relative> (when it is under the base in     *)
(*                force), prefix:local (with any prefix bound to its       *)
(*                namespace at that point), 'a' for rdf:type               *)
(*   literals     four quotings, numeric / boolean shorthand               *)
(*   structure    ';' and ',' lists, [ ... ] property lists (nested, empty,*)
(*                as subject or object), ( ... ) collections (nested,      *)
(*                empty, as subject or object)                             *)
(*   TriG         graph blocks with and without GRAPH, default graph       *)
(*                block, triples outside blocks; N-Quads: graph label      *)
(* and maintains, next to the token list `doc`, the set of quads `G` the   *)
(* document MEANS under the W3C grammar's semantic actions (fresh blank    *)
(* node per [] and per collection cell, rdf:first / rdf:rest / rdf:nil,    *)
(* prefix and base environment in force at each token).                    *)
(* TLC generates behaviours (-simulate); the harness renders `doc` to text *)
(* (white space, comments, escapes are its random choices), hands it to    *)
(* rdflib by every route, and TLC validates the parsed graph against G.    *)
(***************************************************************************)
EXTENDS Naturals, Sequences, FiniteSets, TLC, Json

CONSTANTS NNs,          \* namespaces 1..NNs
          Locals,       \* abstract local names
          NLit,         \* literals 1..NLit
          ShortLits,    \* literals that have a numeric / boolean shorthand
          Pfx,          \* prefix labels
          Abbrev,       \* FALSE: N-Triples / N-Quads (absolute IRIs, one triple per statement)
          Graphs,       \* "none" | "block" (TriG) | "label" (N-Quads)
          MaxStmts, MaxDepth, MaxTokens

VARIABLES mode, frames, curS, curP, curG, inGraph, doc, G, env, n, stmts
vars == <<mode, frames, curS, curP, curG, inGraph, doc, G, env, n, stmts>>

Iri(ns, l) == [k |-> "iri", ns |-> ns, l |-> l]
RdfType  == Iri(0, "type")
RdfFirst == Iri(0, "first")
RdfRest  == Iri(0, "rest")
RdfNil   == Iri(0, "nil")
IriTerms == {Iri(ns, l) : ns \in 1..NNs, l \in Locals}
Labelled == {[k |-> "bnode", v |-> "b1"], [k |-> "bnode", v |-> "b2"]}
Gen(i) == [k |-> "bnode", v |-> "g" \o ToString(i)]
Lits == {[k |-> "lit", i |-> i] : i \in 1..NLit}
Default == [k |-> "default"]

(* the spellings of a term that are legal in the environment in force *)
IriSp(t, e) == {[how |-> "abs"]}
               \cup (IF Abbrev /\ t.ns # 0 /\ e.base = t.ns THEN {[how |-> "rel"]} ELSE {})
               \cup (IF Abbrev /\ t.ns # 0 THEN {[how |-> "pname", pfx |-> p] : p \in {q \in Pfx : e.pfx[q] = t.ns}} ELSE {})
LitSp(t) == (IF Abbrev THEN {[how |-> "q", q |-> q] : q \in 1..4} ELSE {[how |-> "q", q |-> 1]})
            \cup (IF Abbrev /\ t.i \in ShortLits THEN {[how |-> "short"]} ELSE {})
Tok(t, sp) == [t |-> "node", term |-> t, sp |-> sp]
Simple(t) == [t |-> "x"]

Init == /\ mode = "top" /\ frames = <<>> /\ curS = Default /\ curP = Default /\ curG = Default /\ inGraph = FALSE
        /\ doc = <<>> /\ G = {} /\ env = [base |-> 0, pfx |-> [p \in Pfx |-> 0]] /\ n = 0 /\ stmts = 0

Room == Len(doc) < MaxTokens
(* ---- directives -------------------------------------------------------------------------------- *)
Directive ==
  /\ Abbrev /\ mode = "top" /\ ~inGraph /\ Room /\ stmts < MaxStmts
  /\ \/ \E kw \in {"@prefix", "PREFIX"}, p \in Pfx, ns \in 1..NNs :
          /\ env' = [env EXCEPT !.pfx[p] = ns]
          /\ doc' = Append(doc, [t |-> "prefix", kw |-> kw, pfx |-> p, ns |-> ns])
     \/ \E kw \in {"@base", "BASE"}, ns \in 1..NNs :
          /\ env' = [env EXCEPT !.base = ns]
          /\ doc' = Append(doc, [t |-> "base", kw |-> kw, ns |-> ns])
  /\ UNCHANGED <<mode, frames, curS, curP, curG, inGraph, G, n, stmts>>

(* ---- TriG graph blocks -------------------------------------------------------------------------- *)
GraphNames == IriTerms \cup Labelled
OpenGraph ==
  /\ Graphs = "block" /\ mode = "top" /\ ~inGraph /\ Room /\ stmts < MaxStmts
  /\ \/ /\ doc' = Append(doc, [t |-> "gopen", kw |-> FALSE, named |-> FALSE])       \* { ... } : the default graph
        /\ curG' = Default
     \/ \E g \in GraphNames, kw \in BOOLEAN :
          \E sp \in (IF g.k = "iri" THEN IriSp(g, env) ELSE {[how |-> "label"]}) :
            /\ doc' = Append(doc, [t |-> "gopen", kw |-> kw, named |-> TRUE, term |-> g, sp |-> sp])
            /\ curG' = g
  /\ inGraph' = TRUE
  /\ UNCHANGED <<mode, frames, curS, curP, G, env, n, stmts>>
CloseGraph ==
  /\ Graphs = "block" /\ mode = "top" /\ inGraph
  /\ doc' = Append(doc, [t |-> "gclose"]) /\ inGraph' = FALSE /\ curG' = Default
  /\ UNCHANGED <<mode, frames, curS, curP, G, env, n, stmts>>

(* ---- delivering a complete node into the context in force ------------------------------------------- *)
(* ctx "subject": the node becomes the subject; "object": (curS, curP, node) is asserted; "item": the     *)
(* node becomes the next member of the collection in the top frame.  Returns the new G, n and top frame. *)
Quad(s, p, o) == <<s, p, o, curG>>
DeliverG(ctx, x, g0, n0) ==
  IF ctx = "object" THEN g0 \cup {Quad(curS, curP, x)}
  ELSE IF ctx = "item" THEN
       LET f == frames[Len(frames)] IN
       IF ~f.filled THEN g0 \cup {Quad(f.cell, RdfFirst, x)}
       ELSE g0 \cup {Quad(f.cell, RdfRest, Gen(n0 + 1)), Quad(Gen(n0 + 1), RdfFirst, x)}
  ELSE g0
DeliverN(ctx, n0) == IF ctx = "item" /\ frames[Len(frames)].filled THEN n0 + 1 ELSE n0
DeliverFrames(ctx, n0) ==
  IF ctx = "item" THEN
    LET f == frames[Len(frames)] IN
    [frames EXCEPT ![Len(frames)] = IF ~f.filled THEN [f EXCEPT !.filled = TRUE] ELSE [f EXCEPT !.cell = Gen(n0 + 1)]]
  ELSE frames
ModeAfter(ctx) == IF ctx = "object" THEN "obj" ELSE IF ctx = "item" THEN "item" ELSE "subj"
Ctx == IF mode = "top" THEN "subject" ELSE IF mode = "verb" THEN "object" ELSE "item"

CanStartNode == \/ mode = "top" /\ stmts < MaxStmts /\ Room
                \/ mode = "verb"
                \/ mode = "item" /\ (Room \/ ~frames[Len(frames)].filled)      \* MaxTokens is a soft bound: what is open can always be completed
SubjectOK(t) == t.k # "lit"
(* a simple node: IRI, labelled blank node or literal *)
EmitNode ==
  /\ CanStartNode
  /\ \E t \in IriTerms \cup Labelled \cup Lits :
       /\ (Ctx = "subject" => SubjectOK(t))
       /\ \E sp \in (IF t.k = "iri" THEN IriSp(t, env) ELSE IF t.k = "lit" THEN LitSp(t) ELSE {[how |-> "label"]}) :
            doc' = Append(doc, Tok(t, sp))
       /\ G' = DeliverG(Ctx, t, G, n) /\ n' = DeliverN(Ctx, n) /\ frames' = DeliverFrames(Ctx, n)
       /\ IF Ctx = "subject" THEN curS' = t ELSE UNCHANGED curS
  /\ mode' = ModeAfter(Ctx)
  /\ (IF Graphs = "label" /\ Ctx = "subject" THEN \E g \in GraphNames \cup {Default} : curG' = g ELSE UNCHANGED curG)
  /\ UNCHANGED <<curP, inGraph, env, stmts>>

(* '[' : a fresh blank node delivered at once; its property list follows *)
OpenAnon ==
  /\ Abbrev /\ CanStartNode /\ Room /\ Len(frames) < MaxDepth
  /\ LET c == Ctx  n1 == DeliverN(c, n)  b == Gen(n1 + 1) IN
     /\ G' = DeliverG(c, b, G, n) /\ n' = n1 + 1
     /\ frames' = Append(DeliverFrames(c, n), [kind |-> "anon", ctx |-> c, s |-> IF c = "subject" THEN b ELSE curS, p |-> curP, cell |-> b, filled |-> FALSE])
     /\ curS' = b /\ mode' = "subj0"
  /\ doc' = Append(doc, [t |-> "["])
  /\ UNCHANGED <<curP, curG, inGraph, env, stmts>>
CloseAnon ==
  /\ mode \in {"subj0", "obj"} /\ Len(frames) > 0 /\ frames[Len(frames)].kind = "anon"
  /\ LET f == frames[Len(frames)] IN
     /\ frames' = SubSeq(frames, 1, Len(frames) - 1)
     /\ curS' = f.s /\ curP' = f.p
     /\ mode' = IF f.ctx = "subject" /\ mode = "obj" THEN "subjA" ELSE ModeAfter(f.ctx)     \* "[ p o ] ." is a statement, "[] ." is not
  /\ doc' = Append(doc, [t |-> "]"])
  /\ UNCHANGED <<curG, inGraph, G, env, n, stmts>>

(* '(' ')' : rdf:nil;  '(' item+ ')' : a chain of fresh cells, the first delivered at once *)
EmptyColl ==
  /\ Abbrev /\ CanStartNode /\ Len(doc) + 1 < MaxTokens
  /\ LET c == Ctx IN
     /\ G' = DeliverG(c, RdfNil, G, n) /\ n' = DeliverN(c, n) /\ frames' = DeliverFrames(c, n)
     /\ (IF c = "subject" THEN curS' = RdfNil ELSE UNCHANGED curS)
     /\ mode' = ModeAfter(c)
  /\ doc' = doc \o <<[t |-> "("], [t |-> ")"]>>
  /\ UNCHANGED <<curP, curG, inGraph, env, stmts>>
OpenColl ==
  /\ Abbrev /\ CanStartNode /\ Room /\ Len(frames) < MaxDepth
  /\ LET c == Ctx  n1 == DeliverN(c, n)  b == Gen(n1 + 1) IN
     /\ G' = DeliverG(c, b, G, n) /\ n' = n1 + 1
     /\ frames' = Append(DeliverFrames(c, n), [kind |-> "coll", ctx |-> c, s |-> IF c = "subject" THEN b ELSE curS, p |-> curP, cell |-> b, filled |-> FALSE])
     /\ mode' = "item"
  /\ doc' = Append(doc, [t |-> "("])
  /\ UNCHANGED <<curS, curP, curG, inGraph, env, stmts>>
CloseColl ==
  /\ mode = "item" /\ frames[Len(frames)].kind = "coll" /\ frames[Len(frames)].filled
  /\ LET f == frames[Len(frames)] IN
     /\ G' = G \cup {Quad(f.cell, RdfRest, RdfNil)}
     /\ frames' = SubSeq(frames, 1, Len(frames) - 1)
     /\ curS' = f.s /\ curP' = f.p
     /\ mode' = ModeAfter(f.ctx)
  /\ doc' = Append(doc, [t |-> ")"])
  /\ UNCHANGED <<curG, inGraph, env, n, stmts>>

(* ---- verbs and punctuation ---------------------------------------------------------------------- *)
Preds == IriTerms \cup {RdfType}
EmitVerb ==
  /\ mode \in {"subj", "subj0", "subjA"} /\ (Room \/ mode = "subj")
  /\ \E p \in Preds :
       /\ \E sp \in (IriSp(p, env) \cup (IF Abbrev /\ p = RdfType THEN {[how |-> "a"]} ELSE {})) : doc' = Append(doc, Tok(p, sp))
       /\ curP' = p
  /\ mode' = "verb"
  /\ UNCHANGED <<frames, curS, curG, inGraph, G, env, n, stmts>>
Comma == /\ Abbrev /\ mode = "obj" /\ Room /\ doc' = Append(doc, [t |-> ","]) /\ mode' = "verb"
         /\ UNCHANGED <<frames, curS, curP, curG, inGraph, G, env, n, stmts>>
Semi  == /\ Abbrev /\ mode = "obj" /\ Room /\ doc' = Append(doc, [t |-> ";"]) /\ mode' = "subj"
         /\ UNCHANGED <<frames, curS, curP, curG, inGraph, G, env, n, stmts>>
Dot   == /\ mode \in {"obj", "subjA"} /\ frames = <<>>
         /\ doc' = Append(doc, IF Graphs = "label" THEN [t |-> ".", g |-> curG] ELSE [t |-> "."])
         /\ mode' = "top" /\ stmts' = stmts + 1
         /\ UNCHANGED <<frames, curS, curP, curG, inGraph, G, env, n>>

Next == Directive \/ OpenGraph \/ CloseGraph \/ EmitNode \/ OpenAnon \/ CloseAnon \/ EmptyColl \/ OpenColl \/ CloseColl \/ EmitVerb \/ Comma \/ Semi \/ Dot
Spec == Init /\ [][Next]_vars

(* a finished document: at top level, outside any block, at least one statement *)
Finished == mode = "top" /\ ~inGraph /\ stmts >= 1
Export == IF Finished /\ (stmts = MaxStmts \/ Len(doc) >= MaxTokens - 4)
          THEN PrintT(ToJson([doc |-> doc, quads |-> {[s |-> q[1], p |-> q[2], o |-> q[3], g |-> q[4]] : q \in G}])) ELSE TRUE

(* ---- sanity properties of the writer machine itself ------------------------------------------------ *)
(* every quad's subject is not a literal and its predicate is an IRI; cells are chained exactly once *)
WellFormedMeaning == \A q \in G : q[1].k # "lit" /\ q[2].k = "iri"
NoDanglingCell == Finished => \A q \in G : (q[2] = RdfFirst) => Cardinality({r \in G : r[1] = q[1] /\ r[2] = RdfRest}) = 1
===============================================================================
