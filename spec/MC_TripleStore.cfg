SPECIFICATION Spec
CONSTANTS
  S = {"s1", "s2"}
  P = {"p1"}
  O = {"o1", "o2"}
  Names = {"D", "g1"}
  Ops = {"add", "addN", "remove", "remove_all", "set", "iadd", "isub", "graph", "remove_graph", "binop", "iter"}
  MaxIters = 1
  Depth = 1000
  GenMode = FALSE
INVARIANT TypeOK
INVARIANT Inv_DefaultExists
INVARIANT Inv_PatternAgreement
INVARIANT Inv_QuadsAgree
INVARIANT Inv_NoFallback
INVARIANT Inv_IterSafe
INVARIANT Inv_IterSeenMatches
PROPERTY Prop_Isolation
PROPERTY Prop_RemoveEverywhere
PROPERTY Prop_RemoveGraph
PROPERTY Prop_ReadsPure
VIEW View
CHECK_DEADLOCK FALSE
