---------------------------- MODULE TraceNamespaces ----------------------------
(***************************************************************************)
(* Tier T for C17.  After every event the harness logs the listing         *)
(* (namespaces()), both lookup directions, and the call's own result.      *)
(* The trace spec checks tier P of Namespaces.tla on them:                 *)
(*   Bijection   - each prefix once, each namespace once, lookups agree    *)
(*   QnameBound  - a qname / curie / n3 uses a prefix bound at that moment *)
(*   ExpandBack  - namespace + local name = the IRI; expand_curie agrees   *)
(*   BindFrame   - bind(p, n) only changes bindings of p or of n           *)
(*   NoGenerate  - generate=False never binds                              *)
(***************************************************************************)
EXTENDS Naturals, Sequences, FiniteSets, TLC, Json, IOUtils

Batch == ndJsonDeserialize(IOEnv.TRACE_FILE)
Devs  == LET d == JsonDeserialize(IOEnv.DEVS_FILE) IN {d[i] : i \in 1..Len(d)}
VARIABLES k, l, st, verdict
vars == <<k, l, st, verdict>>

Has(r, f) == f \in DOMAIN r
SeqToSet(s) == {s[i] : i \in 1..Len(s)}
NONE == "<none>"
St0 == [M |-> {}]          \* M : set of <<prefix, namespace>> currently bound (as last observed)

Pairs(listing) == {<<listing[i][1], listing[i][2]>> : i \in 1..Len(listing)}
PrefixesOf(M) == {x[1] : x \in M}
NssOf(M) == {x[2] : x \in M}

ObsVerdict(o) ==
  LET M == Pairs(o.listing) IN
  IF Cardinality(PrefixesOf(M)) # Len(o.listing) THEN "Bijection:prefix-listed-twice"
  ELSE IF Cardinality(NssOf(M)) # Len(o.listing) THEN "Bijection:namespace-listed-twice"
  ELSE IF \E i \in 1..Len(o.prefix_of) :
            LET n == o.prefix_of[i][1]  p == o.prefix_of[i][2] IN
            IF p = NONE THEN n \in NssOf(M) ELSE <<p, n>> \notin M THEN "Bijection:store.prefix-disagrees"
  ELSE IF \E i \in 1..Len(o.ns_of) :
            LET p == o.ns_of[i][1]  n == o.ns_of[i][2] IN
            IF n = NONE THEN p \in PrefixesOf(M) ELSE <<p, n>> \notin M THEN "Bijection:store.namespace-disagrees"
  ELSE IF Has(o, "qn") /\ \E i \in 1..Len(o.qn) :
            o.qn[i].k = "val" /\ <<o.qn[i].p, o.qn[i].n>> \notin M THEN "QnameBound"
  ELSE IF Has(o, "qn") /\ \E i \in 1..Len(o.qn) :
            o.qn[i].k = "val" /\ o.qn[i].n \o o.qn[i].l # o.qn[i].iri THEN "ExpandBack"
  ELSE "ok"

EvVerdict(s, e, M2) ==
  LET M == s.M IN
  CASE e.op = "bind" ->
         IF Has(e, "raise") THEN "ok"
         ELSE IF \E x \in M : x[1] # e.p /\ x[2] # e.n /\ x \notin M2 THEN "BindFrame:other-binding-lost"
         ELSE IF \E x \in M2 \ M : x[2] # e.n THEN "BindFrame:foreign-binding-added"
         ELSE IF e.override /\ e.n \notin NssOf(M2) THEN "BindBinds"
         ELSE "ok"
    [] e.op \in {"cq", "qname", "curie", "n3", "cq_strict"} ->
         IF e.res.k # "val" THEN (IF M2 # M /\ e.res.k = "raise" /\ ~e.generate THEN "NoGenerate" ELSE "ok")
         ELSE IF <<e.res.p, e.res.n>> \notin M2 THEN "QnameBound"
         ELSE IF e.res.n \o e.res.l # e.iri THEN "ExpandBack"
         ELSE IF ~e.generate /\ M2 # M THEN "NoGenerate"
         ELSE IF ~(M \subseteq M2) THEN "QnameFrame"
         ELSE "ok"
    [] e.op = "expand" ->
         IF e.p \in PrefixesOf(M)
         THEN (IF e.res.k = "val" /\ e.res.iri = (CHOOSE x \in M : x[1] = e.p)[2] \o e.l THEN "ok" ELSE "ExpandBack")
         ELSE (IF e.res.k = "raise" THEN "ok" ELSE "QnameBound:expanded-unbound-prefix")
    [] e.op = "parse" ->      \* a document's prefix declarations touch only the prefixes and namespaces they name
         IF Has(e, "raise") THEN "ok"
         ELSE IF \E x \in M : x \notin M2 /\ (\A i \in 1..Len(e.prefixes) : e.prefixes[i][1] # x[1] /\ e.prefixes[i][2] # x[2]) THEN "ParseFrame:other-binding-lost"
         ELSE "ok"
    [] OTHER -> "ok"

Judge(s, e) ==
  IF e.op \notin {"bind", "cq", "qname", "curie", "n3", "cq_strict", "expand", "serialize", "parse", "new", "reset"} THEN "UnknownEvent"
  ELSE LET v1 == ObsVerdict(e.obs) IN
       IF v1 # "ok" THEN v1 ELSE EvVerdict(s, e, Pairs(e.obs.listing))

ApplyEv(s, e) == [M |-> Pairs(e.obs.listing)]

Init == k = 1 /\ l = 1 /\ st = St0 /\ verdict = "ok"
Step == /\ k <= Len(Batch) /\ verdict = "ok" /\ l <= Len(Batch[k].ev)
        /\ LET e == Batch[k].ev[l]
               v == Judge(st, e)
           IN IF v = "ok"
              THEN st' = ApplyEv(st, e) /\ l' = l + 1 /\ UNCHANGED <<k, verdict>>
              ELSE verdict' = v /\ UNCHANGED <<k, l, st>>
NextTrace == /\ k <= Len(Batch) /\ (verdict # "ok" \/ l > Len(Batch[k].ev))
             /\ PrintT(<<"VERDICT", Batch[k].tid, verdict, l>>)
             /\ k' = k + 1 /\ l' = 1 /\ st' = St0 /\ verdict' = "ok"
TraceSpec == Init /\ [][Step \/ NextTrace]_vars
===============================================================================
