------------------------------- MODULE MCSparql -------------------------------
(***************************************************************************)
(* Laws that guard the transcription in Sparql.tla (they are theorems of   *)
(* the SPARQL algebra; a violation is a bug in MY spec, never in rdflib):  *)
(* join is commutative and associative on multisets, LeftJoin expands to   *)
(* Join + difference, Minus with disjoint domains is the identity, a       *)
(* filter error drops the solution, Distinct is idempotent, and - double   *)
(* entry - the incremental BGP evaluation equals the declarative "mu is a  *)
(* solution iff every instantiated pattern is in the graph".               *)
(* One TLC state per pair (A, B) of small multisets / per (bgp, graph).    *)
(***************************************************************************)
EXTENDS Sparql, TLC
CONSTANTS VarsU, TermsU

I(x) == [k |-> "iri", v |-> x]
V(x) == [k |-> "var", v |-> x]
Mus == UNION {[D -> {I(t) : t \in TermsU}] : D \in SUBSET VarsU}
Bags == {<<>>} \cup {<<m>> : m \in Mus} \cup {<<m, n>> : m \in Mus, n \in Mus}
Pos == {V(x) : x \in VarsU} \cup {I(t) : t \in TermsU}
TPs == {<<s, I("p"), o>> : s \in Pos, o \in Pos}
Triples == {<<I(s), I("p"), I(o)>> : s \in TermsU, o \in TermsU}

VARIABLES A, B, tp1, tp2, G
vs == <<A, B, tp1, tp2, G>>
Init == A \in Bags /\ B \in Bags /\ tp1 \in TPs /\ tp2 \in TPs /\ G \in SUBSET Triples
InitAlg == A \in Bags /\ B \in Bags /\ tp1 = (CHOOSE t \in TPs : TRUE) /\ tp2 = (CHOOSE t \in TPs : TRUE) /\ G = {}
InitBgp == A = <<>> /\ B = <<>> /\ tp1 \in TPs /\ tp2 \in TPs /\ G \in SUBSET Triples
Next == UNCHANGED vs
SpecAlg == InitAlg /\ [][Next]_vs
SpecBgp == InitBgp /\ [][Next]_vs

c0 == [D |-> [n \in {"D"} |-> G], active |-> G, ord |-> [x \in {} |-> 0], dev |-> FALSE, dev2 |-> FALSE, union |-> FALSE, dev3 |-> FALSE, init |-> EmptyMu]
Inv_JoinCommutes == BagEq(Join(A, B), Join(B, A))
Inv_JoinIdentity == Join(A, <<EmptyMu>>) = A /\ Join(A, <<>>) = <<>>
Inv_JoinAssoc == \A m \in Mus : BagEq(Join(Join(A, B), <<m>>), Join(A, Join(B, <<m>>)))
Inv_LeftJoinExpands == BagEq(LeftJoin(A, B, LAMBDA m : TRUE),
                             Join(A, B) \o SelectSeq(A, LAMBDA m : \A j \in 1..Len(B) : ~Compat(m, B[j])))
Inv_LeftJoinFalse == LeftJoin(A, B, LAMBDA m : FALSE) = A
Inv_MinusDisjoint == (\A i \in 1..Len(A) : \A j \in 1..Len(B) : DOMAIN A[i] \cap DOMAIN B[j] = {}) => Minus(A, B) = A
Inv_MinusSelf == Minus(A, A) = SelectSeq(A, LAMBDA m : m = EmptyMu)
Inv_DistinctIdem == Distinct(Distinct(A)) = Distinct(A) /\ SToSet(Distinct(A)) = SToSet(A) /\ Cardinality(SToSet(A)) = Len(Distinct(A))
Inv_FilterError == \A x \in VarsU :
     SelectSeq(A, LAMBDA m : Holds([e |-> "=", a |-> [e |-> "var", v |-> x], b |-> [e |-> "const", t |-> I("a")]], m, c0))
       = SelectSeq(A, LAMBDA m : x \in DOMAIN m /\ m[x] = I("a"))
Inv_ThreeValued == /\ Or3(Err, TrueV) = TrueV /\ And3(Err, FalseV) = FalseV /\ Or3(Err, FalseV) = Err /\ And3(Err, TrueV) = Err
                   /\ Not3(Err) = Err /\ EBV(NumV(0)) = FalseV /\ EBV([k |-> "str", v |-> ""]) = FalseV /\ EBV(I("a")) = Err

(* declarative twin of BGP evaluation *)
BgpVars == VarsOfTP(tp1) \cup VarsOfTP(tp2)
InstT(tp, m) == <<IF IsVar(tp[1]) THEN m[tp[1].v] ELSE tp[1], tp[2], IF IsVar(tp[3]) THEN m[tp[3].v] ELSE tp[3]>>
Sols == {m \in [BgpVars -> {I(t) : t \in TermsU}] : InstT(tp1, m) \in G /\ InstT(tp2, m) \in G}
Inv_BgpTwin == LET E == EvalBGP(<<tp1, tp2>>, 1, G, <<EmptyMu>>) IN SToSet(E) = Sols /\ Len(E) = Cardinality(Sols)
===============================================================================
