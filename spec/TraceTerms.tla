------------------------------- MODULE TraceTerms -------------------------------
(***************************************************************************)
(* C07 - identity laws of RDF terms.  A term is a record                   *)
(*   [k \in {"iri","bnode","var","lit"}, v, dt, lang]  (lang lower-cased). *)
(* TermEq is record equality: same kind, lexical form, datatype and        *)
(* case-insensitive language tag.  Required order between kinds:           *)
(*   blank node < variable < IRI < literal; IRIs, blank nodes, variables   *)
(* among themselves order as their strings (code points, table cf.ord).    *)
(* Ordering among literals is only required not to raise and to be         *)
(* reproducible.                                                           *)
(***************************************************************************)
EXTENDS Naturals, Sequences, FiniteSets, TLC, Json, IOUtils
Batch == ndJsonDeserialize(IOEnv.TRACE_FILE)
Devs  == LET d == JsonDeserialize(IOEnv.DEVS_FILE) IN {d[i] : i \in 1..Len(d)}
VARIABLES k, l, verdict
vars == <<k, l, verdict>>
Has(r, f) == f \in DOMAIN r
S(s) == {s[i] : i \in 1..Len(s)}
Count(s, x) == Cardinality({i \in 1..Len(s) : s[i] = x})
Perm(a, b) == Len(a) = Len(b) /\ \A x \in S(a) \cup S(b) : Count(a, x) = Count(b, x)

TermEq(a, b) == a = b
Rank(x) == CASE x.k = "bnode" -> 1 [] x.k = "var" -> 2 [] x.k = "iri" -> 3 [] x.k = "lit" -> 4
StrLess(cf, x, y) == cf.ord[x] < cf.ord[y]
(* the order the property fixes; undefined (no constraint) between two literals *)
Less(cf, a, b) == IF Rank(a) # Rank(b) THEN Rank(a) < Rank(b) ELSE StrLess(cf, a.v, b.v)
Constrained(a, b) == ~(a.k = "lit" /\ b.k = "lit")

SortedOK(cf, ys) == \A i \in 1..Len(ys) : \A j \in (i + 1)..Len(ys) :
                       Constrained(ys[i], ys[j]) => ~Less(cf, ys[j], ys[i])
NonLit(s) == SelectSeq(s, LAMBDA x : x.k # "lit")
Lits(s) == SelectSeq(s, LAMBDA x : x.k = "lit")

Judge(cf, e) ==
  CASE e.op = "eq" ->
         IF Has(e, "raise") THEN "EqRaised"
         ELSE IF e.r # TermEq(e.a, e.b) THEN "EqAgrees"
         ELSE IF e.r_rev # e.r THEN "EqSymmetric"
         ELSE IF e.ne = e.r THEN "NeAgrees"
         ELSE IF TermEq(e.a, e.b) /\ ~e.hash_equal THEN "HashCoherent"
         ELSE IF e.set_len # (IF TermEq(e.a, e.b) THEN 1 ELSE 2) THEN "SetCollapse"
         ELSE IF e.dict_len # (IF TermEq(e.a, e.b) THEN 1 ELSE 2) THEN "DictCollapse"
         ELSE IF e.graph_len # (IF TermEq(e.a, e.b) THEN 1 ELSE 2) THEN "GraphCollapse"
         ELSE "ok"
    [] e.op = "lt" ->
         IF Has(e, "raise") THEN "OrderRaised"
         ELSE IF Constrained(e.a, e.b) /\ ~TermEq(e.a, e.b) /\ e.lt # Less(cf, e.a, e.b) THEN "KindOrder"
         ELSE IF Constrained(e.a, e.b) /\ ~TermEq(e.a, e.b) /\ e.gt # Less(cf, e.b, e.a) THEN "KindOrder:gt"
         ELSE IF Constrained(e.a, e.b) /\ TermEq(e.a, e.b) /\ (e.lt \/ e.gt) THEN "OrderIrreflexive"
         ELSE "ok"
    [] e.op = "sort" ->
         IF Has(e, "raise") THEN "SortRaised"
         ELSE IF ~Perm(e.xs, e.ys) THEN "SortPermutation"
         ELSE IF ~SortedOK(cf, e.ys) THEN "SortOrder"
         ELSE IF e.ys # e.ys2 THEN "SortReproducible"
         ELSE IF NonLit(e.zs) # NonLit(e.ys) THEN "SortStable"
         ELSE IF ~Perm(Lits(e.zs), Lits(e.ys)) THEN "SortPermutation"
         ELSE "ok"
    [] e.op = "via" ->
         IF Has(e, "notext") THEN "ok"        \* the term has no n3() text (n3() declines an IRI that cannot be written between < >): nothing reads back
         ELSE IF Has(e, "raise") THEN "SurvivesVia:raised:" \o e.how
         ELSE IF TermEq(e.a, e.b) /\ e.same_class THEN "ok" ELSE "SurvivesVia:" \o e.how
    [] e.op = "trans" ->       \* equality observed on three terms must be transitive
         IF e.ab /\ e.bc /\ ~e.ac THEN "EqTransitive" ELSE "ok"
    [] OTHER -> "UnknownEvent"

Init == k = 1 /\ l = 1 /\ verdict = "ok"
Step == /\ k <= Len(Batch) /\ verdict = "ok" /\ l <= Len(Batch[k].ev)
        /\ LET v == Judge(Batch[k].cfg, Batch[k].ev[l])
           IN IF v = "ok" THEN l' = l + 1 /\ UNCHANGED <<k, verdict>> ELSE verdict' = v /\ UNCHANGED <<k, l>>
NextTrace == /\ k <= Len(Batch) /\ (verdict # "ok" \/ l > Len(Batch[k].ev))
             /\ PrintT(<<"VERDICT", Batch[k].tid, verdict, l>>)
             /\ k' = k + 1 /\ l' = 1 /\ verdict' = "ok"
TraceSpec == Init /\ [][Step \/ NextTrace]_vars
===============================================================================
