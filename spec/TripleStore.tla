------------------------------ MODULE TripleStore ------------------------------
(***************************************************************************)
(* Tier P (property spec) for C01 / C02 / C13: the content of an rdflib    *)
(* store seen through Graph / ConjunctiveGraph / Dataset is a function     *)
(* from graph name to a *set* of triples, and every public call is one     *)
(* action with exactly the post-state the property statements demand.      *)
(*                                                                         *)
(* The same module serves three purposes, selected by the config:          *)
(*   MC_TripleStore*.cfg  - invariants / action properties (design check)  *)
(*   Gen_TripleStore*.cfg - exhaustive export of bounded histories (JSON)  *)
(*   TraceStore.tla       - re-uses StoreOps' post-state operators and the *)
(*                          read definitions below to judge real traces    *)
(***************************************************************************)
EXTENDS StoreOps, TLC, Json

CONSTANTS S, P, O,       \* term universes (sets of strings); they may overlap
          Names,         \* graph names that may be used (DEFAULT among them for datasets)
          Ops,           \* names of the operations enabled in this configuration
          MaxIters,      \* how many iterators a behaviour may open
          Depth,         \* bound on the history length (state constraint / export)
          GenMode        \* TRUE: iterator polls carry no result (the implementation decides)

VARIABLES G,             \* graph name -> set of triples; DOMAIN G = graphs that exist
          made,          \* names created explicitly by graph() and not removed since
          its,           \* sequence of iterator records
          hist           \* history of events (hidden by VIEW in MC configs)

vars == <<G, made, its, hist>>

Triples == S \X P \X O
Pats    == (S \cup {Wild}) \X (P \cup {Wild}) \X (O \cup {Wild})
Small(X) == {Y \in SUBSET X : Cardinality(Y) \in 1..2}

(* ---- reads: what every observation must equal --------------------------- *)
RLen(n)          == Cardinality(GGet(G, n))
RTriples(n, pat) == Sel(GGet(G, n), pat)
RContains(n, t)  == t \in GGet(G, n)
RQuads           == GQuads(G)
RGraphsMin       == made \cup {n \in DOMAIN G : G[n] # {}} \cup (IF DEFAULT \in Names THEN {DEFAULT} ELSE {})
RGraphsMax       == DOMAIN G
RUnion(pat)      == Sel(GUnion(G), pat)

(* ---- iterators ------------------------------------------------------------ *)
NewIt(n, pat) == [g |-> n, pat |-> pat, seen |-> Sel(GGet(G, n), pat), out |-> {}, live |-> TRUE, dirty |-> FALSE]
Refresh(I, G2) == [i \in DOMAIN I |->
                    IF I[i].live
                    THEN [I[i] EXCEPT !.seen  = @ \cup Sel(GGet(G2, I[i].g), I[i].pat),
                                      !.dirty = @ \/ GGet(G2, I[i].g) # GGet(G, I[i].g)]
                    ELSE I[i]]
(* what an iterator may yield: something that matched and was in its graph since it began;
   while nothing has been modified, exactly the not-yet-yielded matches *)
YieldOK(it, t) == /\ it.live
                  /\ t \in it.seen
                  /\ ~it.dirty => t \in Sel(GGet(G, it.g), it.pat) \ it.out
StopOK(it)     == it.live /\ (~it.dirty => it.out = Sel(GGet(G, it.g), it.pat))

Ev(e) == hist' = Append(hist, e)
Mut(G2, made2, e) == G' = G2 /\ made' = made2 /\ its' = Refresh(its, G2) /\ Ev(e)

(* ---- actions: one per public call ----------------------------------------- *)
Add(n, t)      == "add" \in Ops /\ Mut(PAdd(G, n, t), made, [op |-> "add", g |-> n, t |-> t])
AddN(Q)        == "addN" \in Ops /\ Mut(PAddQuads(G, Q), made, [op |-> "addN", qs |-> Q])
Remove(n, pat) == "remove" \in Ops /\ Mut(PRemove(G, n, pat), made, [op |-> "remove", g |-> n, pat |-> pat])
SetT(n, t)     == "set" \in Ops /\ Mut(PSet(G, n, t), made, [op |-> "set", g |-> n, t |-> t])
IAdd(n, h)     == "iadd" \in Ops /\ Mut(PAddAll(G, n, GGet(G, h)), made, [op |-> "iadd", g |-> n, h |-> h])
ISub(n, h)     == "isub" \in Ops /\ Mut(PRemoveAll(G, n, GGet(G, h)), made, [op |-> "isub", g |-> n, h |-> h])
MkGraph(n)     == "graph" \in Ops /\ Mut(PGraph(G, n), made \cup {n}, [op |-> "graph", g |-> n])
RmGraph(n)     == "remove_graph" \in Ops /\ Mut(PRemoveGraph(G, n), made \ {n}, [op |-> "remove_graph", g |-> n])
BinOp(o, a, b) == "binop" \in Ops /\ UNCHANGED <<G, made, its>>
                  /\ Ev([op |-> "binop", o |-> o, g |-> a, h |-> b,
                         res |-> SetOp(o, GGet(G, a), GGet(G, b))])
Open(n, pat)   == "iter" \in Ops /\ Len(its) < MaxIters /\ UNCHANGED <<G, made>>
                  /\ its' = Append(its, NewIt(n, pat))
                  /\ Ev([op |-> "open", it |-> Len(its) + 1, g |-> n, pat |-> pat])
Yield(i, t)    == "iter" \in Ops /\ ~GenMode /\ YieldOK(its[i], t) /\ UNCHANGED <<G, made>>
                  /\ its' = [its EXCEPT ![i].out = @ \cup {t}]
                  /\ Ev([op |-> "next", it |-> i, res |-> [k |-> "t", t |-> t]])
Stop(i)        == "iter" \in Ops /\ ~GenMode /\ StopOK(its[i]) /\ UNCHANGED <<G, made>>
                  /\ its' = [its EXCEPT ![i].live = FALSE]
                  /\ Ev([op |-> "next", it |-> i, res |-> [k |-> "stop"]])
Poll(i)        == "iter" \in Ops /\ GenMode /\ UNCHANGED <<G, made, its>>
                  /\ Ev([op |-> "next", it |-> i])

QuadsU == {<<t[1], t[2], t[3], n>> : t \in Triples, n \in Names}

Next == \/ \E n \in Names, t \in Triples : Add(n, t) \/ SetT(n, t)
        \/ \E Q \in Small(QuadsU) : AddN(Q)
        \/ \E n \in Names \cup (IF "remove_all" \in Ops THEN {ALLG} ELSE {}), pat \in Pats : Remove(n, pat)
        \/ \E n \in Names, h \in Names : n # h /\ (IAdd(n, h) \/ ISub(n, h))
        \/ \E n \in Names \ {DEFAULT} : MkGraph(n)
        \/ \E n \in Names : RmGraph(n)
        \/ \E o \in {"+", "-", "*", "^"}, a \in Names, b \in Names : BinOp(o, a, b)
        \/ \E n \in Names, pat \in Pats : Open(n, pat)
        \/ \E i \in DOMAIN its : Poll(i) \/ Stop(i) \/ \E t \in Triples : Yield(i, t)

Init == /\ G = [n \in (IF DEFAULT \in Names THEN {DEFAULT} ELSE {}) |-> {}]
        /\ made = {} /\ its = <<>> /\ hist = <<>>

NextB == Len(hist) < Depth /\ Next
Spec == Init /\ [][NextB]_vars

(* ---- what TLC checks on the property spec itself ------------------------- *)
TypeOK == /\ DOMAIN G \subseteq Names
          /\ \A n \in DOMAIN G : G[n] \subseteq Triples
          /\ made \subseteq DOMAIN G

Inv_DefaultExists == DEFAULT \in Names => DEFAULT \in DOMAIN G

(* all eight pattern shapes describe the same set; union view = union of the graphs *)
Inv_PatternAgreement ==
  \A n \in Names, pat \in Pats :
     /\ RTriples(n, pat) = {t \in Triples : RContains(n, t) /\ Match(pat, t)}
     /\ RUnion(pat) = UNION {RTriples(m, pat) : m \in DOMAIN G}
Inv_QuadsAgree == RQuads = {q \in QuadsU : RContains(q[4], <<q[1], q[2], q[3]>>)}
Inv_NoFallback == \A n \in Names, pat \in Pats :
                     (n \notin DOMAIN G \/ G[n] = {}) => RTriples(n, pat) = {}

Last == hist'[Len(hist')]
Targets(e) == CASE e.op \in {"add", "remove", "set", "iadd", "isub", "graph", "remove_graph"} ->
                       IF e.g = ALLG THEN Names ELSE {e.g}
                [] e.op = "addN" -> {q[4] : q \in e.qs}
                [] OTHER -> {}
(* C02: an operation changes no graph other than the ones it names *)
Prop_Isolation == [][\A n \in Names \ Targets(Last) :
                        /\ GGet(G', n) = GGet(G, n)
                        /\ (n \in DOMAIN G') = (n \in DOMAIN G)]_vars
(* C02: remove with no graph removes from every graph; remove_graph forgets only that graph *)
Prop_RemoveEverywhere == [][(Last.op = "remove" /\ Last.g = ALLG) =>
                              \A n \in DOMAIN G' : Sel(G'[n], Last.pat) = {}]_vars
Prop_RemoveGraph == [][Last.op = "remove_graph" =>
                         /\ GGet(G', Last.g) = {}
                         /\ (Last.g # DEFAULT => Last.g \notin DOMAIN G')]_vars
(* C13: reads are pure *)
Prop_ReadsPure == [][Last.op \in {"binop", "open", "next"} => UNCHANGED <<G, made>>]_vars
(* C01: an iterator yields only what matched and was in its graph since it began *)
Inv_IterSafe == \A i \in DOMAIN its : its[i].out \subseteq its[i].seen
Inv_IterSeenMatches == \A i \in DOMAIN its : \A t \in its[i].seen : Match(its[i].pat, t)

(* ---- bounded exploration and export -------------------------------------- *)
Bound  == Len(hist) <= Depth
View   == <<G, made, its>>
Export == IF Len(hist) = Depth THEN PrintT(ToJson(hist)) ELSE TRUE
ExportAll == IF Len(hist) >= 1 THEN PrintT(ToJson(hist)) ELSE TRUE
===============================================================================
