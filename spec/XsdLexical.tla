------------------------------- MODULE XsdLexical -------------------------------
(***************************************************************************)
(* C09 - XML Schema Datatypes (1.1 part 2) lexical spaces, transcribed at  *)
(* character level.  A lexical form is a sequence of one-character         *)
(* strings.  For each recognised datatype: Valid(dt, lex) says whether lex *)
(* is in the lexical space; for the integer family, boolean and decimal    *)
(* Canon(dt, lex) is the canonical representation of its value (values are *)
(* compared through canonical forms, which avoids machine integers);       *)
(* for date / time / dateTime the field ranges are checked.                *)
(***************************************************************************)
EXTENDS Integers, Sequences, FiniteSets

Digits == {"0", "1", "2", "3", "4", "5", "6", "7", "8", "9"}
HexDigits == Digits \cup {"a", "b", "c", "d", "e", "f", "A", "B", "C", "D", "E", "F"}
DV(c) == CASE c = "0" -> 0 [] c = "1" -> 1 [] c = "2" -> 2 [] c = "3" -> 3 [] c = "4" -> 4 [] c = "5" -> 5 [] c = "6" -> 6 [] c = "7" -> 7 [] c = "8" -> 8 [] c = "9" -> 9
AllIn(s, C) == \A i \in 1..Len(s) : s[i] \in C
IsDigits(s) == Len(s) >= 1 /\ AllIn(s, Digits)
Sub(s, a, b) == IF a > b THEN <<>> ELSE SubSeq(s, a, b)
RECURSIVE StripZeros(_)
StripZeros(s) == IF Len(s) > 1 /\ s[1] = "0" THEN StripZeros(Tail(s)) ELSE s
RECURSIVE StripTrailingZeros(_)
StripTrailingZeros(s) == IF Len(s) >= 1 /\ s[Len(s)] = "0" THEN StripTrailingZeros(Sub(s, 1, Len(s) - 1)) ELSE s
RECURSIVE Num(_)
Num(s) == IF s = <<>> THEN 0 ELSE 10 * Num(Sub(s, 1, Len(s) - 1)) + DV(s[Len(s)])     \* only used on <= 9 digits
Index(s, c) == IF \E i \in 1..Len(s) : s[i] = c THEN CHOOSE i \in 1..Len(s) : s[i] = c /\ \A j \in 1..(i - 1) : s[j] # c ELSE 0

(* ---- integers -------------------------------------------------------------------- *)
HasSign(s) == Len(s) >= 1 /\ s[1] \in {"+", "-"}
Body(s) == IF HasSign(s) THEN Tail(s) ELSE s
ValidInteger(s) == IsDigits(Body(s))
IsZero(d) == AllIn(d, {"0"})
CanonInt(s) == LET d == StripZeros(Body(s)) IN IF HasSign(s) /\ s[1] = "-" /\ ~IsZero(d) THEN <<"-">> \o d ELSE d
Neg(c) == Len(c) >= 1 /\ c[1] = "-"
(* comparison of canonical integers as digit strings *)
RECURSIVE LexLess(_, _)
LexLess(a, b) == IF a = <<>> THEN FALSE ELSE IF DV(a[1]) # DV(b[1]) THEN DV(a[1]) < DV(b[1]) ELSE LexLess(Tail(a), Tail(b))
MagLess(a, b) == IF Len(a) # Len(b) THEN Len(a) < Len(b) ELSE LexLess(a, b)
IntLess(a, b) == IF Neg(a) /\ ~Neg(b) THEN TRUE ELSE IF ~Neg(a) /\ Neg(b) THEN FALSE
                 ELSE IF Neg(a) THEN MagLess(Tail(b), Tail(a)) ELSE MagLess(a, b)
IntLeq(a, b) == a = b \/ IntLess(a, b)
Chars(str) == str          \* bounds are given as sequences already
Bounds == [
  byte |-> << <<"-", "1", "2", "8">>, <<"1", "2", "7">> >>,
  short |-> << <<"-", "3", "2", "7", "6", "8">>, <<"3", "2", "7", "6", "7">> >>,
  int |-> << <<"-", "2", "1", "4", "7", "4", "8", "3", "6", "4", "8">>, <<"2", "1", "4", "7", "4", "8", "3", "6", "4", "7">> >>,
  long |-> << <<"-", "9", "2", "2", "3", "3", "7", "2", "0", "3", "6", "8", "5", "4", "7", "7", "5", "8", "0", "8">>,
              <<"9", "2", "2", "3", "3", "7", "2", "0", "3", "6", "8", "5", "4", "7", "7", "5", "8", "0", "7">> >>,
  unsignedByte |-> << <<"0">>, <<"2", "5", "5">> >>,
  unsignedShort |-> << <<"0">>, <<"6", "5", "5", "3", "5">> >>,
  unsignedInt |-> << <<"0">>, <<"4", "2", "9", "4", "9", "6", "7", "2", "9", "5">> >>,
  unsignedLong |-> << <<"0">>, <<"1", "8", "4", "4", "6", "7", "4", "4", "0", "7", "3", "7", "0", "9", "5", "5", "1", "6", "1", "5">> >> ]
IntFamily == {"integer", "byte", "short", "int", "long", "unsignedByte", "unsignedShort", "unsignedInt", "unsignedLong",
              "positiveInteger", "nonNegativeInteger", "negativeInteger", "nonPositiveInteger"}
InFacet(dt, c) ==
  CASE dt = "integer" -> TRUE
    [] dt \in DOMAIN Bounds -> IntLeq(Bounds[dt][1], c) /\ IntLeq(c, Bounds[dt][2])
    [] dt = "positiveInteger" -> ~Neg(c) /\ ~IsZero(c)
    [] dt = "nonNegativeInteger" -> ~Neg(c)
    [] dt = "negativeInteger" -> Neg(c)
    [] dt = "nonPositiveInteger" -> Neg(c) \/ IsZero(c)

(* ---- boolean, decimal, float / double ----------------------------------------------------- *)
ValidBoolean(s) == s \in {<<"t", "r", "u", "e">>, <<"f", "a", "l", "s", "e">>, <<"1">>, <<"0">>}
CanonBoolean(s) == IF s \in {<<"t", "r", "u", "e">>, <<"1">>} THEN <<"t", "r", "u", "e">> ELSE <<"f", "a", "l", "s", "e">>
ValidUDecimal(b) == LET d == Index(b, ".") IN
                    IF d = 0 THEN IsDigits(b)
                    ELSE LET ip == Sub(b, 1, d - 1)  fp == Sub(b, d + 1, Len(b)) IN
                         AllIn(ip, Digits) /\ AllIn(fp, Digits) /\ Len(ip) + Len(fp) >= 1
ValidDecimal(s) == ValidUDecimal(Body(s))
CanonDecimal(s) ==       \* integer part without leading zeros, fraction without trailing zeros, no "-0"
  LET b == Body(s)  d == Index(b, ".")
      ip0 == IF d = 0 THEN b ELSE Sub(b, 1, d - 1)
      fp0 == IF d = 0 THEN <<>> ELSE Sub(b, d + 1, Len(b))
      ip == IF ip0 = <<>> THEN <<"0">> ELSE StripZeros(ip0)
      fp == StripTrailingZeros(fp0)
      mag == IF fp = <<>> THEN ip ELSE ip \o <<".">> \o fp
  IN IF HasSign(s) /\ s[1] = "-" /\ ~(IsZero(ip) /\ fp = <<>>) THEN <<"-">> \o mag ELSE mag
ValidDouble(s) ==
  \/ s \in {<<"I", "N", "F">>, <<"-", "I", "N", "F">>, <<"N", "a", "N">>}
  \/ LET b == Body(s)
         e == IF Index(b, "e") # 0 THEN Index(b, "e") ELSE Index(b, "E")
         m == IF e = 0 THEN b ELSE Sub(b, 1, e - 1)
         x == IF e = 0 THEN <<"0">> ELSE Sub(b, e + 1, Len(b))
     IN ValidUDecimal(m) /\ ValidInteger(x)
PlusInf(s) == s = <<"+", "I", "N", "F">>      \* legal in XSD 1.1 only: not judged

(* ---- date, time, dateTime ------------------------------------------------------------------ *)
TwoDigits(s) == Len(s) = 2 /\ AllIn(s, Digits)
ValidTz(z) == \/ z = <<>> \/ z = <<"Z">>
              \/ /\ Len(z) = 6 /\ z[1] \in {"+", "-"} /\ TwoDigits(Sub(z, 2, 3)) /\ z[4] = ":" /\ TwoDigits(Sub(z, 5, 6))
                 /\ Num(Sub(z, 5, 6)) <= 59
                 /\ (Num(Sub(z, 2, 3)) <= 13 \/ (Num(Sub(z, 2, 3)) = 14 /\ Num(Sub(z, 5, 6)) = 0))
(* position where the time-zone suffix starts (0 if none), searching from the end *)
TzStart(s) == IF Len(s) >= 1 /\ s[Len(s)] = "Z" THEN Len(s)
              ELSE IF Len(s) >= 6 /\ s[Len(s) - 5] \in {"+", "-"} /\ s[Len(s) - 2] = ":" THEN Len(s) - 5 ELSE 0
NoTz(s) == IF TzStart(s) = 0 THEN s ELSE Sub(s, 1, TzStart(s) - 1)
TzOf(s) == IF TzStart(s) = 0 THEN <<>> ELSE Sub(s, TzStart(s), Len(s))
Leap(y) == (y % 4 = 0 /\ y % 100 # 0) \/ y % 400 = 0
DaysIn(y, m) == IF m \in {1, 3, 5, 7, 8, 10, 12} THEN 31 ELSE IF m = 2 THEN (IF Leap(y) THEN 29 ELSE 28) ELSE 30
(* date without time zone: -?YYYY+-MM-DD *)
ValidDateBody(d) ==
  LET neg == Len(d) >= 1 /\ d[1] = "-"
      b == IF neg THEN Tail(d) ELSE d
      n == Len(b)
  IN /\ n >= 10 /\ b[n - 2] = "-" /\ b[n - 5] = "-"
     /\ LET yy == Sub(b, 1, n - 6)  mm == Sub(b, n - 4, n - 3)  dd == Sub(b, n - 1, n) IN
        /\ IsDigits(yy) /\ Len(yy) >= 4 /\ (Len(yy) > 4 => yy[1] # "0") /\ Len(yy) <= 9
        /\ TwoDigits(mm) /\ TwoDigits(dd)
        /\ Num(mm) \in 1..12 /\ Num(dd) >= 1 /\ Num(dd) <= DaysIn(Num(yy), Num(mm))
YearZero(d) == LET b == IF Len(d) >= 1 /\ d[1] = "-" THEN Tail(d) ELSE d IN Len(b) >= 4 /\ IsZero(Sub(b, 1, 4)) /\ b[5] = "-"
(* time without time zone: hh:mm:ss(.s+)? with 24:00:00(.0+)? allowed *)
ValidTimeBody(t) ==
  /\ Len(t) >= 8 /\ t[3] = ":" /\ t[6] = ":"
  /\ TwoDigits(Sub(t, 1, 2)) /\ TwoDigits(Sub(t, 4, 5)) /\ TwoDigits(Sub(t, 7, 8))
  /\ (Len(t) > 8 => t[9] = "." /\ Len(t) >= 10 /\ AllIn(Sub(t, 10, Len(t)), Digits))
  /\ LET h == Num(Sub(t, 1, 2))  m == Num(Sub(t, 4, 5))  s == Num(Sub(t, 7, 8)) IN
     \/ h <= 23 /\ m <= 59 /\ s <= 59
     \/ h = 24 /\ m = 0 /\ s = 0 /\ (Len(t) > 8 => IsZero(Sub(t, 10, Len(t))))
EndOfDay(t) == Len(t) >= 2 /\ Sub(t, 1, 2) = <<"2", "4">>
ValidDate(s) == ValidTz(TzOf(s)) /\ ValidDateBody(NoTz(s))
ValidTime(s) == ValidTz(TzOf(s)) /\ ValidTimeBody(NoTz(s))
ValidDateTime(s) == LET b == NoTz(s)  t == Index(b, "T") IN
                    ValidTz(TzOf(s)) /\ t > 0 /\ ValidDateBody(Sub(b, 1, t - 1)) /\ ValidTimeBody(Sub(b, t + 1, Len(b)))

(* ---- durations ------------------------------------------------------------------------------ *)
RECURSIVE Components(_, _, _)
(* consume "<digits><designator>" items whose designators appear in order; returns remaining or <<"!">> on error *)
Components(s, desigs, frac) ==
  IF s = <<>> THEN <<>>
  ELSE LET n == CHOOSE k \in 0..Len(s) : (\A i \in 1..k : s[i] \in Digits \cup (IF frac THEN {"."} ELSE {})) /\ (k = Len(s) \/ s[k + 1] \notin Digits \cup (IF frac THEN {"."} ELSE {}))
       IN IF n = 0 \/ n = Len(s) THEN <<"!">>
          ELSE LET d == s[n + 1]  p == Index(desigs, d)  num == Sub(s, 1, n) IN
               IF p = 0 THEN <<"!">>
               ELSE IF Index(num, ".") # 0 /\ (d # "S" \/ ~ValidUDecimal(num) \/ num[1] = "." \/ num[Len(num)] = ".") THEN <<"!">>
               ELSE Components(Sub(s, n + 2, Len(s)), Sub(desigs, p + 1, Len(desigs)), frac)
ValidDurationParts(s, allowYM, allowDT) ==
  LET b == IF Len(s) >= 1 /\ s[1] = "-" THEN Tail(s) ELSE s IN
  /\ Len(b) >= 2 /\ b[1] = "P"
  /\ LET t == Index(b, "T")
         datep == IF t = 0 THEN Sub(b, 2, Len(b)) ELSE Sub(b, 2, t - 1)
         timep == IF t = 0 THEN <<>> ELSE Sub(b, t + 1, Len(b))
     IN /\ (t # 0 => timep # <<>>)
        /\ datep \o timep # <<>>
        /\ Components(datep, (IF allowYM THEN <<"Y", "M">> ELSE <<>>) \o (IF allowDT THEN <<"D">> ELSE <<>>), FALSE) = <<>>
        /\ (timep # <<>> => allowDT /\ Components(timep, <<"H", "M", "S">>, TRUE) = <<>>)
ValidDuration(s) == ValidDurationParts(s, TRUE, TRUE)
ValidDayTimeDuration(s) == ValidDurationParts(s, FALSE, TRUE)
ValidYearMonthDuration(s) == ValidDurationParts(s, TRUE, FALSE)

(* the value of a duration: months and seconds (XSD 1.1: a duration is a pair of months and seconds) *)
RECURSIVE DurAcc(_, _, _)
(* s: what is left to read; intime: past the 'T'; acc: [y, mo, d, h, mi, s, f] *)
DurAcc(s, intime, acc) ==
  IF s = <<>> THEN acc
  ELSE IF s[1] = "T" THEN DurAcc(Tail(s), TRUE, acc)
  ELSE LET n == CHOOSE k \in 1..Len(s) : s[k] \notin Digits \cup {"."} /\ \A i \in 1..(k - 1) : s[i] \in Digits \cup {"."}
           num == Sub(s, 1, n - 1)   d == s[n]   rest == Sub(s, n + 1, Len(s))
           dot == Index(num, ".")
           ip == IF dot = 0 THEN num ELSE Sub(num, 1, dot - 1)
           fp == IF dot = 0 THEN <<>> ELSE Sub(num, dot + 1, Len(num))
           v == Num(ip)
       IN IF d = "Y" THEN DurAcc(rest, intime, [acc EXCEPT !.y = v])
          ELSE IF d = "M" /\ ~intime THEN DurAcc(rest, intime, [acc EXCEPT !.mo = v])
          ELSE IF d = "D" THEN DurAcc(rest, intime, [acc EXCEPT !.d = v])
          ELSE IF d = "H" THEN DurAcc(rest, intime, [acc EXCEPT !.h = v])
          ELSE IF d = "M" THEN DurAcc(rest, intime, [acc EXCEPT !.mi = v])
          ELSE DurAcc(rest, intime, [acc EXCEPT !.s = v, !.f = fp])
DurZero == [y |-> 0, mo |-> 0, d |-> 0, h |-> 0, mi |-> 0, s |-> 0, f |-> <<>>]
DurNeg(s) == Len(s) >= 1 /\ s[1] = "-"
DurBody(s) == IF DurNeg(s) THEN Sub(s, 3, Len(s)) ELSE Sub(s, 2, Len(s))        \* after "-P" / "P"
DurFields(s) == DurAcc(DurBody(s), FALSE, DurZero)
(* small numbers only (machine integers), and no digit of the seconds fraction beyond the sixth that is not zero *)
RECURSIVE MaxRun(_, _, _)
MaxRun(s, i, run) == IF i > Len(s) THEN run ELSE IF s[i] \in Digits THEN (LET r == MaxRun(s, i + 1, run + 1) IN r) ELSE (LET r == MaxRun(s, i + 1, 0) IN IF r > run THEN r ELSE run)
DurJudged(s) == LET f == DurFields(s) IN
                /\ \A k \in 1..Len(s) : ~(\E j \in k..Len(s) : j - k >= 6 /\ \A i \in k..j : s[i] \in Digits /\ Index(Sub(s, 1, k), ".") = 0)    \* no integer of 7+ digits
                /\ (Len(f.f) > 6 => IsZero(Sub(f.f, 7, Len(f.f))))
DurMonths(s) == LET f == DurFields(s) IN 12 * f.y + f.mo
DurSeconds(s) == LET f == DurFields(s) IN ((f.d * 24 + f.h) * 60 + f.mi) * 60 + f.s
DurMicros(s) == LET f == DurFields(s) IN IF f.f = <<>> THEN 0 ELSE Num(IF Len(f.f) >= 6 THEN Sub(f.f, 1, 6) ELSE f.f \o [i \in 1..(6 - Len(f.f)) |-> "0"])
DurIsZero(s) == DurMonths(s) = 0 /\ DurSeconds(s) = 0 /\ DurMicros(s) = 0

ValidHexBinary(s) == Len(s) % 2 = 0 /\ AllIn(s, HexDigits)

(* xsd:token (whiteSpace = collapse): no tab / LF / CR, no leading, trailing or doubled #x20; every other character - a no-break space, U+2003 -
   is an ordinary one.  xsd:normalizedString (whiteSpace = replace): no tab / LF / CR.  Their value is the lexical form itself. *)
ValidNormalizedString(s) == \A i \in 1..Len(s) : s[i] \notin {"\t", "\n", "\r"}
ValidToken(s) == /\ ValidNormalizedString(s)
                 /\ (Len(s) >= 1 => s[1] # " " /\ s[Len(s)] # " ")
                 /\ \A i \in 1..(Len(s) - 1) : ~(s[i] = " " /\ s[i + 1] = " ")
(* xsd:base64Binary: ((B64 S?){4})* ((B64 S?){3} B64 | (B64 S?){2} B16 S? '=' | B64 S? B04 S? '=' S? '=')?  with S a single #x20 after collapse *)
B64Chars == {"A", "B", "C", "D", "E", "F", "G", "H", "I", "J", "K", "L", "M", "N", "O", "P", "Q", "R", "S", "T", "U", "V", "W", "X", "Y", "Z",
             "a", "b", "c", "d", "e", "f", "g", "h", "i", "j", "k", "l", "m", "n", "o", "p", "q", "r", "s", "t", "u", "v", "w", "x", "y", "z",
             "0", "1", "2", "3", "4", "5", "6", "7", "8", "9", "+", "/"}
B16Chars == {"A", "E", "I", "M", "Q", "U", "Y", "c", "g", "k", "o", "s", "w", "0", "4", "8"}
B04Chars == {"A", "Q", "g", "w"}
NoSpaces(s) == SelectSeq(s, LAMBDA ch : ch # " ")
ValidBase64(s) ==
  LET t == NoSpaces(s)  n == Len(t) IN
  /\ ValidToken(s)                                   \* single spaces between characters only
  /\ n % 4 = 0
  /\ \A i \in 1..n : t[i] \in B64Chars \/ (t[i] = "=" /\ i >= n - 1)
  /\ (n >= 1 /\ t[n] = "=" =>
        IF t[n - 1] = "=" THEN t[n - 2] \in B04Chars ELSE t[n - 1] \in B16Chars)
  /\ (n >= 2 /\ t[n - 1] = "=" => t[n] = "=")

Judged == IntFamily \cup {"boolean", "decimal", "double", "float", "date", "time", "dateTime", "duration", "dayTimeDuration", "yearMonthDuration", "hexBinary",
                          "token", "normalizedString", "base64Binary"}
Valid(dt, s) ==
  CASE dt \in IntFamily -> ValidInteger(s) /\ InFacet(dt, CanonInt(s))
    [] dt = "boolean" -> ValidBoolean(s)
    [] dt = "decimal" -> ValidDecimal(s)
    [] dt \in {"double", "float"} -> ValidDouble(s)
    [] dt = "date" -> ValidDate(s)
    [] dt = "time" -> ValidTime(s)
    [] dt = "dateTime" -> ValidDateTime(s)
    [] dt = "duration" -> ValidDuration(s)
    [] dt = "dayTimeDuration" -> ValidDayTimeDuration(s)
    [] dt = "yearMonthDuration" -> ValidYearMonthDuration(s)
    [] dt = "hexBinary" -> ValidHexBinary(s)
    [] dt = "token" -> ValidToken(s)
    [] dt = "normalizedString" -> ValidNormalizedString(s)
    [] dt = "base64Binary" -> ValidBase64(s)
(* forms on which XSD 1.0 and 1.1 differ are not judged *)
WS == {" ", "\t", "\n", "\r"}
Unjudged(dt, s) == \/ dt \in {"double", "float"} /\ PlusInf(s)
                   \/ dt \in {"date", "dateTime"} /\ YearZero(s)
                   \/ Len(s) >= 1 /\ (s[1] \in WS \/ s[Len(s)] \in WS)     \* whiteSpace = collapse may be applied first: not judged
                   \* ... the same for white space inside a token / normalizedString / base64Binary that the facet would rewrite (doubled #x20, tab, LF, CR)
                   \/ dt = "token" /\ ~ValidToken(s)
                   \/ dt = "normalizedString" /\ ~ValidNormalizedString(s)
                   \/ dt = "base64Binary" /\ ~ValidToken(s)
HasCanon(dt) == dt \in IntFamily \cup {"boolean", "decimal", "token", "normalizedString"}
Canon(dt, s) == CASE dt \in IntFamily -> CanonInt(s) [] dt = "boolean" -> CanonBoolean(s) [] dt = "decimal" -> CanonDecimal(s) [] dt \in {"token", "normalizedString"} -> s
===============================================================================
