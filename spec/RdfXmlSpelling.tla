---------------------------- MODULE RdfXmlSpelling ----------------------------
(***************************************************************************)
(* C05 - the writer's side of RDF/XML as a state machine (the counterpart  *)
(* of TurtleSpelling.tla).  A behaviour writes one document, element by    *)
(* element, making at every step one of the choices the RDF/XML grammar    *)
(* (RDF 1.1 XML Syntax, section 7) leaves to an author:                    *)
(*   root        rdf:RDF with any number of node elements, or one node     *)
(*               element as the document element                           *)
(*   node        rdf:Description or a typed element; subject given by      *)
(*               rdf:about (absolute or relative to the base in force),    *)
(*               rdf:ID, rdf:nodeID, or nothing (fresh blank node);        *)
(*               property attributes (plain literals, rdf:type="iri")      *)
(*   property    nested node element; text (plain, with rdf:datatype);     *)
(*               empty with rdf:resource / rdf:nodeID / nothing / property *)
(*               attributes; rdf:parseType="Resource" | "Collection" |     *)
(*               "Literal"; rdf:li in place of rdf:_n; rdf:ID (reification)*)
(*   scoping     xml:lang and xml:base on any element, inherited, reset    *)
(* and maintains, next to the token list `doc`, the set of triples `G` the *)
(* document MEANS under the grammar's production rules (fresh blank node   *)
(* per anonymous node / parseType=Resource / collection cell; rdf:li       *)
(* counter per parent element; language in scope attached to plain         *)
(* literals only; reification quadruple for rdf:ID on a property).         *)
(* TLC generates behaviours (-simulate); the harness renders `doc` to XML  *)
(* text (prefixes, where xmlns declarations go, default namespace, quotes, *)
(* attribute order, white space, comments, CDATA, character references,    *)
(* entities are its random choices), hands it to rdflib by every route,    *)
(* and TLC validates the parsed graph against G (TraceSpell.tla).          *)
(***************************************************************************)
EXTENDS Naturals, Sequences, FiniteSets, TLC, Json

CONSTANTS NNs,          \* namespaces 1..NNs   (1, 2: under base 1 / 2 a relative reference exists; 2 = base1 # local)
          Locals,       \* abstract local names (all NCNames on the concrete side)
          NLit,         \* literal texts 1..NLit
          NDt,          \* datatypes 1..NDt
          Langs,        \* language tags
          MaxTop, MaxDepth, MaxTokens

VARIABLES mode, frames, doc, G, n, tops, wrap, ids
vars == <<mode, frames, doc, G, n, tops, wrap, ids>>

Iri(ns, l) == [k |-> "iri", ns |-> ns, l |-> l]
Rdf(l) == Iri(0, l)
IriTerms == {Iri(ns, l) : ns \in 1..NNs, l \in Locals}
Labelled == {[k |-> "bnode", v |-> "b1"], [k |-> "bnode", v |-> "b2"]}
Gen(i) == [k |-> "bnode", v |-> "g" \o ToString(i)]
Lit(i, lang, dt) == [k |-> "xlit", i |-> i, lang |-> lang, dt |-> dt]        \* dt 0: plain (then lang applies); dt = NDt + 1: rdf:XMLLiteral
Li(i) == [k |-> "iri", ns |-> 0, l |-> "_" \o ToString(i)]
T(s, p, o) == <<s, p, o>>

(* ---- the environment in force: innermost frame, or the root's ------------------------------------ *)
Top == frames[Len(frames)]
CurLang == Top.lang
CurBase == Top.base
NewLang(a) == IF a = "keep" THEN CurLang ELSE a
KeepBase == 9
NewBase(a) == IF a = KeepBase THEN CurBase ELSE a
LangAttrs == {"keep", ""} \cup Langs
BaseAttrs == {KeepBase, 1, 2}
(* the spellings the base in force allows, as flags on the token (the renderer picks among the legal ones):            *)
(*   rel: a relative reference exists (namespaces 1 and 2 lie under both bases)                                        *)
(*   id : rdf:ID="l" denotes base#l, which is namespace 2 under base 1                                                  *)
RelOK(t, b) == t.k = "iri" /\ b # 0 /\ t.ns \in {1, 2}
IdOK(t, b) == t.k = "iri" /\ b = 1 /\ t.ns = 2
Ref(t, b) == [term |-> t, rel |-> RelOK(t, b), id |-> IdOK(t, b)]

Room == Len(doc) < MaxTokens
Depth == Len(frames)

(* the root frame carries the document-level language / base *)
Init == /\ wrap \in BOOLEAN
        /\ \E la \in {""} \cup Langs, ba \in {0, 1, 2} :
             /\ (~wrap => la = "" /\ ba = 0)
             /\ frames = <<[kind |-> "root", lang |-> la, base |-> ba]>>
             /\ doc = IF wrap THEN <<[t |-> "rdf", lang |-> la, base |-> ba]>> ELSE <<>>
        /\ mode = "top" /\ G = {} /\ n = 0 /\ tops = 0 /\ ids = {}

(* ---- node elements ------------------------------------------------------------------------------- *)
(* where a node element may start: at top level, as the single child of a nested property, as a collection member *)
CanNode == \/ mode = "top" /\ Room /\ tops < (IF wrap THEN MaxTop ELSE 1)
           \/ mode = "nested" /\ ~Top.filled
           \/ mode = "coll" /\ Room
Desc == Rdf("Description")

OpenNode ==
  /\ CanNode /\ Depth < MaxDepth
  /\ \E la \in LangAttrs, ba \in BaseAttrs, typed \in {Desc} \cup IriTerms, subj \in {[k |-> "none"]} \cup Labelled \cup IriTerms :
      LET lang == NewLang(la)  base == NewBase(ba)
          s == IF subj.k = "none" THEN Gen(n + 1) ELSE subj
          own == IF typed # Desc THEN {T(s, Rdf("type"), typed)} ELSE {}
          f == [kind |-> "node", s |-> s, li |-> 0, lang |-> lang, base |-> base]
      IN /\ n' = IF subj.k = "none" THEN n + 1 ELSE n
         /\ doc' = Append(doc, [t |-> "node", typed |-> typed, subj |-> Ref(subj, base), pattrs |-> <<>>, tattr |-> <<>>, lang |-> la, base |-> ba])
         /\ IF mode = "nested"
            THEN /\ G' = G \cup own \cup {T(frames[Depth - 1].s, Top.p, s)} \cup Top.reif[s]
                 /\ frames' = Append([frames EXCEPT ![Depth].filled = TRUE], f)
            ELSE IF mode = "coll"
            THEN /\ G' = G \cup own
                 /\ frames' = Append([frames EXCEPT ![Depth].items = Append(@, s)], f)
            ELSE /\ G' = G \cup own /\ frames' = Append(frames, f)
  /\ mode' = "node"
  /\ tops' = IF mode = "top" THEN tops + 1 ELSE tops
  /\ UNCHANGED <<wrap, ids>>

(* property attributes of the node element just opened: p="text" (a plain literal in the language in scope), rdf:type="iri" *)
JustOpened == mode = "node" /\ Top.kind = "node" /\ doc[Len(doc)].t = "node"
NodeAttr ==
  /\ JustOpened /\ Len(doc[Len(doc)].pattrs) + Len(doc[Len(doc)].tattr) < 2
  /\ \/ \E p \in IriTerms, i \in 1..NLit :
          /\ \A x \in 1..Len(doc[Len(doc)].pattrs) : doc[Len(doc)].pattrs[x].p # p          \* an attribute name occurs once
          /\ G' = G \cup {T(Top.s, p, Lit(i, CurLang, 0))}
          /\ doc' = [doc EXCEPT ![Len(doc)].pattrs = Append(@, [p |-> p, i |-> i])]
     \/ \E t \in IriTerms :
          /\ doc[Len(doc)].tattr = <<>>
          /\ G' = G \cup {T(Top.s, Rdf("type"), t)}
          /\ doc' = [doc EXCEPT ![Len(doc)].tattr = <<Ref(t, CurBase)>>]
  /\ UNCHANGED <<mode, frames, n, tops, wrap, ids>>

CloseNode ==
  /\ mode = "node" /\ Top.kind = "node"
  /\ frames' = SubSeq(frames, 1, Depth - 1)
  /\ doc' = Append(doc, [t |-> "/node"])
  /\ mode' = LET up == frames[Depth - 1] IN
             IF up.kind = "root" THEN "top" ELSE IF up.kind = "nested" THEN "nested" ELSE "coll"
  /\ UNCHANGED <<G, n, tops, wrap, ids>>

(* ---- property elements ---------------------------------------------------------------------------- *)
(* the predicate: an IRI, or rdf:li, which takes the parent's counter *)
PredChoices == [p : IriTerms, li : {FALSE}] \cup {[p |-> Rdf("li"), li |-> TRUE]}
PredOf(c) == IF c.li THEN Li(Top.li + 1) ELSE c.p
Bump(c) == IF c.li THEN [frames EXCEPT ![Depth].li = @ + 1] ELSE frames
(* rdf:ID on the property element: the statement's reification, named base#r; each (base, r) is used once *)
Unused(base) == {x \in IriTerms : IdOK(x, base) /\ <<base, x.l>> \notin ids}
ReifChoices(base) == {[on |-> FALSE]} \cup (IF Unused(base) = {} THEN {} ELSE {[on |-> TRUE, term |-> CHOOSE x \in Unused(base) : TRUE]})
Reif(r, s, p, o) == IF r.on THEN {T(r.term, Rdf("type"), Rdf("Statement")), T(r.term, Rdf("subject"), s),
                                   T(r.term, Rdf("predicate"), p), T(r.term, Rdf("object"), o)} ELSE {}
IdsAfter(r, base) == IF r.on THEN ids \cup {<<base, r.term.l>>} ELSE ids
InNode == mode = "node" /\ Room

(* <p>text</p>, <p rdf:datatype="..">text</p>, <p/> *)
LitProp ==
  /\ InNode
  /\ \E c \in PredChoices, la \in LangAttrs, i \in 0..NLit, dt \in 0..NDt :
       LET lang == NewLang(la)  s == Top.s  p == PredOf(c)
           o == IF i = 0 THEN Lit(0, lang, 0) ELSE Lit(i, IF dt = 0 THEN lang ELSE "", dt) IN
       \E r \in ReifChoices(CurBase) :
         /\ (i = 0 => dt = 0)
         /\ G' = G \cup {T(s, p, o)} \cup Reif(r, s, p, o)
         /\ ids' = IdsAfter(r, CurBase)
         /\ frames' = Bump(c)
         /\ doc' = Append(doc, [t |-> "prop", form |-> IF i = 0 THEN "empty" ELSE "lit", pred |-> c, i |-> i, dt |-> dt, lang |-> la, base |-> KeepBase, rid |-> r])
  /\ UNCHANGED <<mode, n, tops, wrap>>

(* <p rdf:resource=".."/>, <p rdf:nodeID=".."/> *)
RefProp ==
  /\ InNode
  /\ \E c \in PredChoices, la \in LangAttrs, ba \in BaseAttrs, o \in IriTerms \cup Labelled :
       LET base == NewBase(ba)  s == Top.s  p == PredOf(c) IN
       \E r \in ReifChoices(base) :
         /\ G' = G \cup {T(s, p, o)} \cup Reif(r, s, p, o)
         /\ ids' = IdsAfter(r, base)
         /\ frames' = Bump(c)
         /\ doc' = Append(doc, [t |-> "prop", form |-> "ref", pred |-> c, tgt |-> Ref(o, base), o |-> o, olang |-> NewLang(la), obase |-> base, pattrs |-> <<>>, tattr |-> <<>>, lang |-> la, base |-> ba, rid |-> r])
  /\ UNCHANGED <<mode, n, tops, wrap>>
(* <p pa="text"/> : a fresh blank node with property attributes *)
FreshProp ==
  /\ InNode
  /\ \E c \in PredChoices, la \in LangAttrs, q \in IriTerms, i \in 1..NLit :
       LET s == Top.s  p == PredOf(c)  o == Gen(n + 1) IN
       \E r \in ReifChoices(CurBase) :
         /\ G' = G \cup {T(s, p, o), T(o, q, Lit(i, NewLang(la), 0))} \cup Reif(r, s, p, o)
         /\ ids' = IdsAfter(r, CurBase)
         /\ frames' = Bump(c)
         /\ doc' = Append(doc, [t |-> "prop", form |-> "ref", pred |-> c, tgt |-> [term |-> [k |-> "fresh"], rel |-> FALSE, id |-> FALSE], o |-> o, olang |-> NewLang(la), obase |-> CurBase,
                                 pattrs |-> <<[p |-> q, i |-> i]>>, tattr |-> <<>>, lang |-> la, base |-> KeepBase, rid |-> r])
  /\ n' = n + 1
  /\ UNCHANGED <<mode, tops, wrap>>
(* one more property attribute on the empty property element just written: it is about the OBJECT *)
PropAttr ==
  /\ mode = "node" /\ doc # <<>> /\ doc[Len(doc)].t = "prop" /\ doc[Len(doc)].form = "ref" /\ Len(doc[Len(doc)].pattrs) < 2
  /\ \/ \E q \in IriTerms, i \in 1..NLit :
          /\ \A x \in 1..Len(doc[Len(doc)].pattrs) : doc[Len(doc)].pattrs[x].p # q
          /\ G' = G \cup {T(doc[Len(doc)].o, q, Lit(i, doc[Len(doc)].olang, 0))}
          /\ doc' = [doc EXCEPT ![Len(doc)].pattrs = Append(@, [p |-> q, i |-> i])]
     \/ \E t \in IriTerms :          \* rdf:type="iri" : the object's type, an IRI reference resolved like any other
          /\ doc[Len(doc)].tattr = <<>>
          /\ G' = G \cup {T(doc[Len(doc)].o, Rdf("type"), t)}
          /\ doc' = [doc EXCEPT ![Len(doc)].tattr = <<Ref(t, doc[Len(doc)].obase)>>]
  /\ UNCHANGED <<mode, frames, n, tops, wrap, ids>>

(* <p rdf:parseType="Literal">text</p> : an rdf:XMLLiteral (text content only) *)
XmlLitProp ==
  /\ InNode
  /\ \E c \in PredChoices, i \in 1..NLit :
       LET s == Top.s  p == PredOf(c) IN
       /\ G' = G \cup {T(s, p, Lit(i, "", NDt + 1))}
       /\ frames' = Bump(c)
       /\ doc' = Append(doc, [t |-> "prop", form |-> "ptLiteral", pred |-> c, i |-> i, lang |-> "keep", base |-> KeepBase, rid |-> [on |-> FALSE]])
  /\ UNCHANGED <<mode, n, tops, wrap, ids>>

(* <p> node </p> : exactly one node element inside; the triple (and its reification) is asserted when the node is known *)
OpenNested ==
  /\ InNode /\ Depth + 1 < MaxDepth
  /\ \E c \in PredChoices, la \in LangAttrs, ba \in BaseAttrs :
       LET lang == NewLang(la)  base == NewBase(ba)  s == Top.s  p == PredOf(c) IN
       \E r \in ReifChoices(base) :
         /\ ids' = IdsAfter(r, base)
         /\ frames' = Append(Bump(c), [kind |-> "nested", p |-> p, filled |-> FALSE, lang |-> lang, base |-> base,
                                        reif |-> [o \in IriTerms \cup Labelled \cup {Gen(j) : j \in 1..(n + 1)} |-> Reif(r, s, p, o)]])
         /\ doc' = Append(doc, [t |-> "prop", form |-> "nested", pred |-> c, lang |-> la, base |-> ba, rid |-> r])
  /\ mode' = "nested"
  /\ UNCHANGED <<G, n, tops, wrap>>
CloseNested ==
  /\ mode = "nested" /\ Top.filled
  /\ frames' = SubSeq(frames, 1, Depth - 1) /\ doc' = Append(doc, [t |-> "/prop"]) /\ mode' = "node"
  /\ UNCHANGED <<G, n, tops, wrap, ids>>

(* <p rdf:parseType="Resource"> property elements </p> : a fresh blank node that behaves like a node element *)
OpenResource ==
  /\ InNode /\ Depth < MaxDepth
  /\ \E c \in PredChoices, la \in LangAttrs, ba \in BaseAttrs :
       LET lang == NewLang(la)  base == NewBase(ba)  s == Top.s  p == PredOf(c)  o == Gen(n + 1) IN
       \E r \in ReifChoices(base) :
         /\ G' = G \cup {T(s, p, o)} \cup Reif(r, s, p, o)
         /\ ids' = IdsAfter(r, base)
         /\ frames' = Append(Bump(c), [kind |-> "res", s |-> o, li |-> 0, lang |-> lang, base |-> base])
         /\ doc' = Append(doc, [t |-> "prop", form |-> "ptResource", pred |-> c, lang |-> la, base |-> ba, rid |-> r])
  /\ n' = n + 1 /\ mode' = "node"
  /\ UNCHANGED <<tops, wrap>>
CloseResource ==
  /\ mode = "node" /\ Top.kind = "res"
  /\ frames' = SubSeq(frames, 1, Depth - 1) /\ doc' = Append(doc, [t |-> "/prop"])
  /\ UNCHANGED <<mode, G, n, tops, wrap, ids>>

(* <p rdf:parseType="Collection"> node elements </p> : the list is asserted when the element closes *)
OpenColl ==
  /\ InNode /\ Depth + 1 < MaxDepth
  /\ \E c \in PredChoices, la \in LangAttrs, ba \in BaseAttrs :
       LET lang == NewLang(la)  base == NewBase(ba)  p == PredOf(c) IN
       \E r \in ReifChoices(base) :
         /\ ids' = IdsAfter(r, base)
         /\ frames' = Append(Bump(c), [kind |-> "coll", p |-> p, items |-> <<>>, lang |-> lang, base |-> base, rid |-> r, parent |-> Top.s])
         /\ doc' = Append(doc, [t |-> "prop", form |-> "ptCollection", pred |-> c, lang |-> la, base |-> ba, rid |-> r])
  /\ mode' = "coll"
  /\ UNCHANGED <<G, n, tops, wrap>>
CloseColl ==
  /\ mode = "coll"
  /\ LET f == Top  k == Len(f.items)
         cell(i) == Gen(n + i)
         head == IF k = 0 THEN Rdf("nil") ELSE cell(1)
         chain == {T(cell(i), Rdf("first"), f.items[i]) : i \in 1..k}
                  \cup {T(cell(i), Rdf("rest"), IF i = k THEN Rdf("nil") ELSE cell(i + 1)) : i \in 1..k}
     IN /\ G' = G \cup {T(f.parent, f.p, head)} \cup chain \cup Reif(f.rid, f.parent, f.p, head)
        /\ n' = n + k
  /\ frames' = SubSeq(frames, 1, Depth - 1) /\ doc' = Append(doc, [t |-> "/prop"]) /\ mode' = "node"
  /\ UNCHANGED <<tops, wrap, ids>>

Finish == /\ mode = "top" /\ tops >= 1 /\ wrap /\ doc[Len(doc)].t # "/rdf"
          /\ doc' = Append(doc, [t |-> "/rdf"]) /\ mode' = "done"
          /\ UNCHANGED <<frames, G, n, tops, wrap, ids>>

Next == OpenNode \/ NodeAttr \/ CloseNode \/ LitProp \/ RefProp \/ FreshProp \/ PropAttr \/ XmlLitProp \/ OpenNested \/ CloseNested \/ OpenResource \/ CloseResource \/ OpenColl \/ CloseColl \/ Finish
Spec == Init /\ [][Next]_vars

Finished == (wrap /\ mode = "done") \/ (~wrap /\ mode = "top" /\ tops = 1)
Export == IF Finished
          THEN PrintT(ToJson([doc |-> doc, quads |-> {[s |-> q[1], p |-> q[2], o |-> q[3], g |-> [k |-> "default"]] : q \in G}])) ELSE TRUE

(* bound for the exhaustive sanity run (the documents themselves come from simulation mode) *)
MCBound == TLCGet("level") <= 2

(* ---- sanity properties of the writer machine itself ------------------------------------------------ *)
WellFormedMeaning == \A q \in G : q[1].k \in {"iri", "bnode"} /\ q[2].k = "iri"
(* a plain literal carries the language in scope, a typed one never does *)
LangOnlyOnPlain == \A q \in G : q[3].k = "xlit" => (q[3].dt # 0 => q[3].lang = "")
(* rdf:li numbers under one subject have no gaps (the machine writes no explicit rdf:_n) *)
LiDense == \A q \in G, j \in 2..MaxTokens : q[2] = Li(j) => \E r \in G : r[1] = q[1] /\ r[2] = Li(j - 1)
NoDanglingCell == Finished => \A q \in G : (q[2] = Rdf("first")) => Cardinality({r \in G : r[1] = q[1] /\ r[2] = Rdf("rest")}) = 1
===============================================================================
