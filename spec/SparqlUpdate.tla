------------------------------ MODULE SparqlUpdate ------------------------------
(***************************************************************************)
(* C10 - SPARQL 1.1 Update as functions on the dataset (a function from    *)
(* graph name to a set of triples; "D" is the default graph).              *)
(* Operation records:                                                      *)
(*   [u |-> "insertdata" | "deletedata", quads]    quads: <<s, p, o, g>>   *)
(*   [u |-> "modify", with, del, ins, using, usingnamed, where]            *)
(*        del / ins: template quads whose 4th component is "" (the WITH    *)
(*        graph or the default graph), a graph name, or a variable record  *)
(*   [u |-> "deletewhere", quads]  == modify with del = quads, where = them*)
(*   [u |-> "clear" | "drop", target]   target: "DEFAULT","NAMED","ALL",g  *)
(*   [u |-> "add" | "move" | "copy", from, to]     "DEFAULT" or graph name *)
(* Fresh blank nodes minted for INSERT templates are [k |-> "bnode",       *)
(* v |-> label, i |-> solution index]: fresh per solution, shared between  *)
(* all template quads of one solution.                                     *)
(***************************************************************************)
EXTENDS Sparql

QT(q) == <<q[1], q[2], q[3]>>
DPut(D, n, T) == [m \in DOMAIN D \cup {n} |-> IF m = n THEN T ELSE D[m]]
DQuads(D) == UNION {{<<t[1], t[2], t[3], n>> : t \in D[n]} : n \in DOMAIN D}
AddQuads(D, Q) == [m \in DOMAIN D \cup {q[4] : q \in Q} |-> DGet(D, m) \cup {QT(q) : q \in {r \in Q : r[4] = m}}]
DelQuads(D, Q) == [m \in DOMAIN D |-> D[m] \ {QT(q) : q \in {r \in Q : r[4] = m}}]
GName(x) == IF x = "DEFAULT" THEN "D" ELSE x

(* the dataset a WHERE clause is evaluated against *)
WhereCtx(D, u, c) ==
  \* named deviation KF_C10_using_named (c.dev3): USING NAMED is ignored - every named graph of the dataset stays visible
  \* to GRAPH patterns, and USING NAMED alone does not replace the default graph
  IF c.dev3 /\ Len(u.using) > 0
  THEN [c EXCEPT !.D = [n \in DOMAIN D |-> IF n = "D" THEN UNION {DGet(D, g) : g \in SToSet(u.using)} ELSE D[n]],
                 !.active = UNION {DGet(D, g) : g \in SToSet(u.using)}]
  ELSE IF c.dev3 /\ Len(u.usingnamed) > 0
  THEN (IF u.with # "" THEN [c EXCEPT !.D = D, !.active = DGet(D, u.with)]
        ELSE [c EXCEPT !.D = D, !.active = IF c.union THEN DUnion(D) ELSE DGet(D, "D")])
  ELSE IF Len(u.using) > 0 \/ Len(u.usingnamed) > 0
  THEN [c EXCEPT !.D = [n \in {"D"} \cup SToSet(u.usingnamed) |-> IF n = "D" THEN UNION {DGet(D, g) : g \in SToSet(u.using)} ELSE DGet(D, n)],
                 !.active = UNION {DGet(D, g) : g \in SToSet(u.using)}]
  ELSE IF u.with # "" THEN [c EXCEPT !.D = D, !.active = DGet(D, u.with)]
  ELSE [c EXCEPT !.D = D, !.active = IF c.union THEN DUnion(D) ELSE DGet(D, "D")]

(* instantiate one template quad under solution mu (index i); "skip" when unbound or not an RDF triple *)
InstPos(x, mu, i) == IF IsVar(x) THEN (IF x.v \in DOMAIN mu THEN mu[x.v] ELSE Err)
                     ELSE IF x.k = "bnode" THEN [k |-> "bnode", v |-> x.v, i |-> i] ELSE x
(* the 4th component of an operation quad is [k |-> "g", v |-> name] ("" = the WITH graph / the default graph) or a variable *)
TargetOf(g, mu, w) == IF g.k = "g" THEN (IF g.v = "" THEN (IF w # "" THEN w ELSE "D") ELSE g.v)
                      ELSE IF g.v \in DOMAIN mu /\ mu[g.v].k = "iri" THEN mu[g.v].v ELSE "<skip>"
InstQuads(tpl, Om, w) ==
  {q \in {<<InstPos(tpl[j][1], Om[i], i), InstPos(tpl[j][2], Om[i], i), InstPos(tpl[j][3], Om[i], i), TargetOf(tpl[j][4], Om[i], w)>> :
            i \in 1..Len(Om), j \in 1..Len(tpl)} :
      ~IsErr(q[1]) /\ ~IsErr(q[2]) /\ ~IsErr(q[3]) /\ ~IsLit(q[1]) /\ q[2].k = "iri" /\ q[4] # "<skip>"}

QuadGroup(quads) ==       \* DELETE WHERE { quads }: the quad pattern read as a group graph pattern
  [elts |-> [j \in 1..Len(quads) |->
      IF quads[j][4].k = "g" /\ quads[j][4].v = "" THEN [t |-> "bgp", tps |-> <<QT(quads[j])>>]
      ELSE [t |-> "graph", name |-> IF quads[j][4].k = "g" THEN [k |-> "iri", v |-> quads[j][4].v] ELSE quads[j][4],
            g |-> [elts |-> <<[t |-> "bgp", tps |-> <<QT(quads[j])>>]>>]]]]
(* blank nodes written in INSERT DATA are fresh, one per label for the whole operation *)
FreshB(x) == IF x.k = "bnode" THEN [k |-> "bnode", v |-> x.v, i |-> 0] ELSE x
DataQuads(qs) == {<<FreshB(q[1]), q[2], FreshB(q[3]), IF q[4].v = "" THEN "D" ELSE q[4].v>> : q \in SToSet(qs)}

Modify(D, u, c) ==
  LET Om   == EvalGroup(u.where, WhereCtx(D, u, c), EmptyMu)       \* evaluated ONCE on the state before the operation
      dels == InstQuads(u.del, Om, u.with)
      inss == InstQuads(u.ins, Om, u.with)
  IN AddQuads(DelQuads(D, dels), inss)                              \* all deletions before any insertion

ClearTargets(D, t) == CASE t = "DEFAULT" -> {"D"} [] t = "NAMED" -> DOMAIN D \ {"D"} [] t = "ALL" -> DOMAIN D [] OTHER -> {t}
ApplyOp(D, u, c) ==
  CASE u.u = "insertdata"  -> AddQuads(D, DataQuads(u.quads))
    [] u.u = "deletedata"  -> DelQuads(D, DataQuads(u.quads))
    [] u.u = "modify"      -> Modify(D, u, c)
    [] u.u = "deletewhere" -> Modify(D, [with |-> "", del |-> u.quads, ins |-> <<>>, using |-> <<>>, usingnamed |-> <<>>, where |-> QuadGroup(u.quads)], c)
    [] u.u \in {"clear", "drop"} -> [m \in DOMAIN D |-> IF m \in ClearTargets(D, u.target) THEN {} ELSE D[m]]
    [] u.u = "add"  -> IF GName(u.from) = GName(u.to) THEN D ELSE DPut(D, GName(u.to), DGet(D, GName(u.to)) \cup DGet(D, GName(u.from)))
    [] u.u = "copy" -> IF GName(u.from) = GName(u.to) THEN D ELSE DPut(D, GName(u.to), DGet(D, GName(u.from)))
    [] u.u = "move" -> IF GName(u.from) = GName(u.to) THEN D
                       ELSE DPut(DPut(D, GName(u.to), DGet(D, GName(u.from))), GName(u.from), {})
RECURSIVE ApplyOps(_, _, _, _)
ApplyOps(D, ops, i, c) == IF i > Len(ops) THEN D ELSE ApplyOps(ApplyOp(D, ops[i], c), ops, i + 1, c)      \* operations of a request run in order

(* ---- comparison up to the identity of freshly minted blank nodes ------------------------------ *)
IsFreshE(x) == x.k = "bnode" /\ "i" \in DOMAIN x
FreshE(Q) == {q[j] : q \in Q, j \in 1..3} \cap {x \in {q[j] : q \in Q, j \in 1..3} : IsFreshE(x)}
IsFreshO(x) == x.k = "bnode" /\ "fresh" \in DOMAIN x
FreshO(Q) == {x \in {q[j] : q \in Q, j \in 1..3} : IsFreshO(x)}
RenQ(q, f) == <<IF q[1] \in DOMAIN f THEN f[q[1]] ELSE q[1], q[2], IF q[3] \in DOMAIN f THEN f[q[3]] ELSE q[3], q[4]>>
(* expected E (with fresh [.. i ..] nodes) equals observed O (with fresh [.. fresh ..] nodes) under some bijection *)
QuadsIso(E, O) ==
  LET FE == FreshE(E)  FO == FreshO(O) IN
  /\ Cardinality(FE) = Cardinality(FO)
  /\ \E f \in {g \in [FE -> FO] : \A a, b \in FE : a # b => g[a] # g[b]} : {RenQ(q, f) : q \in E} = O

(* ---- properties of the semantics itself (checked by MCSparqlUpdate) ----------------------------- *)
Untouched(D, D2, names) == \A n \in DOMAIN D \ names : DGet(D2, n) = D[n]
===============================================================================
