SPECIFICATION Spec
CONSTANTS
  N = 3
  MaxEdges = 4
  ExportMode = FALSE
INVARIANT Inv_Reflexive
INVARIANT Inv_Relabel
INVARIANT Inv_EdgeSensitive
CHECK_DEADLOCK FALSE
