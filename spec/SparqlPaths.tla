------------------------------- MODULE SparqlPaths -------------------------------
(***************************************************************************)
(* C11 - property paths denote relations (SPARQL 1.1, section 18.4 and the *)
(* path translation of 18.2.2.x).  Constant-level definitions only; used   *)
(* by MCSparqlPaths (laws, double entry, enumeration of the input space)   *)
(* and by TraceQuery (judging what rdflib returned).                       *)
(*                                                                         *)
(* A path is a record: [op |-> "iri", iri], [op |-> "inv", arg],           *)
(* [op |-> "seq" | "alt", args (sequence)], [op |-> "star"|"plus"|"opt",   *)
(* arg], [op |-> "neg", fwd (seq of iris), inv (seq of iris)].             *)
(* A graph is a set of triples <<s, p, o>>.                                *)
(***************************************************************************)
EXTENDS Naturals, Sequences, FiniteSets

PSeqToSet(s) == {s[i] : i \in 1..Len(s)}
NodesOf(G) == {t[1] : t \in G} \cup {t[3] : t \in G}
Id(N) == {<<n, n>> : n \in N}
Conv(R) == {<<x[2], x[1]>> : x \in R}
Comp(R, Q) == {<<z[1][1], z[2][2]>> : z \in {w \in R \X Q : w[1][2] = w[2][1]}}

(* transitive closure as a least fixed point *)
RECURSIVE TCFix(_, _)
TCFix(R, Acc) == LET Nxt == Acc \cup Comp(Acc, R) IN IF Nxt = Acc THEN Acc ELSE TCFix(R, Nxt)
TC(R) == TCFix(R, R)

(* second, independent formulation: there is a walk of length 1..|nodes| *)
RECURSIVE WalkK(_, _)
WalkK(R, k) == IF k = 1 THEN R ELSE Comp(WalkK(R, k - 1), R)
TCWalk(R) == LET n == Cardinality({x[1] : x \in R} \cup {x[2] : x \in R})
             IN UNION {WalkK(R, k) : k \in 1..(IF n = 0 THEN 1 ELSE n)}

Edge(G, p)   == {<<t[1], t[3]>> : t \in {u \in G : u[2] = p}}
NotIn(G, ps) == {<<t[1], t[3]>> : t \in {u \in G : u[2] \notin ps}}

RECURSIVE RelD(_, _, _, _)
RECURSIVE RelSeq(_, _, _, _, _)
RECURSIVE RelAlt(_, _, _, _, _)
(* N: the terms that have a zero-length path to themselves (nodes of the graph and the given end terms) *)
(* dev = TRUE switches the negated property set to the named deviation KF_C11_neg_inverse (what paths.py does
   at the pinned commit: only forward edges are considered, an inverse member ^b excludes the pair (s, o) when
   the graph has the triple (o, b, s)); dev = FALSE is SPARQL 1.1 *)
NegDev(G, path) == {<<t[1], t[3]>> : t \in {u \in G : u[2] \notin PSeqToSet(path.fwd)
                                                      /\ \A b \in PSeqToSet(path.inv) : <<u[3], b, u[1]>> \notin G}}
RelD(path, G, N, dev) ==
  CASE path.op = "iri"  -> Edge(G, path.iri)
    [] path.op = "inv"  -> Conv(RelD(path.arg, G, N, dev))
    [] path.op = "seq"  -> RelSeq(path.args, 1, G, N, dev)
    [] path.op = "alt"  -> RelAlt(path.args, 1, G, N, dev)
    [] path.op = "star" -> Id(N) \cup TC(RelD(path.arg, G, N, dev))
    [] path.op = "plus" -> TC(RelD(path.arg, G, N, dev))
    [] path.op = "opt"  -> Id(N) \cup RelD(path.arg, G, N, dev)
    [] path.op = "neg"  -> IF dev /\ Len(path.inv) > 0 THEN NegDev(G, path)
                           ELSE (IF Len(path.fwd) > 0 \/ Len(path.inv) = 0 THEN NotIn(G, PSeqToSet(path.fwd)) ELSE {})
                                \cup (IF Len(path.inv) > 0 THEN Conv(NotIn(G, PSeqToSet(path.inv))) ELSE {})
RelSeq(args, i, G, N, dev) == IF i = Len(args) THEN RelD(args[i], G, N, dev) ELSE Comp(RelD(args[i], G, N, dev), RelSeq(args, i + 1, G, N, dev))
RelAlt(args, i, G, N, dev) == IF i = Len(args) THEN RelD(args[i], G, N, dev) ELSE RelD(args[i], G, N, dev) \cup RelAlt(args, i + 1, G, N, dev)
Rel(path, G, N) == RelD(path, G, N, FALSE)

RECURSIVE HasNegInv(_)
HasNegInv(path) == CASE path.op = "neg" -> Len(path.inv) > 0
                     [] path.op \in {"inv", "star", "plus", "opt"} -> HasNegInv(path.arg)
                     [] path.op \in {"seq", "alt"} -> \E i \in 1..Len(path.args) : HasNegInv(path.args[i])
                     [] OTHER -> FALSE

(* S, O: the given end terms as sets - {} for an unbound end, {t} for a bound one *)
Restrict(R, S, O) == {x \in R : (S = {} \/ x[1] \in S) /\ (O = {} \/ x[2] \in O)}
(* the relation a (s, path, o) pattern denotes *)
PathAnswer(path, G, S, O) == Restrict(Rel(path, G, NodesOf(G) \cup S \cup O), S, O)
PathAnswerDev(path, G, S, O) == Restrict(RelD(path, G, NodesOf(G) \cup S \cup O, TRUE), S, O)
IsClosure(path) == path.op \in {"star", "plus", "opt"}
===============================================================================
