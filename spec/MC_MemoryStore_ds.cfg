SPECIFICATION Spec
CONSTANTS
  S = {"s1"}
  P = {"p1"}
  O = {"o1", "o2"}
  Names = {"g1", "g2", "g3"}
  MaxIters = 0
  Depth = 1000
  HasCtxFallback = FALSE
  Witness = FALSE
INVARIANT Inv_IndexCoherence
INVARIANT Inv_NoRaise
INVARIANT Inv_ReadsAgree
INVARIANT Inv_LenAgrees
INVARIANT Inv_ContextsAgree
PROPERTY Prop_Refines
VIEW View
CHECK_DEADLOCK FALSE
