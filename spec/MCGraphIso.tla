------------------------------ MODULE MCGraphIso ------------------------------
(* Model-side checks of GraphIso.tla and enumeration of small blank-node graphs for C14:
   Iso is reflexive, symmetric, invariant under every relabelling, and sensitive to one removed edge. *)
EXTENDS GraphIso, TLC, Json
CONSTANTS N, MaxEdges, ExportMode
B(i) == [k |-> "bnode", v |-> "b" \o ToString(i)]
P == [k |-> "iri", v |-> "p"]
Edges == {<<B(i), P, B(j)>> : i \in 1..N, j \in 1..N}
Graphs == {g \in SUBSET Edges : Cardinality(g) \in 1..MaxEdges}
VARIABLES g
Init == g \in Graphs
Next == UNCHANGED g
Spec == Init /\ [][Next]_g
Nodes == {B(i) : i \in 1..N}
Inv_Reflexive == Iso(g, g)
Inv_Relabel == \A f \in Bijections(Nodes, Nodes) : Iso(g, Rename3(g, f)) /\ Iso(Rename3(g, f), g)
Inv_EdgeSensitive == \A t \in g : ~Iso(g, g \ {t})
Export == IF ExportMode THEN PrintT(ToJson(g)) ELSE TRUE
===============================================================================
