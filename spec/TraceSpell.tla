------------------------------- MODULE TraceSpell -------------------------------
(***************************************************************************)
(* C05 - trace validation.                                                 *)
(*  spell{fmt, expected, routes}  a document rendered from a behaviour of  *)
(*        TurtleSpelling.tla (or by the RDF/XML / JSON-LD spelling writers)*)
(*        was handed to rdflib by several routes (str, bytes, binary and   *)
(*        text file objects, path, pathlib.Path); `expected` is the set of *)
(*        quads the document means (the G of the writer machine, made      *)
(*        concrete); every route must parse and give a dataset isomorphic  *)
(*        to it.                                                           *)
(*  ntout{fmt, quads, lines, expected}  rdflib's N-Triples / N-Quads       *)
(*        output, one sequence of code points per line: every line must be *)
(*        accepted by the strict grammar (NTriplesGrammar.tla) and the     *)
(*        decoded statements must be isomorphic to the source dataset.     *)
(*  wf{fmt, wellformed}  XML / JSON output read by the stdlib parsers.     *)
(***************************************************************************)
EXTENDS GraphIso, NTriplesGrammar, TLC, Json, IOUtils
Batch == ndJsonDeserialize(IOEnv.TRACE_FILE)
Devs  == LET d == JsonDeserialize(IOEnv.DEVS_FILE) IN {d[i] : i \in 1..Len(d)}
VARIABLES k, l, verdict
vars == <<k, l, verdict>>
S(s) == {s[i] : i \in 1..Len(s)}
T4(x) == {<<t[1], t[2], t[3], t[4]>> : t \in S(x)}
Has(r, f) == f \in DOMAIN r

RECURSIVE RouteVerdict(_, _, _)
RouteVerdict(e, i, exp) ==
  IF i > Len(e.routes) THEN "ok"
  ELSE LET r == e.routes[i] IN
       IF r.res # "ok" THEN "ParseRaised:" \o e.fmt \o ":" \o r.route
       ELSE IF ~IsoDs(T4(r.quads), exp) THEN (IF i = 1 THEN "ReadsSpelling:" \o e.fmt ELSE "RoutesAgree:" \o e.fmt \o ":" \o r.route)
       ELSE RouteVerdict(e, i + 1, exp)

Judge(e) ==
  CASE e.op = "spell" -> RouteVerdict(e, 1, T4(e.expected))
    [] e.op = "ntout" ->
         IF e.res # "ok" THEN "SerializeRaised:" \o e.fmt
         ELSE IF \E i \in 1..Len(e.lines) : ~LineOK(e.lines[i], e.quads) THEN "StrictGrammarAccepts:" \o e.fmt
         ELSE IF ~IsoDs(Quads(e.lines, e.quads), T4(e.expected)) THEN "MeansSameGraph:" \o e.fmt
         ELSE "ok"
    [] e.op = "wf" -> IF e.res # "ok" THEN "SerializeRaised:" \o e.fmt ELSE IF e.wellformed THEN "ok" ELSE "WellFormedOutput:" \o e.fmt
    [] OTHER -> "UnknownEvent"

Init == k = 1 /\ l = 1 /\ verdict = "ok"
Step == /\ k <= Len(Batch) /\ verdict = "ok" /\ l <= Len(Batch[k].ev)
        /\ LET v == Judge(Batch[k].ev[l])
           IN IF v = "ok" THEN l' = l + 1 /\ UNCHANGED <<k, verdict>> ELSE verdict' = v /\ UNCHANGED <<k, l>>
NextTrace == /\ k <= Len(Batch) /\ (verdict # "ok" \/ l > Len(Batch[k].ev))
             /\ PrintT(<<"VERDICT", Batch[k].tid, verdict, l>>)
             /\ k' = k + 1 /\ l' = 1 /\ verdict' = "ok"
TraceSpec == Init /\ [][Step \/ NextTrace]_vars
===============================================================================
