SPECIFICATION Spec
CONSTANTS
  Wrappers = {"w1", "w2"}
  Own <- Own2s
  Names = {"g1", "g2"}
  Variant = "cancelling"
  Depth = 1000
  InitContents <- InitAll
PROPERTY Prop_RollbackRestores
PROPERTY Prop_CommitKeeps
PROPERTY Prop_SecondRollbackNoop
PROPERTY Prop_SingleRestores
PROPERTY Prop_OtherIntact
INVARIANT Inv_LogDiscipline
VIEW View
CHECK_DEADLOCK FALSE
