---------------------------- MODULE TraceAuditable ----------------------------
(***************************************************************************)
(* Tier T for C18: validates recorded executions of AuditableStore         *)
(* wrapper(s) over a Memory store against the property (tier P of          *)
(* Auditable.tla): after every call the wrapped store's quads must be the  *)
(* post-state the property prescribes - add/remove act as on the plain     *)
(* store, commit keeps, rollback restores exactly what the transaction     *)
(* touched (to the content at transaction start) and nothing else.         *)
(***************************************************************************)
EXTENDS StoreOps, TLC, Json, IOUtils

Batch == ndJsonDeserialize(IOEnv.TRACE_FILE)

VARIABLES k, l, st, verdict
vars == <<k, l, st, verdict>>

Has(r, f) == f \in DOMAIN r
T3(q) == <<q[1], q[2], q[3]>>
NoSnap == "none"
St0 == [G |-> EmptyDs, snap |-> <<>>, touched |-> <<>>]      \* snap, touched : functions wrapper -> ...

FGet(f, w, d) == IF w \in DOMAIN f THEN f[w] ELSE d
FPut(f, w, x) == [v \in DOMAIN f \cup {w} |-> IF v = w THEN x ELSE f[v]]

(* a quad is touched by a transaction iff one of its operations named it (pattern and graph) *)
Touched(TP, t, n) == \E x \in TP : Match(x[1], t) /\ (x[2] = ALLG \/ x[2] = n)
PRollbackP(G, S, TP) ==
  [n \in DOMAIN G \cup DOMAIN S |->
      {t \in GGet(G, n) : ~Touched(TP, t, n)} \cup {t \in GGet(S, n) : Touched(TP, t, n)}]

FDrop(f, w) == [v \in DOMAIN f \ {w} |-> f[v]]
Begin(s, w) == IF w \notin DOMAIN s.snap THEN FPut(s.snap, w, s.G) ELSE s.snap

ApplyEv(s, e) ==
  CASE e.op = "init" -> [s EXCEPT !.G = PAddQuads(EmptyDs, SeqToSet(e.quads))]
    [] e.op = "tx_add" -> [G |-> PAdd(s.G, e.g, e.t), snap |-> Begin(s, e.w),
                           touched |-> FPut(s.touched, e.w, FGet(s.touched, e.w, {}) \cup {<<e.t, e.g>>})]
    [] e.op = "tx_addN" -> [G |-> PAddQuads(s.G, SeqToSet(e.quads)), snap |-> Begin(s, e.w),
                            touched |-> FPut(s.touched, e.w, FGet(s.touched, e.w, {}) \cup {<<T3(q), q[4]>> : q \in SeqToSet(e.quads)})]
    [] e.op = "tx_remove" -> [G |-> PRemove(s.G, e.g, e.pat), snap |-> Begin(s, e.w),
                              touched |-> FPut(s.touched, e.w, FGet(s.touched, e.w, {}) \cup {<<e.pat, e.g>>})]
    [] e.op = "commit" -> [G |-> s.G, snap |-> FDrop(s.snap, e.w), touched |-> FPut(s.touched, e.w, {})]
    [] e.op = "rollback" ->
         [G |-> IF e.w \notin DOMAIN s.snap THEN s.G
                ELSE PRollbackP(s.G, s.snap[e.w], FGet(s.touched, e.w, {})),
          snap |-> FDrop(s.snap, e.w), touched |-> FPut(s.touched, e.w, {})]
    [] OTHER -> s

Clause(e) == CASE e.op = "rollback" -> "RollbackRestores"
               [] e.op = "commit"   -> "CommitKeeps"
               [] e.op = "init"     -> "InitContent"
               [] OTHER             -> "StoreEffect"

Judge(s, e) ==
  IF e.op \notin {"init", "tx_add", "tx_addN", "tx_remove", "commit", "rollback"} THEN "UnknownEvent"
  ELSE IF Has(e, "raise") THEN "OpRaised"
  ELSE IF ~Has(e, "base") THEN "ok"
  ELSE LET s2 == ApplyEv(s, e) IN
       IF SeqToSet(e.base) # GQuads(s2.G) THEN Clause(e)
       ELSE IF ~NoDup(e.base) THEN "NoDuplicates"
       ELSE "ok"

Init == k = 1 /\ l = 1 /\ st = St0 /\ verdict = "ok"
Step == /\ k <= Len(Batch) /\ verdict = "ok" /\ l <= Len(Batch[k].ev)
        /\ LET e == Batch[k].ev[l]
               v == Judge(st, e)
           IN IF v = "ok"
              THEN st' = ApplyEv(st, e) /\ l' = l + 1 /\ UNCHANGED <<k, verdict>>
              ELSE verdict' = v /\ UNCHANGED <<k, l, st>>
NextTrace == /\ k <= Len(Batch) /\ (verdict # "ok" \/ l > Len(Batch[k].ev))
             /\ PrintT(<<"VERDICT", Batch[k].tid, verdict, l>>)
             /\ k' = k + 1 /\ l' = 1 /\ st' = St0 /\ verdict' = "ok"
TraceSpec == Init /\ [][Step \/ NextTrace]_vars
===============================================================================
