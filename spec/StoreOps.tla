------------------------------- MODULE StoreOps -------------------------------
(***************************************************************************)
(* Constant-level vocabulary shared by the property spec (TripleStore),    *)
(* the implementation-shaped spec (MemoryStore), the transactional spec    *)
(* (Auditable) and the trace specs.  A dataset is a function from graph    *)
(* name to a set of triples; a triple is a 3-tuple of terms; a pattern is  *)
(* a 3-tuple whose components may be the wildcard.                         *)
(***************************************************************************)
EXTENDS Naturals, Sequences, FiniteSets

Wild    == "_"        \* wildcard in patterns (None in rdflib)
DEFAULT == "D"        \* the default graph (None / urn:x-rdflib:default in rdflib)
ALLG    == "*"        \* "no graph given": the operation ranges over all graphs

Match(pat, t) == \A i \in 1..3 : pat[i] = Wild \/ pat[i] = t[i]
Sel(T, pat)   == {t \in T : Match(pat, t)}
Shape(pat)    == <<pat[1] # Wild, pat[2] # Wild, pat[3] # Wild>>

SeqToSet(s)   == {s[i] : i \in 1..Len(s)}
NoDup(s)      == Cardinality(SeqToSet(s)) = Len(s)

GGet(G, n)    == IF n \in DOMAIN G THEN G[n] ELSE {}
GPut(G, n, T) == [m \in (DOMAIN G) \cup {n} |-> IF m = n THEN T ELSE G[m]]
GDrop(G, n)   == [m \in (DOMAIN G) \ {n} |-> G[m]]
GUnion(G)     == UNION {G[n] : n \in DOMAIN G}
GQuads(G)     == UNION {{<<t[1], t[2], t[3], n>> : t \in G[n]} : n \in DOMAIN G}
EmptyDs       == [n \in {DEFAULT} |-> {}]

(* ---- post-states of the mutating API calls ---------------------------- *)
PAdd(G, n, t)        == GPut(G, n, GGet(G, n) \cup {t})
PAddAll(G, n, T)     == GPut(G, n, GGet(G, n) \cup T)
PAddQuads(G, Q)      == [m \in (DOMAIN G) \cup {q[4] : q \in Q} |->
                            GGet(G, m) \cup {<<q[1], q[2], q[3]>> : q \in {r \in Q : r[4] = m}}]
PRemove(G, n, pat)   == IF n = ALLG THEN [m \in DOMAIN G |-> G[m] \ Sel(G[m], pat)]
                        ELSE IF n \in DOMAIN G THEN [G EXCEPT ![n] = @ \ Sel(@, pat)] ELSE G
PRemoveAll(G, n, T)  == IF n \in DOMAIN G THEN [G EXCEPT ![n] = @ \ T] ELSE G
PSet(G, n, t)        == PAdd(PRemove(G, n, <<t[1], t[2], Wild>>), n, t)
PGraph(G, n)         == GPut(G, n, GGet(G, n))
PRemoveGraph(G, n)   == IF n = DEFAULT THEN GPut(G, DEFAULT, {}) ELSE GDrop(G, n)

SetOp(o, A, B) == CASE o = "+" -> A \cup B
                    [] o = "-" -> A \ B
                    [] o = "*" -> A \cap B
                    [] o = "^" -> (A \ B) \cup (B \ A)
===============================================================================
