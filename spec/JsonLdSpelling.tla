---------------------------- MODULE JsonLdSpelling ----------------------------
(***************************************************************************)
(* C05 - the writer's side of JSON-LD 1.1 (a document an author or another *)
(* tool might send) as a state machine, the counterpart of                 *)
(* TurtleSpelling.tla and RdfXmlSpelling.tla.  A behaviour writes one      *)
(* document, node object by node object, making at every step one of the   *)
(* choices the syntax leaves open:                                         *)
(*   context     a top-level @context, and embedded ones on nested node    *)
(*               objects: prefix definitions, @vocab, @base, @language,    *)
(*               term definitions - plain, with @type @id / @vocab / a     *)
(*               datatype, with @language, with @container @list / @set    *)
(*   node        @id absolute / relative to the base in force / compact /  *)
(*               a blank node label / absent (fresh blank node); @type     *)
(*   key         a term, a compact IRI, a vocabulary-relative name, the    *)
(*               absolute IRI                                              *)
(*   value       a JSON string (whose meaning depends on the term's        *)
(*               coercion and the language in force), a native number or   *)
(*               boolean, a value object, a node reference, an embedded    *)
(*               node object, @list / @set objects, arrays                 *)
(*   graphs      a top-level @graph, named graphs {"@id" .. "@graph" ..}   *)
(* and maintains, next to the token list `doc`, the set of quads `G` the   *)
(* document MEANS under the JSON-LD 1.1 expansion and RDF-deserialisation  *)
(* algorithms (restricted to what the tokens can spell).                   *)
(* The environment `env` in force at a node object is a record             *)
(*   [pfx : prefix -> namespace | 0, vocab : namespace | 0,                *)
(*    base : namespace | 0, lang : tag | "", terms : term -> definition]   *)
(* inherited by nested node objects unless they carry a context of their   *)
(* own, which is applied on top of it.                                     *)
(***************************************************************************)
EXTENDS Naturals, Sequences, FiniteSets, TLC, Json

CONSTANTS NNs,          \* namespaces 1..NNs
          Locals,       \* abstract local names
          NLit,         \* literal texts 1..NLit
          Pfx,          \* prefix labels
          Langs,        \* language tags
          MaxNodes, MaxDepth, MaxTokens

VARIABLES mode, frames, doc, G, n, tops, root
vars == <<mode, frames, doc, G, n, tops, root>>

Iri(ns, l) == [k |-> "iri", ns |-> ns, l |-> l]
Rdf(l) == Iri(0, l)
IriTerms == {Iri(ns, l) : ns \in 1..NNs, l \in Locals}
Labelled == {[k |-> "bnode", v |-> "b1"], [k |-> "bnode", v |-> "b2"]}
Gen(i) == [k |-> "bnode", v |-> "g" \o ToString(i)]
(* literals: text i; kind "plain" (lang may be set), "dt" (datatype d), "int" / "bool" / "double" native *)
Plain(i, lang) == [k |-> "jlit", i |-> i, kind |-> "plain", lang |-> lang, dt |-> 0]
Typed(i, d) == [k |-> "jlit", i |-> i, kind |-> "dt", lang |-> "", dt |-> d]
Native(kind, i) == [k |-> "jlit", i |-> i, kind |-> kind, lang |-> "", dt |-> 0]
Default == [k |-> "default"]
LitMark == [k |-> "litmark"]
Q(s, p, o, g) == <<s, p, o, g>>

(* ---- term definitions ---------------------------------------------------------------------------- *)
(* a definition: [iri, coerce: "none" | "id" | "vocab" | "dt", dt, lang: "<none>" | tag | "", container: "none" | "list" | "set"] *)
NoLang == "<none>"
Coercions == {"none", "id", "dt", "lang", "list", "set"}
Def(t, c) == [iri |-> t, coerce |-> IF c \in {"id", "dt"} THEN c ELSE "none", dt |-> IF c = "dt" THEN 1 ELSE 0,
              lang |-> IF c = "lang" THEN (CHOOSE l \in Langs : TRUE) ELSE NoLang, container |-> IF c \in {"list", "set"} THEN c ELSE "none"]
TermNames == {"t1", "t2"}
EmptyEnv == [pfx |-> [p \in Pfx |-> 0], vocab |-> 0, base |-> 0, lang |-> "", terms |-> [t \in TermNames |-> [iri |-> Rdf("none")]]]
Defined(env, t) == env.terms[t].iri # Rdf("none")

Top == frames[Len(frames)]
Env == Top.env
Depth == Len(frames)
Room == Len(doc) < MaxTokens

(* the ways an IRI may be spelt in the environment in force, as flags on the token (the renderer picks among the legal ones):
   compact with a prefix bound to its namespace; relative to the base (document-relative reference); vocabulary-relative *)
IriSp(t, env, vocabPos) ==
  [term |-> t,
   pfx  |-> {p \in Pfx : t.k = "iri" /\ env.pfx[p] = t.ns /\ t.ns # 0},
   rel  |-> t.k = "iri" /\ env.base # 0 /\ env.base = t.ns /\ ~vocabPos,
   voc  |-> t.k = "iri" /\ vocabPos /\ env.vocab # 0 /\ env.vocab = t.ns,
   terms |-> {x \in TermNames : vocabPos /\ Defined(env, x) /\ env.terms[x].iri = t /\ env.terms[x].coerce = "none" /\ env.terms[x].container = "none" /\ env.terms[x].lang = NoLang}]

(* ---- contexts ------------------------------------------------------------------------------------ *)
(* one context object: a set of entries applied in this order: @base, @vocab, @language, prefixes, terms *)
TermDefs == {[c |-> "term", t |-> "t1", iri |-> i, how |-> h] : i \in IriTerms, h \in Coercions}
            \cup {[c |-> "term", t |-> "t2", iri |-> Iri(1, CHOOSE l \in Locals : TRUE), how |-> h] : h \in Coercions}
P1 == CHOOSE p \in Pfx : TRUE
CtxChoices ==        \* the document's context
  {<<>>}
  \cup {<<[c |-> "pfx", p |-> p, ns |-> ns]>> : p \in Pfx, ns \in 1..NNs}
  \cup {<<[c |-> "vocab", ns |-> ns]>> : ns \in 0..NNs}
  \cup {<<[c |-> "base", ns |-> ns]>> : ns \in 1..NNs}
  \cup {<<[c |-> "lang", l |-> l]>> : l \in Langs \cup {""}}
  \cup {<<d>> : d \in TermDefs}
  \cup {<<[c |-> "pfx", p |-> P1, ns |-> ns], d>> : ns \in 1..NNs, d \in TermDefs}
  \cup {<<[c |-> "vocab", ns |-> ns], [c |-> "lang", l |-> l]>> : ns \in 1..NNs, l \in Langs}
  \cup {<<[c |-> "base", ns |-> ns], [c |-> "vocab", ns |-> ns2], d>> : ns \in 1..2, ns2 \in 1..2, d \in {x \in TermDefs : x.t = "t2"}}
NestedCtx ==         \* a context embedded in a nested node object: it changes one thing on top of what it inherits
  {<<>>, <<>>, <<>>}
  \cup {<<[c |-> "pfx", p |-> P1, ns |-> ns]>> : ns \in 1..NNs}
  \cup {<<[c |-> "vocab", ns |-> ns]>> : ns \in 0..NNs}
  \cup {<<[c |-> "base", ns |-> ns]>> : ns \in 1..NNs}
  \cup {<<[c |-> "lang", l |-> l]>> : l \in Langs \cup {""}}
  \cup {<<d>> : d \in {x \in TermDefs : x.t = "t2"}}
ApplyEntry(env, e) ==
  CASE e.c = "pfx"   -> [env EXCEPT !.pfx[e.p] = e.ns]
    [] e.c = "vocab" -> [env EXCEPT !.vocab = e.ns]
    [] e.c = "base"  -> [env EXCEPT !.base = e.ns]
    [] e.c = "lang"  -> [env EXCEPT !.lang = e.l]
    [] e.c = "term"  -> [env EXCEPT !.terms[e.t] = Def(e.iri, e.how)]
RECURSIVE ApplyCtx(_, _, _)
ApplyCtx(env, ctx, i) == IF i > Len(ctx) THEN env ELSE ApplyCtx(ApplyEntry(env, ctx[i]), ctx, i + 1)
(* the spelling of a term definition's IRI is resolved in the context BEING defined: the flags are computed against the new environment *)
CtxToken(env, ctx) == [i \in 1..Len(ctx) |-> IF ctx[i].c = "term"
                                               THEN [c |-> "term", t |-> ctx[i].t, how |-> ctx[i].how, iri |-> IriSp(ctx[i].iri, ApplyCtx(env, ctx, 1), TRUE),
                                                     lang |-> Def(ctx[i].iri, ctx[i].how).lang]
                                               ELSE ctx[i]]

Init == /\ root \in {"object", "array", "graph"}        \* a node object, an array of node objects, { "@context", "@graph": [...] }
        /\ \E ctx \in CtxChoices :
             /\ (root = "array" => ctx = <<>>)
             /\ frames = <<[kind |-> "root", env |-> ApplyCtx(EmptyEnv, ctx, 1), graph |-> Default]>>
             /\ doc = <<[t |-> "root", form |-> root, ctx |-> CtxToken(EmptyEnv, ctx)]>>
        /\ mode = "top" /\ G = {} /\ n = 0 /\ tops = 0

(* ---- node objects --------------------------------------------------------------------------------- *)
CanNode == \/ mode = "top" /\ Room /\ tops < (IF root = "object" THEN 1 ELSE MaxNodes)
           \/ mode = "value"                           \* an embedded node object as the value of the key just written
SubjChoices == {[k |-> "none"]} \cup Labelled \cup IriTerms

OpenNode ==
  /\ CanNode /\ Depth < MaxDepth
  /\ \E subj \in SubjChoices, ctx \in NestedCtx, ty \in {Rdf("none")} \cup {Iri(ns, CHOOSE l \in Locals : TRUE) : ns \in 1..NNs} :
       LET env0 == Env
           env == ApplyCtx(env0, ctx, 1)                 \* an embedded @context applies to the node object's own @id / @type / keys
           s == IF subj.k = "none" THEN Gen(n + 1) ELSE subj
           g == Top.graph
           own == IF ty = Rdf("none") THEN {} ELSE {Q(s, Rdf("type"), ty, g)}
           f == [kind |-> "node", s |-> s, env |-> env, graph |-> g, p |-> Rdf("none"), def |-> [iri |-> Rdf("none")]]
       IN /\ (mode = "top" /\ root = "object" => ctx = <<>>)        \* the root object's context is the document's
          /\ n' = IF subj.k = "none" THEN n + 1 ELSE n
          /\ doc' = Append(doc, [t |-> "node", subj |-> IriSp(subj, env, FALSE), ctx |-> CtxToken(env0, ctx), type |-> IriSp(ty, env, TRUE), hastype |-> ty # Rdf("none")])
          /\ IF mode = "value"
             THEN /\ G' = G \cup own \cup {Q(Top.s, Top.p, s, g)}
                  /\ frames' = Append(frames, f)
             ELSE /\ G' = G \cup own /\ frames' = Append(frames, f)
  /\ mode' = "node"
  /\ tops' = IF mode = "top" THEN tops + 1 ELSE tops
  /\ UNCHANGED root

CloseNode ==
  /\ mode = "node" /\ Top.kind = "node"
  /\ frames' = SubSeq(frames, 1, Depth - 1)
  /\ doc' = Append(doc, [t |-> "/node"])
  /\ mode' = LET up == frames[Depth - 1] IN
             IF up.kind \in {"root", "graph"} THEN "top" ELSE "node"
  /\ UNCHANGED <<G, n, tops, root>>

(* ---- keys ------------------------------------------------------------------------------------------- *)
(* a key is spelt by a term (whose definition then governs the value), or by an IRI spelling without any coercion *)
InNode == mode = "node" /\ Room
KeyChoices(env) == {[how |-> "term", t |-> x] : x \in {y \in TermNames : Defined(env, y)}} \cup {[how |-> "iri", iri |-> i] : i \in IriTerms}
KeyIri(env, kc) == IF kc.how = "term" THEN env.terms[kc.t].iri ELSE kc.iri
KeyDef(env, kc) == IF kc.how = "term" THEN env.terms[kc.t] ELSE Def(kc.iri, "none")
KeyTok(env, kc) == IF kc.how = "term" THEN [how |-> "term", t |-> kc.t] ELSE [how |-> "iri", sp |-> IriSp(kc.iri, env, TRUE)]

(* the RDF term a JSON string denotes under a term definition and the language in force *)
StringMeans(i, def, env) ==
  IF def.coerce = "dt" THEN Typed(i, def.dt)
  ELSE IF def.lang # NoLang THEN Plain(i, def.lang)
  ELSE Plain(i, env.lang)

(* "key": "text" | number | true / false | {"@value": .., "@language" / "@type": ..} *)
LiteralValue ==
  /\ InNode
  /\ \E kc \in KeyChoices(Env), i \in 1..NLit, form \in {"string", "int", "bool", "double", "vo-plain", "vo-lang", "vo-dt"} :
       LET def == KeyDef(Env, kc)  p == KeyIri(Env, kc)
           o == CASE form = "string"  -> StringMeans(i, def, Env)
                  [] form = "int"     -> Native("int", i)
                  [] form = "bool"    -> Native("bool", i)
                  [] form = "double"  -> Native("double", i)
                  [] form = "vo-plain" -> Plain(i, "")                          \* a value object is explicit: no default language
                  [] form = "vo-lang" -> Plain(i, CHOOSE l \in Langs : TRUE)
                  [] form = "vo-dt"   -> Typed(i, 2)
       IN /\ def.coerce # "id" /\ def.container # "list"                                \* (those terms want node references / list arrays)
          /\ (form \in {"int", "bool", "double"} => def.coerce = "none")              \* a native value under a datatype coercion takes that datatype: left out
          /\ G' = G \cup {Q(Top.s, p, o, Top.graph)}
          /\ doc' = Append(doc, [t |-> "lit", key |-> KeyTok(Env, kc), form |-> form, i |-> i, set |-> def.container = "set", lang |-> o.lang])
  /\ UNCHANGED <<mode, frames, n, tops, root>>

(* "key": {"@id": ..}  or, under a term with @type @id, "key": "iri-as-string" *)
RefValue ==
  /\ InNode
  /\ \E kc \in KeyChoices(Env), o \in IriTerms \cup Labelled :
       LET def == KeyDef(Env, kc)  p == KeyIri(Env, kc) IN
       /\ def.coerce \in {"none", "id"} /\ def.container # "list" /\ def.lang = NoLang
       /\ G' = G \cup {Q(Top.s, p, o, Top.graph)}
       /\ doc' = Append(doc, [t |-> "ref", key |-> KeyTok(Env, kc), o |-> IriSp(o, Env, FALSE), asstring |-> def.coerce = "id", set |-> def.container = "set"])
  /\ UNCHANGED <<mode, frames, n, tops, root>>

(* "key": { node object } *)
EmbedValue ==
  /\ InNode /\ Depth < MaxDepth
  /\ \E kc \in KeyChoices(Env) :
       LET def == KeyDef(Env, kc) IN
       /\ def.coerce \in {"none", "id"} /\ def.container = "none" /\ def.lang = NoLang
       /\ frames' = [frames EXCEPT ![Depth].p = KeyIri(Env, kc)]
       /\ doc' = Append(doc, [t |-> "embed", key |-> KeyTok(Env, kc)])
  /\ mode' = "value"
  /\ UNCHANGED <<G, n, tops, root>>

(* "key": {"@list": [ ... ]}  or, under a term with @container @list, "key": [ ... ] : members are literals and node references *)
ListValue ==
  /\ InNode
  /\ \E kc \in KeyChoices(Env), k \in 0..2 :
       \E m1 \in IriTerms \cup {LitMark}, m2 \in IriTerms \cup {LitMark} :
         LET def == KeyDef(Env, kc)  p == KeyIri(Env, kc)
             mem(x, j) == IF x = LitMark THEN StringMeans(IF j <= NLit THEN j ELSE 1, [def EXCEPT !.container = "none"], Env) ELSE x
             items == IF k = 0 THEN <<>> ELSE IF k = 1 THEN <<mem(m1, 1)>> ELSE <<mem(m1, 1), mem(m2, 2)>>
             cell(j) == Gen(n + j)
             head == IF k = 0 THEN Rdf("nil") ELSE cell(1)
             g == Top.graph
         IN /\ def.coerce \in {"none"} /\ def.container \in {"none", "list"}
            /\ (k < 2 => m2 = LitMark) /\ (k < 1 => m1 = LitMark)
            /\ G' = G \cup {Q(Top.s, p, head, g)}
                     \cup {Q(cell(j), Rdf("first"), items[j], g) : j \in 1..k}
                     \cup {Q(cell(j), Rdf("rest"), IF j = k THEN Rdf("nil") ELSE cell(j + 1), g) : j \in 1..k}
            /\ n' = n + k
            /\ doc' = Append(doc, [t |-> "list", key |-> KeyTok(Env, kc), bare |-> def.container = "list",
                                    items |-> [j \in 1..k |-> IF (IF j = 1 THEN m1 ELSE m2) = LitMark THEN [lit |-> TRUE, i |-> IF j <= NLit THEN j ELSE 1] ELSE [lit |-> FALSE, o |-> IriSp(IF j = 1 THEN m1 ELSE m2, Env, FALSE)]]])
  /\ UNCHANGED <<mode, frames, tops, root>>

(* ---- named graphs: { "@id": g, "@graph": [ node objects ] } at top level ---------------------------- *)
OpenGraph ==
  /\ mode = "top" /\ root # "object" /\ Room /\ Depth = 1 /\ tops < MaxNodes
  /\ \E g \in IriTerms \cup Labelled :
       /\ frames' = Append(frames, [kind |-> "graph", env |-> Env, graph |-> g])
       /\ doc' = Append(doc, [t |-> "graph", name |-> IriSp(g, Env, FALSE)])
  /\ tops' = tops + 1
  /\ UNCHANGED <<mode, G, n, root>>
CloseGraph ==
  /\ mode = "top" /\ Depth = 2 /\ Top.kind = "graph" /\ doc[Len(doc)].t # "graph"
  /\ frames' = SubSeq(frames, 1, 1) /\ doc' = Append(doc, [t |-> "/graph"])
  /\ UNCHANGED <<mode, G, n, tops, root>>

Finish == /\ mode = "top" /\ Depth = 1 /\ tops >= 1 /\ doc[Len(doc)].t # "/root"
          /\ doc' = Append(doc, [t |-> "/root"]) /\ mode' = "done"
          /\ UNCHANGED <<frames, G, n, tops, root>>

Next == OpenNode \/ CloseNode \/ LiteralValue \/ RefValue \/ EmbedValue \/ ListValue \/ OpenGraph \/ CloseGraph \/ Finish
Spec == Init /\ [][Next]_vars

Finished == mode = "done"
Export == IF Finished
          THEN PrintT(ToJson([doc |-> doc, quads |-> {[s |-> q[1], p |-> q[2], o |-> q[3], g |-> q[4]] : q \in G}])) ELSE TRUE
MCBound == TLCGet("level") <= 2

(* ---- sanity properties of the writer machine itself ------------------------------------------------ *)
WellFormedMeaning == \A q \in G : q[1].k \in {"iri", "bnode"} /\ q[2].k = "iri" /\ q[4].k \in {"default", "iri", "bnode"}
NoDanglingCell == \A q \in G : (q[2] = Rdf("first")) => Cardinality({r \in G : r[1] = q[1] /\ r[2] = Rdf("rest") /\ r[4] = q[4]}) = 1
===============================================================================
