----------------------------- MODULE MCAuditable -----------------------------
(* Constant definitions for model checking / exporting Auditable.tla *)
EXTENDS Auditable
T1 == {<<"s1", "p1", "o1">>, <<"s1", "p1", "o2">>}
T2 == {<<"s2", "p1", "o1">>}
Own1 == [w \in {"w1"} |-> T1]
Own2 == [w \in {"w1", "w2"} |-> IF w = "w1" THEN T1 ELSE T2]
Own1s == [w \in {"w1"} |-> {<<"s1", "p1", "o1">>}]
InitAll == [Names -> SUBSET AllTriples]
InitSome == {G \in [Names -> SUBSET AllTriples] : Cardinality(GQuads(G)) <= 2}
Own2s == [w \in {"w1", "w2"} |-> IF w = "w1" THEN {<<"s1", "p1", "o1">>} ELSE {<<"s2", "p1", "o1">>}]
InitEmpty == {[n \in Names |-> {}]}
===============================================================================
