SPECIFICATION SpecBgp
CONSTANTS
  VarsU = {"x", "y"}
  TermsU = {"a", "b"}
INVARIANT Inv_BgpTwin
CHECK_DEADLOCK FALSE
