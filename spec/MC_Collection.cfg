SPECIFICATION Spec
CONSTANTS
  Members = {"m1", "z"}
  Falsy = {"z"}
  MaxLen = 3
  Depth = 1000
  Variant = "repaired"
INVARIANT Inv_WellFormed
INVARIANT Inv_ItemsAgree
INVARIANT Inv_ResultAgrees
PROPERTY Prop_Raises
CONSTRAINT Bound
VIEW View
CHECK_DEADLOCK FALSE
