SPECIFICATION Spec
CONSTANTS
  S = {"s1"}
  P = {"p1"}
  O = {"o1", "o2"}
  Names = {"g1", "g2"}
  MaxIters = 1
  Depth = 1000
  HasCtxFallback = TRUE
  Witness = TRUE
INVARIANT Inv_IndexCoherence
INVARIANT Inv_NoRaise
INVARIANT Inv_ReadsAgree
INVARIANT Inv_LenAgrees
INVARIANT Inv_ContextsAgree
INVARIANT Inv_IterSafe
PROPERTY Prop_Refines
VIEW View
CONSTRAINT IterSafe
CHECK_DEADLOCK FALSE
