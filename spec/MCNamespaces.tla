---------------------------- MODULE MCNamespaces ----------------------------
EXTENDS Namespaces
NsA  == <<"a", "/">>
NsAX == <<"a", "/", "x", "/">>
NsAH == <<"a", "/", "x", "#">>
NsB  == <<"b", "#">>
MCNss  == {NsA, NsAX, NsB}
MCIris == {NsA \o <<"f">>, NsAX \o <<"g">>, NsA \o <<"x">>, NsB \o <<"q">>}
MCNssSmall  == {NsA, NsAX}
MCIrisSmall == {NsA \o <<"f">>, NsAX \o <<"g">>}
===============================================================================
