SPECIFICATION Spec
CONSTANTS
  Names = {"D", "g1"}
  Triples <- MCTriples
  Autocommit = FALSE
  DirtyReads = FALSE
  Depth = 1000
  Variant = "reversed"
INVARIANT Inv_Mirror
INVARIANT Inv_AutocommitNoQueue
PROPERTY Prop_VisibleOnlyAtCommit
PROPERTY Prop_RollbackDiscards
PROPERTY Prop_ReadSeesWrites
CONSTRAINT QBound
VIEW View
CHECK_DEADLOCK FALSE
