SPECIFICATION Spec
INVARIANT Inv_CopySelf
INVARIANT Inv_Move
INVARIANT Inv_Copy
INVARIANT Inv_Add
INVARIANT Inv_Clear
INVARIANT Inv_InsertDelete
INVARIANT Inv_DeleteBeforeInsert
CHECK_DEADLOCK FALSE
