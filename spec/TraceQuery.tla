------------------------------- MODULE TraceQuery -------------------------------
(***************************************************************************)
(* Tier T for C04, C08, C11, C15: validates what rdflib's SPARQL engine    *)
(* and path evaluator returned against the semantics in Sparql.tla and     *)
(* SparqlPaths.tla.  Events:                                               *)
(*   data{quads, graphs}       - the dataset the following events run on   *)
(*   query{q, res [,init]}     - Graph/Dataset.query                       *)
(*   prepare{id, q}, run{id, res [,init]} - prepared query objects (C15):  *)
(*                               a prepared query has NO state: run i must *)
(*                               answer as a fresh evaluation of q         *)
(*   path{p, s, o, via, res}   - Graph.triples/subjects/objects with a     *)
(*                               path, or SELECT over the path (C11)       *)
(* Where SPARQL leaves freedom (order of ties, REDUCED, SAMPLE, LIMIT      *)
(* without total order) the check is a predicate, not an equation.         *)
(***************************************************************************)
EXTENDS Sparql, TLC, Json, IOUtils

Batch == ndJsonDeserialize(IOEnv.TRACE_FILE)
Devs  == LET d == JsonDeserialize(IOEnv.DEVS_FILE) IN {d[i] : i \in 1..Len(d)}
VARIABLES k, l, st, verdict
vars == <<k, l, st, verdict>>

Has(r, f) == f \in DOMAIN r
St0 == [D |-> [n \in {"D"} |-> {}], prepared |-> <<>>]
Tup3(q) == <<q[1], q[2], q[3]>>

MkData(e) == [n \in {"D"} \cup SToSet(e.graphs) \cup {e.quads[i][4] : i \in 1..Len(e.quads)} |->
                {Tup3(e.quads[i]) : i \in {j \in 1..Len(e.quads) : e.quads[j][4] = n}}]

Ctx(s, cf) == [D |-> s.D, active |-> IF cf.union_default THEN DUnion(s.D) ELSE DGet(s.D, "D"), ord |-> cf.ord,
               dev |-> "KF_C04_pushdown" \in Devs, dev2 |-> "KF_C04_values_leftjoin" \in Devs,
               union |-> cf.union_default, dev3 |-> FALSE, init |-> EmptyMu]

(* ---- sub-bags and slices ----------------------------------------------------------- *)
SubBag(R, Om) == \A x \in SToSet(R) : Count(R, x) <= Count(Om, x)
RECURSIVE BagMinus(_, _)
BagMinus(Om, R) ==      \* remove one occurrence of each element of R from Om
  IF R = <<>> THEN Om
  ELSE LET i == CHOOSE j \in 1..Len(Om) : Om[j] = Head(R)
       IN BagMinus(SubSeq(Om, 1, i - 1) \o SubSeq(Om, i + 1, Len(Om)), Tail(R))
Min2(a, b) == IF a < b THEN a ELSE b
Max2(a, b) == IF a > b THEN a ELSE b
(* exists a valid arrangement A ++ R ++ B of Om under the key order with |A| = offset *)
SliceOK(R, Om, keys, off, lim, c) ==
  LET n     == Len(Om)
      o     == Min2(off, n)
      want  == IF lim < 0 THEN n - o ELSE Min2(lim, n - o)
  IN /\ Len(R) = want
     /\ SubBag(R, Om)
     /\ OrderedOK(R, keys, c)
     /\ LET rest == BagMinus(Om, R) IN
        \E IA \in {X \in SUBSET (1..Len(rest)) : Cardinality(X) = o} :
           /\ \A i \in IA : \A j \in 1..Len(R) : ~RowBefore(keys, 1, R[j], rest[i], c)
           /\ \A i \in (1..Len(rest)) \ IA : \A j \in 1..Len(R) : ~RowBefore(keys, 1, rest[i], R[j], c)
           /\ \A i \in IA : \A j \in (1..Len(rest)) \ IA : ~RowBefore(keys, 1, rest[j], rest[i], c)

(* ---- aggregates ---------------------------------------------------------------------- *)
KeyVars(q) == {q.groupby[i].v : i \in 1..Len(q.groupby)}
RowForGroup(R, q, grp, c) ==     \* the result rows whose grouping-key bindings are those of the group
  {i \in 1..Len(R) : \A j \in 1..Len(q.groupby) :
       LET kv == EvalExpr(q.groupby[j], grp[1], c)  v == q.groupby[j].v
       IN IF IsErr(kv) THEN v \notin DOMAIN R[i] ELSE v \in DOMAIN R[i] /\ R[i][v] = kv}
RowVal(row, v) == IF v \in DOMAIN row THEN row[v] ELSE Err
AggsOK(row, q, grp, c) == \A j \in 1..Len(q.aggs) : AggOK(q.aggs[j], grp, c, RowVal(row, q.aggs[j].as))
(* deterministic aggregate values, for HAVING on groups that are absent from the answer *)
DetAgg(a, grp, c) == CASE a.f = "count*" -> NumV(IF a.distinct THEN Len(Distinct(grp)) ELSE Len(grp))
                       [] a.f = "count"  -> NumV(Len(AggVals(a, grp, c)))
                       [] a.f = "sum"    -> IF \E i \in 1..Len(grp) : AllVals(a, grp, c)[i].k # "num" THEN Err ELSE NumV(SumSeq(AggVals(a, grp, c)))
                       [] OTHER -> Err
DetMu(q, grp, c) == [v \in {q.aggs[j].as : j \in {i \in 1..Len(q.aggs) : ~IsErr(DetAgg(q.aggs[i], grp, c))}} |->
                        DetAgg(q.aggs[CHOOSE j \in 1..Len(q.aggs) : q.aggs[j].as = v], grp, c)]
(* HAVING(<aggregate> op n): the aggregate is evaluated on the group itself (SELECT aliases are not visible to HAVING) *)
KeyMu(q, grp) == LET kv == {q.groupby[j].v : j \in {jj \in 1..Len(q.groupby) : q.groupby[jj].e = "var" /\ q.groupby[jj].v \in DOMAIN grp[1]}}
                 IN [v \in kv |-> grp[1][v]]
Kept(q, grp, c) == IF ~Has(q, "having") THEN TRUE
                   ELSE IF Has(q.having, "e") THEN Holds(q.having.e, KeyMu(q, grp), c)      \* HAVING over the group's keys, no aggregate in it
                   ELSE LET x == DetAgg(q.having.agg, grp, c) IN
                        IF IsErr(x) THEN FALSE
                        ELSE CASE q.having.op = ">" -> x.v > q.having.n [] q.having.op = ">=" -> x.v >= q.having.n
                               [] q.having.op = "<" -> x.v < q.having.n [] q.having.op = "=" -> x.v = q.having.n

AggVerdict(q, R, c) ==
  LET Om == EvalGroup(q.where, c, EmptyMu)
      GS == IF q.groupby = <<>> THEN {Om} ELSE (IF Om = <<>> THEN {} ELSE Groups(Om, q.groupby, c))
      KG == {g \in GS : Kept(q, g, c)}
  IN \* explicit GROUP BY over no solutions: zero rows (no groups), or - as the W3C test agg-empty-group expects - one row
     \* that binds none of the grouping variables
     IF q.groupby # <<>> /\ Om = <<>>
     THEN (IF Len(R) = 0 \/ (Len(R) = 1 /\ DOMAIN R[1] \cap KeyVars(q) = {}) THEN "ok" ELSE "GroupCount")
     ELSE IF Len(R) # Cardinality(KG) THEN "GroupCount"
     ELSE IF q.groupby = <<>>
          THEN (IF KG = {} THEN "ok" ELSE IF AggsOK(R[1], q, Om, c) THEN "ok" ELSE "AggregateValue")
     ELSE IF \E g \in KG : Cardinality(RowForGroup(R, q, g, c)) # 1 THEN "GroupPartition"
     ELSE IF \E g \in KG : ~AggsOK(R[CHOOSE i \in RowForGroup(R, q, g, c) : TRUE], q, g, c) THEN "AggregateValue"
     ELSE "ok"

(* The general form: group keys that are expressions or are not selected, and ORDER BY over group keys / aliases.  A row cannot be
   located by its key bindings then, so rows and groups are matched by a bijection under which every row carries its group's
   (selected) keys and allowed aggregate values; ORDER BY is judged on the rows with their group's key variables added back. *)
IsVarE(e) == e.e = "var"
RowMatches(row, q, grp, c) ==
  /\ AggsOK(row, q, grp, c)
  /\ \A j \in 1..Len(q.groupby) :
        (IsVarE(q.groupby[j]) /\ q.groupby[j].v \in SToSet(q.proj)) =>
           LET kv == EvalExpr(q.groupby[j], grp[1], c)  v == q.groupby[j].v
           IN IF IsErr(kv) THEN v \notin DOMAIN row ELSE v \in DOMAIN row /\ row[v] = kv
AugRow(row, q, grp, c) ==
  LET extra == {q.groupby[j].v : j \in {jj \in 1..Len(q.groupby) : IsVarE(q.groupby[jj]) /\ ~IsErr(EvalExpr(q.groupby[jj], grp[1], c))}} \ DOMAIN row
  IN [v \in DOMAIN row \cup extra |-> IF v \in DOMAIN row THEN row[v] ELSE grp[1][v]]
RECURSIVE PermSeqs(_)
PermSeqs(S) == IF S = {} THEN {<<>>} ELSE UNION {{<<x>> \o p : p \in PermSeqs(S \ {x})} : x \in S}
Injections(n) == PermSeqs(1..n)
MaxPerm == 5      \* n! arrangements are searched up to this many groups; beyond it rows and groups are only required to cover each other
AggGeneral(q) == Has(q, "orderby") \/ \E j \in 1..Len(q.groupby) : ~IsVarE(q.groupby[j]) \/ q.groupby[j].v \notin SToSet(q.proj)
AggVerdictPerm(q, R, c) ==
  LET Om == EvalGroup(q.where, c, EmptyMu)
      GS == IF q.groupby = <<>> THEN {Om} ELSE (IF Om = <<>> THEN {} ELSE Groups(Om, q.groupby, c))
      KG == {g \in GS : Kept(q, g, c)}
      GSq == SetToSeq(KG)
      n == Len(R)
      keys == IF Has(q, "orderby") THEN q.orderby ELSE <<>>
  IN IF q.groupby # <<>> /\ Om = <<>>
     THEN (IF n = 0 \/ (n = 1 /\ DOMAIN R[1] \cap {q.groupby[j].v : j \in {jj \in 1..Len(q.groupby) : IsVarE(q.groupby[jj])}} = {}) THEN "ok" ELSE "GroupCount")
     ELSE IF n # Cardinality(KG) THEN "GroupCount"
     ELSE IF n > MaxPerm
          THEN (IF (\A i \in 1..n : \E g \in KG : RowMatches(R[i], q, g, c)) /\ (\A g \in KG : \E i \in 1..n : RowMatches(R[i], q, g, c)) THEN "ok" ELSE "AggregateValue")
     ELSE IF ~\E p \in Injections(n) : \A i \in 1..n : RowMatches(R[i], q, GSq[p[i]], c) THEN "AggregateValue"
     ELSE IF ~\E p \in Injections(n) : /\ (\A i \in 1..n : RowMatches(R[i], q, GSq[p[i]], c))
                                          /\ OrderedOK([k2 \in 1..n |-> AugRow(R[k2], q, GSq[p[k2]], c)], keys, c) THEN "OrderedOK"
     ELSE "ok"

(* variables of a sort expression; "?" stands for "not analysed" and is never a projected variable *)
RECURSIVE SortVars(_)
SortVars(e) == CASE e.e = "var" -> {e.v}
                 [] e.e = "const" -> {}
                 [] e.e \in {"+", "-", "*", "=", "!=", "<", ">", "<=", ">=", "&&", "||", "sameterm"} -> SortVars(e.a) \cup SortVars(e.b)
                 [] e.e \in {"!", "isiri", "isliteral", "isblank"} -> SortVars(e.a)
                 [] e.e = "bound" -> {e.v}
                 [] OTHER -> {"?"}

(* ---- one query -------------------------------------------------------------------------- *)
Inst(x, mu) == IF IsVar(x) THEN (IF x.v \in DOMAIN mu THEN mu[x.v] ELSE Err) ELSE x
ConstructSet(q, Om) ==
  {tr \in {<<Inst(q.template[j][1], Om[i]), Inst(q.template[j][2], Om[i]), Inst(q.template[j][3], Om[i])>> :
             i \in 1..Len(Om), j \in 1..Len(q.template)} :
      ~IsErr(tr[1]) /\ ~IsErr(tr[2]) /\ ~IsErr(tr[3]) /\ ~IsLit(tr[1]) /\ tr[2].k = "iri"}

(* a blank node in a CONSTRUCT template denotes a fresh node per solution (16.2.1): solution i's copy is [k "bnode", v label, i i].  The answer's
   labels are rdflib's own, so the comparison is up to renaming: the same number of triples, the same triples once blank nodes are masked, and
   the same number of distinct blank nodes (sharing nodes between solutions, or dropping duplicates of a solution, changes one of the three) *)
TemplateHasBnode(q) == \E j \in 1..Len(q.template) : \E pos \in 1..3 : q.template[j][pos].k = "bnode"
InstB(x, mu, i) == IF x.k = "bnode" THEN [k |-> "bnode", v |-> x.v, i |-> i] ELSE Inst(x, mu)
ConstructSetB(q, Om) ==
  {tr \in {<<InstB(q.template[j][1], Om[i], i), InstB(q.template[j][2], Om[i], i), InstB(q.template[j][3], Om[i], i)>> :
             i \in 1..Len(Om), j \in 1..Len(q.template)} :
      ~IsErr(tr[1]) /\ ~IsErr(tr[2]) /\ ~IsErr(tr[3]) /\ ~IsLit(tr[1]) /\ tr[2].k = "iri"}
MaskB(x) == IF x.k = "bnode" THEN [k |-> "bnode", v |-> "_"] ELSE x
Masked(T) == {<<MaskB(tr[1]), tr[2], MaskB(tr[3])>> : tr \in T}
BnodesOf(T) == {tr[1] : tr \in {u \in T : u[1].k = "bnode"}} \cup {tr[3] : tr \in {u \in T : u[3].k = "bnode"}}
ConstructOKB(got, exp) == /\ Cardinality(got) = Cardinality(exp)
                          /\ Masked(got) = Masked(exp)
                          /\ Cardinality(BnodesOf(got)) = Cardinality(BnodesOf(exp))

QWithInit(q, e) == IF Has(e, "init") THEN [q EXCEPT !.where = [elts |-> <<[t |-> "group", g |-> q.where], [t |-> "values", vars |-> e.init.vars, rows |-> e.init.rows]>>]] ELSE q

(* KF_C15_init_everywhere: initBindings are not joined like a VALUES row but pre-bound in every scope of the query
   (also inside MINUS and nested groups), so the right-hand side of a MINUS shares them with the left-hand side *)
InitMu(e) == [v \in {e.init.vars[j] : j \in {i \in 1..Len(e.init.vars) : e.init.rows[1][i].k # "undef"}} |->
                e.init.rows[1][CHOOSE j \in 1..Len(e.init.vars) : e.init.vars[j] = v]]
QueryVerdict0(q0, e, c0) ==
  LET dv == Has(e, "init") /\ "KF_C15_init_everywhere" \in Devs
      q  == IF dv THEN q0 ELSE QWithInit(q0, e)
      c  == IF dv THEN [c0 EXCEPT !.init = InitMu(e)] ELSE c0
      r  == e.res IN
  IF r.k = "raise" THEN "QueryRaised"
  ELSE IF r.k = "timeout" THEN "Terminates"
  ELSE IF q.form = "ask" THEN (IF r.v = (Len(EvalGroup(q.where, c, EmptyMu)) > 0) THEN "ok" ELSE "AskAgrees")
  ELSE IF q.form = "construct" /\ TemplateHasBnode(q)
       THEN (IF ConstructOKB(SToSet(r.triples), ConstructSetB(q, EvalGroup(q.where, c, EmptyMu))) THEN "ok" ELSE "ConstructFreshBnodes")
  ELSE IF q.form = "construct" THEN (IF SToSet(r.triples) = ConstructSet(q, EvalGroup(q.where, c, EmptyMu)) THEN "ok" ELSE "ConstructAgrees")
  ELSE IF Has(q, "aggs") THEN
       (IF SToSet(r.vars) # SToSet(q.proj) THEN "ProjectOK" ELSE IF AggGeneral(q) THEN AggVerdictPerm(q, r.rows, c) ELSE AggVerdict(q, r.rows, c))
  ELSE LET ex == EvalQuery(q, c)
           \* ORDER BY happens before projection: when a key is not among the projected variables its effect is not
           \* observable row by row, and only the multiset / slice size is judged
           keys == IF Has(q, "orderby") /\ (\A i \in 1..Len(q.orderby) : SortVars(q.orderby[i].e) \subseteq ex.vars)
                   THEN q.orderby ELSE <<>>
           off  == IF Has(q, "offset") THEN q.offset ELSE 0
           lim  == IF Has(q, "limit") THEN q.limit ELSE 0 - 1
       IN IF q.proj # <<"*">> /\ r.vars # q.proj THEN "ProjectOK"
          \* SELECT *: every in-scope variable must be listed (rdflib also lists variables that only occur in FILTER / MINUS /
          \* EXISTS, which are never bound; the property speaks of the bindings, so that is not judged)
          ELSE IF q.proj = <<"*">> /\ ~(ex.vars \subseteq SToSet(r.vars)) THEN "ProjectOK"
          ELSE IF \E i \in 1..Len(r.rows) : ~(DOMAIN r.rows[i] \subseteq ex.vars) THEN "ProjectOK"
          ELSE IF Has(q, "reduced") /\ q.reduced
               THEN \* REDUCED: each solution between once and as often as it occurs; with LIMIT n (no OFFSET) the slice is taken AFTER
                    \* the reduction, so at least min(n, number of distinct solutions) rows come back
                    (IF off = 0 /\ lim < 0
                     THEN (IF ~(SToSet(r.rows) = SToSet(ex.rows) /\ SubBag(r.rows, ex.rows)) THEN "ReducedOK"
                           ELSE IF ~OrderedOK(r.rows, keys, c) THEN "OrderedOK" ELSE "ok")
                     ELSE IF off = 0
                     THEN (IF ~(SToSet(r.rows) \subseteq SToSet(ex.rows) /\ SubBag(r.rows, ex.rows)) THEN "ReducedOK"
                           ELSE IF Len(r.rows) > lim THEN "SliceOK"
                           ELSE IF Len(r.rows) < lim /\ Len(r.rows) < Cardinality(SToSet(ex.rows)) THEN "ReducedSlice"
                           ELSE IF ~OrderedOK(r.rows, keys, c) THEN "OrderedOK" ELSE "ok")
                     ELSE "ok")
          ELSE IF off = 0 /\ lim < 0
               THEN (IF ~BagEq(r.rows, ex.rows) THEN (IF Has(q, "distinct") /\ q.distinct THEN "DistinctOK" ELSE "SolutionsAgree")
                     ELSE IF ~OrderedOK(r.rows, keys, c) THEN "OrderedOK" ELSE "ok")
          ELSE IF SliceOK(r.rows, ex.rows, keys, off, lim, c) THEN "ok"
          ELSE IF ~SubBag(r.rows, ex.rows) THEN "SolutionsAgree" ELSE "SliceOK"

(* KF_C11_neg_inverse: negated property sets with inverse members follow paths.py's pinned behaviour (pinned by a
   doctest in rdflib/paths.py) through the API, and raise "Invalid path in NegatedPath" through SPARQL *)
(* the same answer through `for row in result`: one row per solution.  KF_C04_iter_drops_empty: Result.__iter__ leaves out the
   solutions that bind no variable (pinned by the repository's test_issue554 / test_issue274) *)
IterVerdict(e) ==
  LET r == e.res IN
  IF r.k # "select" \/ ~Has(r, "iter_n") THEN "ok"
  ELSE IF r.len_n # Len(r.rows) THEN "LenAgrees"
  ELSE IF r.iter_n = Len(r.rows) THEN "ok"
  ELSE IF "KF_C04_iter_drops_empty" \in Devs /\ r.iter_n = Cardinality({i \in 1..Len(r.rows) : DOMAIN r.rows[i] # {}}) THEN "ok"
  ELSE "IterationAgrees"
QueryVerdict(q0, e, c) == LET v == QueryVerdict0(q0, e, c) IN IF v # "ok" THEN v ELSE IterVerdict(e)
PathDev(e) == "KF_C11_neg_inverse" \in Devs /\ HasNegInv(e.p)
PathVerdict(s, e) ==
  LET G == DGet(s.D, "D")  r == e.res IN
  IF PathDev(e) /\ e.via = "sparql" /\ r.k = "raise" THEN "ok"
  ELSE IF PathDev(e) /\ r.k = "pairs" THEN (IF SToSet(r.pairs) = PathAnswerDev(e.p, G, SToSet(e.s), SToSet(e.o)) THEN "ok" ELSE "PathRelation")
  ELSE IF r.k = "raise" THEN "PathRaised"
  ELSE IF r.k = "timeout" THEN "Terminates"
  ELSE LET want == PathAnswer(e.p, G, SToSet(e.s), SToSet(e.o)) IN
       IF SToSet(r.pairs) # want THEN "PathRelation"
       ELSE IF IsClosure(e.p) /\ e.via # "aggregate" /\ Len(r.pairs) # Cardinality(want) THEN "PathNoDuplicates"     \* (an aggregate enumerates its members' nodes one member after the other: only the relation is judged there)
       ELSE "ok"

Judge(s, cf, e) ==
  CASE e.op = "data"    -> "ok"
    [] e.op = "prepare" -> "ok"
    [] e.op = "query"   -> QueryVerdict(e.q, e, Ctx(s, cf))
    [] e.op = "run"     -> IF e.id \notin DOMAIN s.prepared THEN "UnknownPrepared"
                           ELSE LET v == QueryVerdict(s.prepared[e.id], e, Ctx(s, cf)) IN
                                IF v = "ok" THEN "ok" ELSE "PreparedStateless:" \o v
    [] e.op = "path"    -> PathVerdict(s, e)
    [] OTHER -> "UnknownEvent"

ApplyEv(s, e) ==
  CASE e.op = "data"    -> [s EXCEPT !.D = MkData(e)]
    [] e.op = "prepare" -> [s EXCEPT !.prepared = [i \in DOMAIN s.prepared \cup {e.id} |-> IF i = e.id THEN e.q ELSE s.prepared[i]]]
    [] OTHER -> s

Init == k = 1 /\ l = 1 /\ st = St0 /\ verdict = "ok"
Step == /\ k <= Len(Batch) /\ verdict = "ok" /\ l <= Len(Batch[k].ev)
        /\ LET e == Batch[k].ev[l]
               v == Judge(st, Batch[k].cfg, e)
           IN IF v = "ok"
              THEN st' = ApplyEv(st, e) /\ l' = l + 1 /\ UNCHANGED <<k, verdict>>
              ELSE verdict' = v /\ UNCHANGED <<k, l, st>>
NextTrace == /\ k <= Len(Batch) /\ (verdict # "ok" \/ l > Len(Batch[k].ev))
             /\ PrintT(<<"VERDICT", Batch[k].tid, verdict, l>>)
             /\ k' = k + 1 /\ l' = 1 /\ st' = St0 /\ verdict' = "ok"
TraceSpec == Init /\ [][Step \/ NextTrace]_vars
===============================================================================
