SPECIFICATION SpecAlg
CONSTANTS
  VarsU = {"x", "y"}
  TermsU = {"a", "b"}
INVARIANT Inv_JoinCommutes
INVARIANT Inv_JoinIdentity
INVARIANT Inv_JoinAssoc
INVARIANT Inv_LeftJoinExpands
INVARIANT Inv_LeftJoinFalse
INVARIANT Inv_MinusDisjoint
INVARIANT Inv_MinusSelf
INVARIANT Inv_DistinctIdem
INVARIANT Inv_FilterError
INVARIANT Inv_ThreeValued
CHECK_DEADLOCK FALSE
