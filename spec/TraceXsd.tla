-------------------------------- MODULE TraceXsd --------------------------------
(***************************************************************************)
(* C09 - trace validation of Literal <-> Python value mapping against the  *)
(* XSD lexical spaces of XsdLexical.tla.  One event per observation:       *)
(*  lex : Literal(lex, datatype=dt)                                        *)
(*        ill      rdflib's ill_typed flag                                 *)
(*        hasval   a Python value was produced                             *)
(*        canon    canonical form of that Python value computed by the     *)
(*                 harness independently of rdflib (integer family,        *)
(*                 boolean, decimal), as characters                        *)
(*        fields   [y, mo, d, h, mi, s, us, tz] of the Python value        *)
(*                 (date / time / dateTime; tz in minutes, 9999 = none)    *)
(*        out      lexical form after normalisation, out2 after a second   *)
(*                 normalisation, same = Python values of lex and out equal *)
(*  py  : Literal(v) for a Python value v of type ty                       *)
(*        dt, lex, back (toPython() == v and of the same type), canon      *)
(*  eq  : a.eq(b)  with term equality and Python equality of the values    *)
(***************************************************************************)
EXTENDS XsdLexical, TLC, Json, IOUtils
Batch == ndJsonDeserialize(IOEnv.TRACE_FILE)
Devs  == LET d == JsonDeserialize(IOEnv.DEVS_FILE) IN {d[i] : i \in 1..Len(d)}
VARIABLES k, l, verdict
vars == <<k, l, verdict>>
Has(r, f) == f \in DOMAIN r

Pad6(f) == IF Len(f) >= 6 THEN Sub(f, 1, 6) ELSE f \o [i \in 1..(6 - Len(f)) |-> "0"]
TzMinutes(z) == IF z = <<>> THEN 9999 ELSE IF z = <<"Z">> THEN 0
                ELSE (IF z[1] = "-" THEN -1 ELSE 1) * (60 * Num(Sub(z, 2, 3)) + Num(Sub(z, 5, 6)))
DateF(d) == LET n == Len(d) IN [y |-> Num(Sub(d, 1, n - 6)), mo |-> Num(Sub(d, n - 4, n - 3)), d |-> Num(Sub(d, n - 1, n))]
TimeF(t) == [h |-> Num(Sub(t, 1, 2)), mi |-> Num(Sub(t, 4, 5)), s |-> Num(Sub(t, 7, 8)), us |-> IF Len(t) > 9 THEN Num(Pad6(Sub(t, 10, Len(t)))) ELSE 0]
(* forms whose value Python's date / time classes cannot hold, or where XSD 1.0 / 1.1 differ: value not judged *)
FieldsJudged(dt, s) ==
  LET b == NoTz(s) IN
  CASE dt = "date" -> b[1] # "-" /\ Len(b) = 10
    [] dt = "time" -> ~EndOfDay(b) /\ Len(b) <= 15
    [] dt = "dateTime" -> b[1] # "-" /\ Index(b, "T") = 11 /\ ~EndOfDay(Sub(b, 12, Len(b))) /\ Len(b) <= 26
    [] OTHER -> FALSE
FieldsOK(dt, s, f) ==
  LET b == NoTz(s)  tz == TzMinutes(TzOf(s)) IN
  CASE dt = "date" -> LET x == DateF(b) IN f.y = x.y /\ f.mo = x.mo /\ f.d = x.d /\ f.tz = tz
    [] dt = "time" -> LET x == TimeF(b) IN f.h = x.h /\ f.mi = x.mi /\ f.s = x.s /\ f.us = x.us /\ f.tz = tz
    [] dt = "dateTime" -> LET x == DateF(Sub(b, 1, 10))  y == TimeF(Sub(b, 12, Len(b))) IN
                          f.y = x.y /\ f.mo = x.mo /\ f.d = x.d /\ f.h = y.h /\ f.mi = y.mi /\ f.s = y.s /\ f.us = y.us /\ f.tz = tz

Durations == {"duration", "dayTimeDuration", "yearMonthDuration"}
(* e.dur = [neg, months, secs, micros] of the Python value (absolute amounts and a sign) *)
DurOK(lex, d) == /\ d.months = DurMonths(lex) /\ d.secs = DurSeconds(lex) /\ d.micros = DurMicros(lex)
                 /\ (DurIsZero(lex) \/ d.neg = DurNeg(lex))
ExpectedDt == [int |-> "integer", float |-> "double", Decimal |-> "decimal", bool |-> "boolean", str |-> "", date |-> "date", time |-> "time",
               datetime |-> "dateTime", timedelta |-> "dayTimeDuration", Duration |-> "duration"]
Numeric == IntFamily \cup {"decimal", "double", "float"}

JudgeLex(e) ==
  IF Has(e, "raise") THEN "ConstructionRaised"
  ELSE IF e.dt \notin Judged \/ Unjudged(e.dt, e.lex) THEN
       \* (the python value of a not yet white-space-processed token / normalizedString is its raw text: whether the facet has been applied to it is not judged)
       (IF e.hasval /\ e.out2 # e.out THEN "NormalisationIdempotent"
        ELSE IF e.hasval /\ ~e.same /\ e.dt \notin {"token", "normalizedString"} THEN "NormalisationKeepsValue" ELSE "ok")
  ELSE LET v == Valid(e.dt, e.lex) IN
       IF ~v /\ ~e.ill THEN "IllTypedAgrees:accepted-invalid:" \o e.dt
       ELSE IF v /\ e.ill THEN "IllTypedAgrees:rejected-valid:" \o e.dt
       ELSE IF ~v THEN "ok"
       ELSE IF ~e.hasval THEN "ValueAssigned:" \o e.dt
       ELSE IF HasCanon(e.dt) /\ e.canon # Canon(e.dt, e.lex) THEN "ValueAgrees:" \o e.dt
       ELSE IF FieldsJudged(e.dt, e.lex) /\ ~FieldsOK(e.dt, e.lex, e.fields) THEN "ValueAgrees:" \o e.dt
       ELSE IF e.dt \in Durations /\ DurJudged(e.lex) /\ ~DurOK(e.lex, e.dur) THEN "ValueAgrees:" \o e.dt
       ELSE IF ~Valid(e.dt, e.out) THEN "NormalisedFormValid:" \o e.dt
       ELSE IF e.ill_out THEN "NormalisedFormValid:flagged:" \o e.dt
       ELSE IF HasCanon(e.dt) /\ Canon(e.dt, e.out) # Canon(e.dt, e.lex) THEN "NormalisationKeepsValue:" \o e.dt
       ELSE IF FieldsJudged(e.dt, e.lex) /\ ~(FieldsJudged(e.dt, e.out) /\ FieldsOK(e.dt, e.out, e.fields)) THEN "NormalisationKeepsValue:" \o e.dt
       ELSE IF e.dt \in Durations /\ DurJudged(e.lex) /\ ~(DurJudged(e.out) /\ DurOK(e.out, e.dur)) THEN "NormalisationKeepsValue:" \o e.dt
       ELSE IF Has(e, "out_m") /\ (e.out_m # e.out \/ e.ill_m) THEN "NormaliseMethodAgrees:" \o e.dt      \* Literal.normalize() gives what the normalising constructor gives
       ELSE IF ~e.same THEN "NormalisationKeepsValue:py:" \o e.dt
       ELSE IF e.out2 # e.out THEN "NormalisationIdempotent:" \o e.dt
       ELSE "ok"
JudgePy(e) ==
  IF Has(e, "raise") THEN "FromPythonRaised:" \o e.ty
  ELSE IF e.dt # ExpectedDt[e.ty] THEN "DocumentedDatatype:" \o e.ty
  ELSE IF e.dt \in Judged /\ ~Unjudged(e.dt, e.lex) /\ ~Valid(e.dt, e.lex) THEN "LexicalValid:" \o e.ty
  ELSE IF e.dt # "" /\ HasCanon(e.dt) /\ Canon(e.dt, e.lex) # e.canon THEN "LexicalDenotesValue:" \o e.ty
  ELSE IF e.dt \in {"date", "time", "dateTime"} /\ FieldsJudged(e.dt, e.lex) /\ ~FieldsOK(e.dt, e.lex, e.fields) THEN "LexicalDenotesValue:" \o e.ty
  ELSE IF e.dt \in Durations /\ DurJudged(e.lex) /\ e.dur.ok /\ ~DurOK(e.lex, e.dur) THEN "LexicalDenotesValue:" \o e.ty
  ELSE IF ~e.back THEN "ConvertsBack:" \o e.ty
  ELSE IF e.ill THEN "LexicalValid:flagged:" \o e.ty
  ELSE "ok"
(* value-space equality that XSD fixes for two valid forms of comparable datatypes (canonical forms equal) *)
XsdEqKnown(a, b) == /\ a.dt \in Judged /\ b.dt \in Judged /\ Valid(a.dt, a.lex) /\ Valid(b.dt, b.lex)
                    /\ \/ (a.dt \in IntFamily \cup {"decimal"} /\ b.dt \in IntFamily \cup {"decimal"})
                       \/ (a.dt = "boolean" /\ b.dt = "boolean")
XsdEq(a, b) == IF a.dt = "boolean" THEN CanonBoolean(a.lex) = CanonBoolean(b.lex) ELSE CanonDecimal(a.lex) = CanonDecimal(b.lex)
JudgeEq(e) ==
  IF Has(e, "raise") THEN "EqRaised"
  ELSE IF e.term_eq /\ ~e.eq /\ ~e.nan THEN "EqFollowsTermEquality"     \* NaN: Python equality (the other half of the clause) says NaN # NaN
  ELSE IF e.eq # e.eq_rev THEN "EqSymmetric"
  ELSE IF e.neq = e.eq THEN "NeqIsNegation"
  ELSE IF e.comparable /\ e.eq # e.py_eq THEN "EqAgreesWithPython"
  ELSE IF XsdEqKnown(e.a, e.b) /\ e.eq # XsdEq(e.a, e.b) THEN "EqAgreesWithXsd"
  ELSE "ok"
Judge(cf, e) == CASE e.op = "lex" -> JudgeLex(e) [] e.op = "py" -> JudgePy(e) [] e.op = "eq" -> JudgeEq(e) [] OTHER -> "UnknownEvent"

Init == k = 1 /\ l = 1 /\ verdict = "ok"
Step == /\ k <= Len(Batch) /\ verdict = "ok" /\ l <= Len(Batch[k].ev)
        /\ LET v == Judge(Batch[k].cfg, Batch[k].ev[l])
           IN IF v = "ok" THEN l' = l + 1 /\ UNCHANGED <<k, verdict>> ELSE verdict' = v /\ UNCHANGED <<k, l>>
NextTrace == /\ k <= Len(Batch) /\ (verdict # "ok" \/ l > Len(Batch[k].ev))
             /\ PrintT(<<"VERDICT", Batch[k].tid, verdict, l>>)
             /\ k' = k + 1 /\ l' = 1 /\ verdict' = "ok"
TraceSpec == Init /\ [][Step \/ NextTrace]_vars
===============================================================================
