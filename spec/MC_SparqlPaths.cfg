SPECIFICATION Spec
CONSTANTS
  Preds = {"p1", "p2"}
  Nodes = {"n1", "n2", "n3"}
  MaxEdges = 2
  PathDepth = 1
  ExportMode = FALSE
INVARIANT Inv_ClosureAgrees
INVARIANT Inv_Laws
INVARIANT Inv_ZeroLength
CHECK_DEADLOCK FALSE
