-------------------------------- MODULE TraceIso --------------------------------
(***************************************************************************)
(* Tier T for C14: rdflib.compare (isomorphic, to_isomorphic equality,     *)
(* to_canonical_graph, graph_diff, graph digests) and skolemisation are    *)
(* judged against GraphIso.tla.                                            *)
(***************************************************************************)
EXTENDS GraphIso, TLC, Json, IOUtils
Batch == ndJsonDeserialize(IOEnv.TRACE_FILE)
Devs  == LET d == JsonDeserialize(IOEnv.DEVS_FILE) IN {d[i] : i \in 1..Len(d)}
VARIABLES k, l, verdict
vars == <<k, l, verdict>>
S(s) == {s[i] : i \in 1..Len(s)}
T3(x) == {<<t[1], t[2], t[3]>> : t \in S(x)}

(* graphs too large for the search over all bijections come with a witness: the renaming by which the harness made h from g (a sequence of
   <<from, to>> pairs); the spec checks that it is an injective renaming that carries g onto h - then the graphs ARE isomorphic *)
WitF(w) == [x \in {w[i][1] : i \in 1..Len(w)} |-> w[CHOOSE i \in 1..Len(w) : w[i][1] = x][2]]
IsoByWitness(g, h, w) == /\ Cardinality({w[i][2] : i \in 1..Len(w)}) = Len(w)
                         /\ Cardinality({w[i][1] : i \in 1..Len(w)}) = Len(w)
                         /\ Rename3(g, WitF(w)) = h

Judge(e) ==
  IF "raise" \in DOMAIN e THEN "Raised"
  ELSE CASE e.op = "iso" /\ "wit" \in DOMAIN e ->
         IF ~IsoByWitness(T3(e.g), T3(e.h), e.wit) THEN "WitnessIsNoIsomorphism"       \* (a harness error, not rdflib's)
         ELSE IF ~e.r THEN "IsoAgrees" ELSE IF ~e.r_eq THEN "IsoAgrees:to_isomorphic" ELSE "ok"
    [] e.op = "iso" ->
         LET want == Iso(T3(e.g), T3(e.h)) IN
         IF e.r # want THEN "IsoAgrees" ELSE IF e.r_eq # want THEN "IsoAgrees:to_isomorphic" ELSE "ok"
    [] e.op = "canon" ->
         IF ~Iso(T3(e.g), T3(e.cg)) \/ ~Iso(T3(e.h), T3(e.ch)) THEN "CanonIsomorphic"
         ELSE IF Iso(T3(e.g), T3(e.h)) /\ T3(e.cg) # T3(e.ch) THEN "CanonEqual"
         ELSE IF ~Iso(T3(e.g), T3(e.h)) /\ T3(e.cg) = T3(e.ch) THEN "CanonDistinguishes"
         ELSE "ok"
    [] e.op = "diff" ->
         IF ~Iso(T3(e.both) \cup T3(e.first), T3(e.g)) THEN "DiffFirst"
         ELSE IF ~Iso(T3(e.both) \cup T3(e.second), T3(e.h)) THEN "DiffSecond"
         ELSE IF T3(e.first) \cap T3(e.second) # {} THEN "DiffDisjoint"
         ELSE "ok"
    [] e.op = "skolem" -> IF ~Iso(T3(e.g), T3(e.g2)) THEN "SkolemRoundTrip"
                          ELSE IF "sk_bnodes" \in DOMAIN e /\ e.sk_bnodes # 0 THEN "SkolemisedHasNoBlankNodes" ELSE "ok"
    [] e.op = "eq_history" ->      \* equality of to_isomorphic graphs is decided on what the graphs hold NOW, whichever way they came to hold it
         IF \E i \in 1..Len(e.steps) : e.steps[i].eq # Iso(T3(e.steps[i].now), T3(e.h)) THEN "IsoAgrees:history"
         ELSE IF \E i \in 1..Len(e.steps) : e.steps[i].eq_rev # e.steps[i].eq \/ e.steps[i].ne = e.steps[i].eq THEN "IsoAgrees:symmetric"
         ELSE "ok"
    [] e.op = "classes" ->      \* the partition by rdflib's digest equals the partition into isomorphism classes
         IF \E i \in 1..Len(e.graphs) : \E j \in (i + 1)..Len(e.graphs) :
               (e.digests[i] = e.digests[j]) # Iso(T3(e.graphs[i]), T3(e.graphs[j])) THEN "DigestPartition" ELSE "ok"
    [] OTHER -> "UnknownEvent"

Init == k = 1 /\ l = 1 /\ verdict = "ok"
Step == /\ k <= Len(Batch) /\ verdict = "ok" /\ l <= Len(Batch[k].ev)
        /\ LET v == Judge(Batch[k].ev[l])
           IN IF v = "ok" THEN l' = l + 1 /\ UNCHANGED <<k, verdict>> ELSE verdict' = v /\ UNCHANGED <<k, l>>
NextTrace == /\ k <= Len(Batch) /\ (verdict # "ok" \/ l > Len(Batch[k].ev))
             /\ PrintT(<<"VERDICT", Batch[k].tid, verdict, l>>)
             /\ k' = k + 1 /\ l' = 1 /\ verdict' = "ok"
TraceSpec == Init /\ [][Step \/ NextTrace]_vars
===============================================================================
