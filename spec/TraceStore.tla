------------------------------ MODULE TraceStore ------------------------------
(***************************************************************************)
(* Tier T for C01 / C02 / C13: validates a batch of recorded executions of *)
(* rdflib's Graph / ConjunctiveGraph / Dataset API against the property    *)
(* spec.  One ndjson line per trace: [tid, cfg, ev].  Traces are chained   *)
(* in one behaviour; Step is total and names the first clause that fails.  *)
(*                                                                         *)
(* Post-states come from StoreOps (the same operators TripleStore's        *)
(* actions use); observations are compared with the read definitions.      *)
(***************************************************************************)
EXTENDS StoreOps, TLC, Json, IOUtils

Batch == ndJsonDeserialize(IOEnv.TRACE_FILE)
Devs  == LET d == JsonDeserialize(IOEnv.DEVS_FILE) IN {d[i] : i \in 1..Len(d)}

VARIABLES k,        \* index of the trace being validated
          l,        \* index of the next event of that trace
          st,       \* abstract state: [G, made, its]
          verdict   \* "ok" or the name of the clause that failed

vars == <<k, l, st, verdict>>

Unset == {"<unset>"}
St0 == [G |-> EmptyDs, made |-> {}, its |-> <<>>, lg |-> Unset]
Has(r, f) == f \in DOMAIN r
Tup3(q) == <<q[1], q[2], q[3]>>

SP == INSTANCE SparqlPaths

(* ---------------- state transformer (the action's post-state) ----------- *)
Refresh(I, G, G2) == [i \in DOMAIN I |->
                    IF I[i].live
                    THEN [I[i] EXCEPT !.seen  = @ \cup Sel(GGet(G2, I[i].g), I[i].pat),
                                      !.dirty = @ \/ GGet(G2, I[i].g) # GGet(G, I[i].g)]
                    ELSE I[i]]

NewG(s, e) ==
  CASE e.op = "add"          -> PAdd(s.G, e.g, e.t)
    [] e.op = "addN"         -> PAddQuads(s.G, SeqToSet(e.qs))
    \* a bulk add through the view of ONE graph: that graph takes the quads that name it and drops the others (no other graph changes, none is made)
    [] e.op = "addN_view"    -> LET T == {Tup3(q) : q \in {x \in SeqToSet(e.qs) : x[4] = e.g}} IN IF T = {} THEN s.G ELSE PAddAll(s.G, e.g, T)
    [] e.op = "remove"       -> PRemove(s.G, e.g, e.pat)
    [] e.op = "set"          -> PSet(s.G, e.g, e.t)
    [] e.op = "iadd"         -> PAddAll(s.G, e.g, GGet(s.G, e.h))
    [] e.op = "isub"         -> PRemoveAll(s.G, e.g, GGet(s.G, e.h))
    [] e.op = "iadd_ts"      -> PAddAll(s.G, e.g, SeqToSet(e.ts))
    [] e.op = "isub_ts"      -> PRemoveAll(s.G, e.g, SeqToSet(e.ts))
    [] e.op = "graph"        -> PGraph(s.G, e.g)
    [] e.op = "remove_graph" -> PRemoveGraph(s.G, e.g)
    [] e.op = "init"         -> PAddQuads([n \in {DEFAULT} \cup SeqToSet(e.made) |-> {}], SeqToSet(e.quads))
    [] OTHER                 -> s.G

NewMade(s, e) == CASE e.op = "graph"        -> s.made \cup {e.g}
                   [] e.op = "remove_graph" -> s.made \ {e.g}
                   [] e.op = "init"         -> SeqToSet(e.made)
                   [] OTHER                 -> s.made

NewIts(s, e, G2) ==
  CASE e.op = "open" -> Append(s.its, [g |-> e.g, pat |-> e.pat, seen |-> Sel(GGet(s.G, e.g), e.pat),
                                        out |-> {}, n |-> 0, live |-> TRUE, dirty |-> FALSE])
    [] e.op = "next" /\ e.res.k = "t"    -> [s.its EXCEPT ![e.it].out = @ \cup {e.res.t}, ![e.it].n = @ + 1]
    [] e.op = "next" /\ e.res.k = "stop" -> [s.its EXCEPT ![e.it].live = FALSE]
    [] OTHER -> Refresh(s.its, s.G, G2)

KnownOps == {"add", "addN", "addN_view", "remove", "set", "iadd", "isub", "iadd_ts", "isub_ts", "graph", "remove_graph",
             "binop", "open", "next", "read", "init"}

(* ---------------- judging one event ------------------------------------- *)
(* result carried by the event itself, judged against the PRE-state *)
OpVerdict(s, e) ==
  CASE e.op = "binop" ->
         IF SeqToSet(e.res) # SetOp(e.o, GGet(s.G, e.g), GGet(s.G, e.h)) THEN "SetOperator"
         ELSE IF ~NoDup(e.res) THEN "NoDuplicates" ELSE "ok"
    [] e.op = "next" ->
         LET it == s.its[e.it] IN
         IF e.res.k = "raise" THEN "IterNoRaise"
         ELSE IF e.res.k = "t" THEN
              IF ~it.live THEN "IterAfterStop"
              ELSE IF ~Match(it.pat, e.res.t) THEN "IterMatches"
              ELSE IF e.res.t \notin it.seen THEN "IterSafe"
              ELSE IF ~it.dirty /\ e.res.t \in it.out THEN "NoDuplicates"
              ELSE "ok"
         ELSE \* stop
              IF it.live /\ ~it.dirty /\ it.out # Sel(GGet(s.G, it.g), it.pat) THEN "IterComplete"
              ELSE "ok"
    [] OTHER -> "ok"

(* the dataset-level view of the default graph: the union when default_union *)
DView(G, c, n) == IF n = DEFAULT /\ c.default_union THEN GUnion(G) ELSE GGet(G, n)

(* a quad pattern that names a graph is answered from that graph alone.  KF_C02_quads_graph_pattern: ConjunctiveGraph.quads() reports, for a
   triple that matches in the graph asked for, every graph that holds the same triple (pinned by the repository's test_aggregate2) *)
QuadPat(G, c, n, p) == {<<t[1], t[2], t[3], n>> : t \in Sel(DView(G, c, n), p)}
QuadPatDev(G, c, n, p) == UNION {{<<t[1], t[2], t[3], m>> : m \in {kk \in DOMAIN G : t \in G[kk]}} : t \in Sel(DView(G, c, n), p)}
(* the graphs that hold a triple *)
GraphsOf(G, t) == {n \in DOMAIN G : t \in G[n]}

ViewVerdict(G, v) ==
  LET T == GGet(G, v.g) IN
  IF Has(v, "len") /\ v.len # Cardinality(T) THEN "LenAgrees"
  ELSE IF Has(v, "iter") /\ SeqToSet(v.iter) # T THEN "IterAgrees"
  ELSE IF Has(v, "iter") /\ ~NoDup(v.iter) THEN "NoDuplicates"
  ELSE IF Has(v, "has") /\ SeqToSet(v.has) # T THEN "MembershipAgrees"
  ELSE IF Has(v, "pats") /\ \E i \in 1..Len(v.pats) : SeqToSet(v.pats[i].r) # Sel(T, v.pats[i].p) THEN "PatternAgreement"
  ELSE IF Has(v, "pats") /\ \E i \in 1..Len(v.pats) : ~NoDup(v.pats[i].r) THEN "NoDuplicates"
  ELSE "ok"

RECURSIVE ViewsVerdict(_, _, _)
ViewsVerdict(G, vs, i) ==
  IF i > Len(vs) THEN "ok"
  ELSE LET r == ViewVerdict(G, vs[i]) IN IF r # "ok" THEN r ELSE ViewsVerdict(G, vs, i + 1)

ObsVerdict(s, c, o) ==
  LET G == s.G
      v1 == IF Has(o, "views") THEN ViewsVerdict(G, o.views, 1) ELSE "ok"
  IN
  IF v1 # "ok" THEN v1
  ELSE IF Has(o, "quads") /\ SeqToSet(o.quads) # GQuads(G) THEN "QuadsAgree"
  ELSE IF Has(o, "quads") /\ ~NoDup(o.quads) THEN "NoDuplicates"
  ELSE IF Has(o, "graphs") /\ ~(s.made \cup {n \in DOMAIN G : G[n] # {}} \cup (IF c.dataset THEN {DEFAULT} ELSE {})
                                  \subseteq SeqToSet(o.graphs)) THEN "GraphsListed"
  ELSE IF Has(o, "graphs") /\ ~(SeqToSet(o.graphs) \subseteq DOMAIN G) THEN "GraphsUnknown"
  ELSE IF Has(o, "graphs") /\ ~NoDup(o.graphs) THEN "NoDuplicates"
  ELSE IF Has(o, "member") /\ \E i \in 1..Len(o.member) :
            o.member[i].r # (Tup3(o.member[i].q) \in DView(G, c, o.member[i].q[4])) THEN "QuadMembership"
  ELSE IF Has(o, "tmember") /\ \E i \in 1..Len(o.tmember) :
            o.tmember[i].r # (Tup3(o.tmember[i].t) \in DView(G, c, DEFAULT)) THEN "TripleMembership"
  ELSE IF Has(o, "ctxq") /\ \E i \in 1..Len(o.ctxq) :
            SeqToSet(o.ctxq[i].r) # Sel(DView(G, c, o.ctxq[i].g), o.ctxq[i].p) THEN "NoFallback"
  ELSE IF Has(o, "union") /\ \E i \in 1..Len(o.union) :
            SeqToSet(o.union[i].r) # Sel(DView(G, c, DEFAULT), o.union[i].p) THEN "UnionView"
  ELSE IF Has(o, "union") /\ \E i \in 1..Len(o.union) : ~NoDup(o.union[i].r) THEN "NoDuplicates"
  ELSE IF Has(o, "quadq") /\ \E i \in 1..Len(o.quadq) :
            SeqToSet(o.quadq[i].r) # (IF "KF_C02_quads_graph_pattern" \in Devs THEN QuadPatDev(G, c, o.quadq[i].g, o.quadq[i].p) ELSE QuadPat(G, c, o.quadq[i].g, o.quadq[i].p)) THEN "QuadPattern"
  ELSE IF Has(o, "gof") /\ \E i \in 1..Len(o.gof) : SeqToSet(o.gof[i].r) # GraphsOf(G, Tup3(o.gof[i].t)) THEN "GraphsOfTriple"
  ELSE IF Has(o, "ulen") /\ o.ulen # Cardinality(GUnion(G)) THEN "LenAgrees"
  \* a pattern whose predicate is a property path, asked of the dataset itself: the relation the path denotes (SparqlPaths.tla) over the
  \* same view a plain predicate is matched against - the union when default_union, the default graph otherwise; asked of a view: over that graph
  ELSE IF Has(o, "upath") /\ \E i \in 1..Len(o.upath) :
            SeqToSet(o.upath[i].r) # SP!PathAnswer(o.upath[i].path, DView(G, c, o.upath[i].g), {}, {}) THEN "PathOverView"
  ELSE "ok"

(* C13: a read leaves everything as it was, and repeated reads agree *)
ReadVerdict(e) ==
  IF e.op # "read" THEN "ok"
  ELSE IF Has(e, "v1") /\ e.v1 # e.v2 THEN "ReadStable"
  ELSE IF Has(e, "xv") /\ e.v1 # e.xv THEN "ReadAgrees"       \* (where the harness has an independent answer: whatever was read earlier in the process)
  ELSE "ok"

Judge(s, c, e) ==
  IF e.op \notin KnownOps THEN "UnknownEvent"
  ELSE IF Has(e, "raise") /\ e.op # "read" THEN "OpRaised"
  ELSE LET v0 == OpVerdict(s, e) IN
       IF v0 # "ok" THEN v0
       ELSE LET v1 == ReadVerdict(e) IN
       IF v1 # "ok" THEN v1
       ELSE IF ~Has(e, "obs") THEN "ok"
       ELSE LET G2 == NewG(s, e)
                s2 == [G |-> G2, made |-> NewMade(s, e), its |-> s.its, lg |-> s.lg]
                v2 == ObsVerdict(s2, c, e.obs)
            IN IF v2 = "ok"
               THEN (IF e.op = "read" /\ Has(e.obs, "graphs") /\ s.lg # Unset /\ SeqToSet(e.obs.graphs) # s.lg
                     THEN "ReadsPure:GraphSet" ELSE "ok")
               ELSE IF e.op \in {"read", "binop", "open", "next"} THEN "ReadsPure:" \o v2 ELSE v2

ApplyEv(s, e) == LET G2 == NewG(s, e) IN
                 [G |-> G2, made |-> NewMade(s, e), its |-> NewIts(s, e, G2),
                  lg |-> IF Has(e, "obs") /\ Has(e.obs, "graphs") THEN SeqToSet(e.obs.graphs) ELSE s.lg]

(* ---------------- chained validation ------------------------------------ *)
Init == k = 1 /\ l = 1 /\ st = St0 /\ verdict = "ok"

Step == /\ k <= Len(Batch) /\ verdict = "ok" /\ l <= Len(Batch[k].ev)
        /\ LET e == Batch[k].ev[l]
               v == Judge(st, Batch[k].cfg, e)
           IN IF v = "ok"
              THEN st' = ApplyEv(st, e) /\ l' = l + 1 /\ UNCHANGED <<k, verdict>>
              ELSE verdict' = v /\ UNCHANGED <<k, l, st>>

NextTrace == /\ k <= Len(Batch) /\ (verdict # "ok" \/ l > Len(Batch[k].ev))
             /\ PrintT(<<"VERDICT", Batch[k].tid, verdict, l>>)
             /\ k' = k + 1 /\ l' = 1 /\ st' = St0 /\ verdict' = "ok"

TraceSpec == Init /\ [][Step \/ NextTrace]_vars
===============================================================================
