SPECIFICATION Spec
CONSTANTS
  NNs = 2
  Locals = {"x"}
  NLit = 1
  Pfx = {"p"}
  Langs = {"en"}
  MaxNodes = 1
  MaxDepth = 3
  MaxTokens = 3
INVARIANT WellFormedMeaning
INVARIANT NoDanglingCell
CONSTRAINT MCBound
CHECK_DEADLOCK FALSE
