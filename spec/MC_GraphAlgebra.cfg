SPECIFICATION Spec
CONSTANTS
  Subj = {"s1", "b1"}
  Pred = {"p1", "p2"}
  Obj = {"s1", "b1", "o2"}
  BN = {"b1"}
  Depth = 4
INVARIANT Law_SetFunctional
INVARIANT Law_SetLocal
INVARIANT Law_Xor
INVARIANT Law_SubDisjoint
INVARIANT Law_Partition
INVARIANT Law_CBDSub
INVARIANT Law_CBDClosed
INVARIANT Law_ChoicesUnion
VIEW View
CHECK_DEADLOCK FALSE
