SPECIFICATION Spec
CONSTANTS
  UserPrefixes = {"", "a", "b"}
  Nss <- MCNss
  Iris <- MCIris
  SepChars = {"/", "#"}
  InvalidateOnBind = TRUE
  KeepBothBound = TRUE
  Depth = 6
INVARIANT Inv_Bijection
INVARIANT Inv_QnameBound
PROPERTY Prop_NoGenerate
PROPERTY Prop_BindFrame
PROPERTY Prop_BindBinds
PROPERTY Prop_QnameFrame
VIEW View
CHECK_DEADLOCK FALSE
