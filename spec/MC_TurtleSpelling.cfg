SPECIFICATION Spec
CONSTANTS
  NNs = 1
  Locals = {"x"}
  NLit = 1
  ShortLits = {1}
  Pfx = {"p"}
  Abbrev = TRUE
  Graphs = "block"
  MaxStmts = 1
  MaxDepth = 2
  MaxTokens = 3
INVARIANT WellFormedMeaning
INVARIANT NoDanglingCell
CHECK_DEADLOCK FALSE
