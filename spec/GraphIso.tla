-------------------------------- MODULE GraphIso --------------------------------
(***************************************************************************)
(* RDF graph / dataset isomorphism (RDF 1.1 Concepts, 3.6): two graphs are *)
(* isomorphic iff some bijection between their blank nodes, the identity   *)
(* on IRIs and literals, maps one onto the other.  Used by C03 C06 C12 C14.*)
(* Terms are records with field k; blank nodes have k = "bnode".           *)
(* The bijection search is a backtracking enumeration of all bijections    *)
(* (n! candidates) - the independent oracle for rdflib's colour-refinement *)
(* algorithm.                                                              *)
(***************************************************************************)
EXTENDS Naturals, Sequences, FiniteSets

IsB(x) == x.k = "bnode"
BNodes3(g) == {x \in UNION {{t[1], t[2], t[3]} : t \in g} : IsB(x)}
BNodes4(q) == {x \in UNION {{t[1], t[2], t[3]} : t \in q} : IsB(x)}
              \cup {[k |-> "bnode", v |-> t[4].v] : t \in {u \in q : u[4].k = "bnode"}}

RECURSIVE Bijections(_, _)
Bijections(A, B) ==
  IF A = {} THEN {<<>>}
  ELSE LET a == CHOOSE x \in A : TRUE
       IN UNION {{[y \in DOMAIN f \cup {a} |-> IF y = a THEN b ELSE f[y]] : f \in Bijections(A \ {a}, B \ {b})} : b \in B}

Ren(x, f) == IF x \in DOMAIN f THEN f[x] ELSE x
Rename3(g, f) == {<<Ren(t[1], f), Ren(t[2], f), Ren(t[3], f)>> : t \in g}
Rename4(q, f) == {<<Ren(t[1], f), Ren(t[2], f), Ren(t[3], f), Ren(t[4], f)>> : t \in q}

(* cheap necessary conditions first: sizes; then the search *)
Iso(g, h) == /\ Cardinality(g) = Cardinality(h)
             /\ Cardinality(BNodes3(g)) = Cardinality(BNodes3(h))
             /\ {t \in g : BNodes3({t}) = {}} = {t \in h : BNodes3({t}) = {}}
             /\ \E f \in Bijections(BNodes3(g), BNodes3(h)) : Rename3(g, f) = h
(* datasets: quads <<s, p, o, gname>>, gname a term record; ONE bijection for all graphs, graph names included *)
IsoDs(q, r) == /\ Cardinality(q) = Cardinality(r)
               /\ Cardinality(BNodes4(q)) = Cardinality(BNodes4(r))
               /\ \E f \in Bijections(BNodes4(q), BNodes4(r)) : Rename4(q, f) = r
(* the bijection must be the identity on the blank nodes in Keep (pre-existing nodes, C12) *)
===============================================================================
