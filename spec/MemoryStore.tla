------------------------------ MODULE MemoryStore ------------------------------
(***************************************************************************)
(* Tier I (implementation-shaped) for C01 / C02: a transcription of        *)
(* rdflib/plugins/stores/memory.py (class Memory): three triple indexes,   *)
(* per-triple context maps with the "default contexts" compression,        *)
(* triples-per-context sets, the set of known contexts, and the lazily     *)
(* snapshotting generators returned by Memory.triples().                   *)
(*                                                                         *)
(* TLC checks that this algorithm refines the property spec: every call    *)
(* changes the abstract dataset AbsG exactly as StoreOps prescribes, every *)
(* read path agrees with AbsG, no internal lookup can fail, and an open    *)
(* generator yields only what matched and was in its graph since it began. *)
(*                                                                         *)
(* HasCtxFallback = TRUE transcribes __triple_has_context as it was        *)
(* written at the pinned commit (falls back to the default context map     *)
(* even for a triple that no longer exists); FALSE is the repaired code.   *)
(***************************************************************************)
EXTENDS StoreOps, TLC, Json

CONSTANTS S, P, O, Names, MaxIters, Depth,
          HasCtxFallback,     \* TRUE: as written at the pinned commit
          Witness             \* TRUE: print violating histories as JSON instead of stopping

NoneC  == "None"               \* key None of the context dictionaries (= union of all contexts)
NoDflt == {"<unset>"}          \* __defaultContexts is None

VARIABLES spo, pos, osp,       \* the three indexes, as sets of leaves <<s,p,o>>
          keys,                \* nested-dict keys ever created (they persist when leaves are deleted)
          tctx,                \* __tripleContexts: triple -> set of context keys (explicit entries only)
          dflt,                \* __defaultContexts: NoDflt or a set of context keys
          ctri,                \* __contextTriples: context key -> set of triples
          allctx,              \* __all_contexts
          gens,                \* sequence of generator records
          running,             \* 0, or the index of the generator currently executing between two yields
          err,                 \* TRUE once an internal lookup would have raised
          seen,                \* ghost: per generator, what its graph contained and matched since it was opened
          act,                 \* the last API call (ghost)
          hist                 \* history of API calls (ghost; hidden by VIEW)

vars == <<spo, pos, osp, keys, tctx, dflt, ctri, allctx, gens, running, err, seen, act, hist>>

Triples == S \X P \X O
Pats    == (S \cup {Wild}) \X (P \cup {Wild}) \X (O \cup {Wild})
CtxKeys == Names \cup {NoneC}

(* ---- internal helpers (named after the methods they transcribe) ---------- *)
CtxMap(t)    == IF t \in DOMAIN tctx THEN tctx[t] ELSE dflt          \* __tripleContexts.get(t, __defaultContexts)
HasCtx(t, c) == IF HasCtxFallback THEN c \in CtxMap(t)               \* __triple_has_context, as written
                ELSE IF t \in DOMAIN tctx THEN c \in tctx[t]
                     ELSE t \in spo /\ c \in dflt                    \* repaired: default info only for stored triples

(* abstraction: the dataset this store state represents *)
AbsG == [c \in allctx |-> {t \in spo : c \in CtxMap(t)}]
AbsUnion == {t \in spo : NoneC \in CtxMap(t)}

(* which index a pattern is answered from, and the candidates it offers *)
Index(pat) == IF pat[1] # Wild THEN spo ELSE IF pat[2] # Wild THEN pos ELSE IF pat[3] # Wild THEN osp ELSE spo
MTriples(pat, c) ==      \* Memory.triples(pat, context=c), evaluated atomically
  IF pat = <<Wild, Wild, Wild>>
  THEN IF c \in DOMAIN ctri THEN ctri[c] ELSE {}
  ELSE {t \in Index(pat) : Match(pat, t) /\ HasCtx(t, c)}
MLen(c) == IF c \in DOMAIN ctri THEN Cardinality(ctri[c]) ELSE 0
MContexts(t) == IF t \in spo THEN CtxMap(t) \ {NoneC} ELSE {}

(* ---- Memory.add ------------------------------------------------------------ *)
KeysOf(t) == {<<"spo", t[1]>>, <<"spo", t[1], t[2]>>, <<"pos", t[2]>>, <<"pos", t[2], t[3]>>,
              <<"osp", t[3]>>, <<"osp", t[3], t[1]>>}
MAdd(t, c) ==
  LET exists == t \in spo
      tc     == IF exists THEN CtxMap(t) \cup {c, NoneC} ELSE {c, NoneC}
      d2     == IF dflt = NoDflt THEN tc ELSE dflt
  IN /\ running = 0
     /\ spo' = spo \cup {t}
     /\ pos' = IF exists THEN pos ELSE pos \cup {t}
     /\ osp' = IF exists THEN osp ELSE osp \cup {t}
     /\ keys' = keys \cup KeysOf(t)
     /\ dflt' = d2
     /\ tctx' = IF tc = d2 THEN [x \in DOMAIN tctx \ {t} |-> tctx[x]]
                ELSE [x \in DOMAIN tctx \cup {t} |-> IF x = t THEN tc ELSE tctx[x]]
     /\ ctri' = [x \in DOMAIN ctri \cup {c} |->
                   IF x \in {c, NoneC} THEN (IF x \in DOMAIN ctri THEN ctri[x] ELSE {}) \cup {t} ELSE ctri[x]]
     /\ allctx' = allctx \cup {c}
     /\ UNCHANGED <<gens, running, err>>
     /\ act' = [op |-> "add", g |-> c, t |-> t]
     /\ hist' = Append(hist, act')

(* ---- Memory.remove --------------------------------------------------------- *)
(* per matching triple: which context keys the loop body removes *)
Rem1(t, c) == IF c = NoneC THEN CtxMap(t) ELSE {c} \cap CtxMap(t)
Rem2(t, c) == LET K1 == CtxMap(t) \ Rem1(t, c) IN
              IF NoneC \in K1 /\ (c = NoneC \/ Cardinality(K1) = 1) THEN {NoneC} ELSE {}
Rem(t, c)  == Rem1(t, c) \cup Rem2(t, c)
MRemove(pat, c) ==       \* c \in CtxKeys; NoneC = "context=None"
  LET T    == MTriples(pat, c)
      gone == {t \in T : CtxMap(t) \ Rem(t, c) = {}}
      bad  == \E t \in T : \E x \in Rem(t, c) : x \notin DOMAIN ctri \/ t \notin ctri[x]
      c1   == [x \in DOMAIN ctri |-> ctri[x] \ {t \in T : x \in Rem(t, c)}]
      c2   == IF c # NoneC /\ c \in DOMAIN c1 /\ c1[c] = {} THEN [x \in DOMAIN c1 \ {c} |-> c1[x]] ELSE c1
  IN /\ running = 0
     /\ spo' = spo \ gone /\ pos' = pos \ gone /\ osp' = osp \ gone
     /\ tctx' = [t \in (DOMAIN tctx \cup T) \ (gone \cup {u \in T : CtxMap(u) \ Rem(u, c) = dflt}) |->
                    IF t \in T THEN CtxMap(t) \ Rem(t, c) ELSE tctx[t]]
     /\ ctri' = c2
     /\ err' = (err \/ bad)
     /\ UNCHANGED <<keys, dflt, allctx, gens, running>>
     /\ act' = [op |-> "remove", g |-> (IF c = NoneC THEN ALLG ELSE c), pat |-> pat]
     /\ hist' = Append(hist, act')

MAddGraph(c) == /\ running = 0 /\ allctx' = allctx \cup {c}
                /\ UNCHANGED <<spo, pos, osp, keys, tctx, dflt, ctri, gens, running, err>>
                /\ act' = [op |-> "graph", g |-> c] /\ hist' = Append(hist, act')

(* Memory.remove_graph = remove((None,None,None), graph) then forget the graph *)
MRemoveGraph(c) ==
  LET T    == IF c \in DOMAIN ctri THEN ctri[c] ELSE {}
      gone == {t \in T : CtxMap(t) \ Rem(t, c) = {}}
      c1   == [x \in DOMAIN ctri |-> ctri[x] \ {t \in T : x \in Rem(t, c)}]
  IN /\ running = 0
     /\ spo' = spo \ gone /\ pos' = pos \ gone /\ osp' = osp \ gone
     /\ tctx' = [t \in (DOMAIN tctx \cup T) \ (gone \cup {u \in T : CtxMap(u) \ Rem(u, c) = dflt}) |->
                    IF t \in T THEN CtxMap(t) \ Rem(t, c) ELSE tctx[t]]
     /\ ctri' = [x \in DOMAIN c1 \ {c} |-> c1[x]]
     /\ allctx' = allctx \ {c}
     /\ err' = (err \/ \E t \in T : \E x \in Rem(t, c) : x \notin DOMAIN ctri \/ t \notin ctri[x])
     /\ UNCHANGED <<keys, dflt, gens, running>>
     /\ act' = [op |-> "remove_graph", g |-> c] /\ hist' = Append(hist, act')

(* ---- generators returned by Memory.triples --------------------------------- *)
(* Outer loop level of the nested-dict walk for a pattern, "" when there is a single level *)
OuterKind(pat) ==
  CASE pat = <<Wild, Wild, Wild>>                         -> "all"
    [] pat[1] # Wild /\ pat[2] # Wild /\ pat[3] # Wild    -> "one"
    [] pat[1] # Wild /\ pat[2] # Wild                     -> "flat"    \* for o in list(spo[s][p])
    [] pat[1] # Wild                                      -> "p"       \* for p in list(spo[s])  (o bound or not)
    [] pat[2] # Wild /\ pat[3] # Wild                     -> "flat"    \* for s in list(pos[p][o])
    [] pat[2] # Wild                                      -> "o"       \* for o in list(pos[p])
    [] OTHER                                              -> "s"       \* for s in list(osp[o])
OuterKeyOf(kind, t) == CASE kind = "p" -> t[2] [] kind = "o" -> t[3] [] kind = "s" -> t[1] [] OTHER -> "-"
(* keys of the outer dictionary, including keys whose leaves have all been deleted *)
OuterKeys(pat) ==
  LET kind == OuterKind(pat) IN
  CASE kind = "p" -> {k[3] : k \in {x \in keys : Len(x) = 3 /\ x[1] = "spo" /\ x[2] = pat[1]}}
    [] kind = "o" -> {k[3] : k \in {x \in keys : Len(x) = 3 /\ x[1] = "pos" /\ x[2] = pat[2]}}
    [] kind = "s" -> {k[3] : k \in {x \in keys : Len(x) = 3 /\ x[1] = "osp" /\ x[2] = pat[3]}}
    [] OTHER -> {}
Leaves(pat) == {t \in Index(pat) : Match(pat, t)}

GOpen(n, pat) ==
  /\ running = 0 /\ Len(gens) < MaxIters
  /\ gens' = Append(gens, [c |-> n, pat |-> pat, phase |-> "new", outer |-> {}, inner |-> {},
                           out |-> {}, last |-> <<>>])
  /\ UNCHANGED <<spo, pos, osp, keys, tctx, dflt, ctri, allctx, running, err>>
  /\ act' = [op |-> "open", it |-> Len(gens) + 1, g |-> n, pat |-> pat] /\ hist' = Append(hist, act')

(* next(gen): the generator runs (micro-steps GRun) until it yields or finishes *)
GNext(i) ==
  /\ running = 0 /\ i \in DOMAIN gens
  /\ running' = i
  /\ UNCHANGED <<spo, pos, osp, keys, tctx, dflt, ctri, allctx, gens, err, act, hist>>

Yield(i, t) == /\ gens' = [gens EXCEPT ![i].out = @ \cup {t}, ![i].last = t, ![i].phase = "run",
                                       ![i].inner = gens[i].inner \ {t}]
               /\ running' = 0
               /\ act' = [op |-> "next", it |-> i, res |-> [k |-> "t", t |-> t]] /\ hist' = Append(hist, act')
Finish(i)   == /\ gens' = [gens EXCEPT ![i].phase = "done"]
               /\ running' = 0
               /\ act' = [op |-> "next", it |-> i, res |-> [k |-> "stop"]] /\ hist' = Append(hist, act')

GRun ==
  /\ running # 0
  /\ LET i == running  g == gens[i]  kind == OuterKind(g.pat) IN
     /\ UNCHANGED <<spo, pos, osp, keys, tctx, dflt, ctri, allctx, err>>
     /\ CASE g.phase = "done" -> Finish(i)
          [] g.phase = "new" /\ kind = "all" ->       \* for triple in __contextTriples[req_ctx].copy(): yield (no re-check)
               gens' = [gens EXCEPT ![i].phase = "run", ![i].inner = IF g.c \in DOMAIN ctri THEN ctri[g.c] ELSE {}]
               /\ UNCHANGED <<running, act, hist>>
          [] g.phase = "new" /\ kind \in {"one", "flat"} ->    \* list(d.keys()) snapshot / direct lookup
               gens' = [gens EXCEPT ![i].phase = "run", ![i].inner = Leaves(g.pat)]
               /\ UNCHANGED <<running, act, hist>>
          [] g.phase = "new" ->                                   \* outer list(d.keys()) snapshot
               gens' = [gens EXCEPT ![i].phase = "run", ![i].outer = OuterKeys(g.pat)]
               /\ UNCHANGED <<running, act, hist>>
          [] g.phase = "run" /\ g.inner # {} ->
               \E t \in g.inner :
                  IF kind = "all" \/ HasCtx(t, g.c) THEN Yield(i, t)
                  ELSE gens' = [gens EXCEPT ![i].inner = @ \ {t}] /\ UNCHANGED <<running, act, hist>>
          [] g.phase = "run" /\ g.inner = {} /\ g.outer # {} ->   \* enter next outer key: inner snapshot now
               \E k \in g.outer :
                  gens' = [gens EXCEPT ![i].outer = @ \ {k},
                                       ![i].inner = {t \in Leaves(g.pat) : OuterKeyOf(kind, t) = k}]
                  /\ UNCHANGED <<running, act, hist>>
          [] OTHER -> Finish(i)

(* ghost: what each generator's graph has contained (and matched) since the generator was opened *)
SeenUpdate == seen' = [i \in DOMAIN gens' |->
                         (IF i \in DOMAIN seen THEN seen[i] ELSE {}) \cup Sel(GGet(AbsG', gens'[i].c), gens'[i].pat)]

Next == /\ Len(hist) < Depth
        /\ \/ \E t \in Triples, c \in Names : MAdd(t, c)
           \/ \E pat \in Pats, c \in CtxKeys : MRemove(pat, c)
           \/ \E c \in Names : MAddGraph(c) \/ MRemoveGraph(c)
           \/ \E n \in Names, pat \in Pats : GOpen(n, pat)
           \/ \E i \in DOMAIN gens : GNext(i)
           \/ GRun
        /\ SeenUpdate

Init == /\ spo = {} /\ pos = {} /\ osp = {} /\ keys = {} /\ tctx = <<>> /\ dflt = NoDflt
        /\ ctri = [x \in {NoneC} |-> {}] /\ allctx = {} /\ gens = <<>> /\ running = 0 /\ err = FALSE
        /\ act = [op |-> "init"] /\ hist = <<>> /\ seen = <<>>

Spec == Init /\ [][Next]_vars

(* ---- what TLC checks ------------------------------------------------------ *)
(* the three indexes hold the same leaves; the context bookkeeping is coherent *)
Inv_IndexCoherence ==
  /\ spo = pos /\ pos = osp
  /\ DOMAIN tctx \subseteq spo
  /\ \A t \in spo : CtxMap(t) # NoDflt /\ CtxMap(t) # {} /\ CtxMap(t) \subseteq CtxKeys
  /\ \A t \in DOMAIN tctx : tctx[t] # dflt
  /\ NoneC \in DOMAIN ctri
  /\ \A c \in DOMAIN ctri : ctri[c] = {t \in spo : c \in CtxMap(t)}
  /\ \A t \in spo : \A c \in CtxMap(t) : c \in DOMAIN ctri
  /\ \A t \in spo : CtxMap(t) \ {NoneC} \subseteq allctx
  /\ \A t \in spo : NoneC \in CtxMap(t)
Inv_NoRaise == ~err
(* every read path describes the same dataset (only between API calls) *)
Inv_ReadsAgree ==
  \A pat \in Pats :
     /\ \A c \in Names : MTriples(pat, c) = Sel(GGet(AbsG, c), pat)
     /\ MTriples(pat, NoneC) = Sel(UNION {GGet(AbsG, c) : c \in Names}, pat)
Inv_LenAgrees == \A c \in Names : MLen(c) = Cardinality(GGet(AbsG, c))
Inv_ContextsAgree == \A t \in Triples : MContexts(t) = {c \in Names : t \in GGet(AbsG, c)}
(* refinement of TripleStore's actions on the abstract dataset *)
Same(A, B) == \A n \in Names : GGet(A, n) = GGet(B, n)
Prop_Refines ==
  [][CASE act'.op = "add" /\ hist' # hist          -> Same(AbsG', PAdd(AbsG, act'.g, act'.t)) /\ allctx' = allctx \cup {act'.g}
       [] act'.op = "remove" /\ hist' # hist       -> Same(AbsG', PRemove(AbsG, act'.g, act'.pat)) /\ allctx' = allctx
       [] act'.op = "graph" /\ hist' # hist        -> Same(AbsG', AbsG) /\ allctx' = allctx \cup {act'.g}
       [] act'.op = "remove_graph" /\ hist' # hist -> Same(AbsG', GDrop(AbsG, act'.g)) /\ allctx' = allctx \ {act'.g}
       [] OTHER -> Same(AbsG', AbsG) /\ allctx' = allctx]_vars
(* C01, iteration clause *)
IterSafe == \A i \in DOMAIN gens : gens[i].out \subseteq seen[i]
Inv_IterSafe == IF Witness THEN (IterSafe \/ PrintT(ToJson(hist))) ELSE IterSafe

View == <<spo, pos, osp, keys, tctx, dflt, ctri, allctx, gens, running, err, seen>>
===============================================================================
