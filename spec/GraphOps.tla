-------------------------------- MODULE GraphOps --------------------------------
(***************************************************************************)
(* Growth beyond the listed properties: the Graph-level API that sits on   *)
(* top of add / remove / triples (rdflib/graph.py): functional-property    *)
(* update (set), value(), the projections subjects / predicates / objects  *)
(* and their pair forms, triples_choices, the set operators + - * ^ += -=, *)
(* all_nodes, connected, isomorphic (ground graphs), cbd.                  *)
(* A graph is a set of triples <<s, p, o>> of term names; "_" in a pattern *)
(* is the wildcard.  Pure operators only: GraphAlgebra.tla (behaviours,    *)
(* exported for replay) and TraceGraphAlgebra.tla (trace validation) both  *)
(* extend this module, so there is one definition of every call.           *)
(***************************************************************************)
EXTENDS Integers, Sequences, FiniteSets

W == "_"
MatchT(t, pat) == \A i \in 1..3 : pat[i] = W \/ pat[i] = t[i]
Sel(G, pat) == {t \in G : MatchT(t, pat)}

(* Graph.set((s, p, o)): s p becomes single-valued with value o *)
SetOp(G, t) == (G \ Sel(G, <<t[1], t[2], W>>)) \cup {t}
(* Graph.remove(pattern) *)
RemoveOp(G, pat) == G \ Sel(G, pat)

(* projections: position i of the triples that match; the generator yields one item per matching triple *)
Proj(G, pat, i) == {t[i] : t \in Sel(G, pat)}
Mult(G, pat, i, x) == Cardinality({t \in Sel(G, pat) : t[i] = x})
Pairs(G, pat, i, j) == {<<t[i], t[j]>> : t \in Sel(G, pat)}
MultPair(G, pat, i, j, x) == Cardinality({t \in Sel(G, pat) : <<t[i], t[j]>> = x})

(* Graph.value(s, p, o): exactly one position is the wildcard *)
ValuePos(pat) == CHOOSE i \in 1..3 : pat[i] = W
ValueSet(G, pat) == Proj(G, pat, ValuePos(pat))

(* triples_choices: position pos of the pattern is a list of alternatives; the empty list is the wildcard (store.py spells that branch out) *)
Choices(G, pat, pos, alts) == IF alts = {} THEN Sel(G, [pat EXCEPT ![pos] = W]) ELSE UNION {Sel(G, [pat EXCEPT ![pos] = a]) : a \in alts}

Nodes(G) == {t[1] : t \in G} \cup {t[3] : t \in G}
Adj(G, x) == {t[3] : t \in {u \in G : u[1] = x}} \cup {t[1] : t \in {u \in G : u[3] = x}}
RECURSIVE Grow(_, _)
Grow(G, R) == LET R2 == R \cup UNION {Adj(G, x) : x \in R} IN IF R2 = R THEN R ELSE Grow(G, R2)
(* Graph.connected(): every node reaches every other one when direction is ignored; the empty graph is not connected *)
Connected(G) == G # {} /\ \A x \in Nodes(G) : Grow(G, {x}) = Nodes(G)

(* Concise Bounded Description, rules 1 and 2 (no reification vocabulary in the data) *)
RECURSIVE CBDNodes(_, _, _)
CBDNodes(G, R, BN) == LET R2 == R \cup {t[3] : t \in {u \in G : u[1] \in R /\ u[3] \in BN}}
                      IN IF R2 = R THEN R ELSE CBDNodes(G, R2, BN)
CBD(G, s, BN) == {t \in G : t[1] \in CBDNodes(G, {s}, BN)}

BinOp(o, A, B) == CASE o = "add" -> A \cup B
                    [] o = "sub" -> A \ B
                    [] o = "mul" -> A \cap B
                    [] o = "xor" -> (A \ B) \cup (B \ A)
===============================================================================
