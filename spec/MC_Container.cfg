SPECIFICATION Spec
CONSTANTS
  Members = {"a", "b"}
  MaxLen = 3
  Depth = 1000
  Kind = "Seq"
INVARIANT Inv_Dense
INVARIANT Inv_Functional
INVARIANT Inv_Bound
VIEW View
CHECK_DEADLOCK FALSE
