----------------------------- MODULE TraceContainer -----------------------------
(***************************************************************************)
(* Trace validation for rdflib.container (growth check G01): results and   *)
(* exceptions are those of a 1-based Python list, and after every call the *)
(* graph spells exactly that list (rdf:_1 .. rdf:_n, one value each, the   *)
(* type triple, nothing else about the container).                         *)
(***************************************************************************)
EXTENDS Integers, Sequences, FiniteSets, TLC, Json, IOUtils
Batch == ndJsonDeserialize(IOEnv.TRACE_FILE)
Devs  == LET d == JsonDeserialize(IOEnv.DEVS_FILE) IN {d[i] : i \in 1..Len(d)}
VARIABLES k, l, st, verdict
vars == <<k, l, st, verdict>>
Has(r, f) == f \in DOMAIN r
SeqToSet(s) == {s[i] : i \in 1..Len(s)}
RemoveAt(s, i) == SubSeq(s, 1, i - 1) \o SubSeq(s, i + 1, Len(s))
InsertAt(s, i, x) == SubSeq(s, 1, i - 1) \o <<x>> \o SubSeq(s, i, Len(s))
Occurs(s, x) == \E i \in 1..Len(s) : s[i] = x
St0 == <<>>
NewLst(L, e) ==
  CASE e.op = "new" -> e.items
    [] e.op = "append" -> Append(L, e.x)
    [] e.op = "append_multiple" -> L \o e.xs
    [] e.op = "setitem" -> IF e.i \in 1..Len(L) THEN [L EXCEPT ![e.i] = e.x] ELSE L
    [] e.op = "delitem" -> IF e.i \in 1..Len(L) THEN RemoveAt(L, e.i) ELSE L
    [] e.op = "add_at_position" -> IF e.i \in 1..(Len(L) + 1) THEN InsertAt(L, e.i, e.x) ELSE L
    [] e.op = "clear" -> <<>>
    [] OTHER -> L
Ops == {"new", "append", "append_multiple", "setitem", "delitem", "add_at_position", "clear", "getitem", "index", "items", "len", "anyone"}
ResVerdict(L, e) ==
  LET r == e.res IN
  CASE e.op \in {"new", "append", "append_multiple", "clear"} -> IF r.k = "ok" THEN "ok" ELSE "ListAgrees:raised:" \o e.op
    [] e.op \in {"setitem", "delitem"} ->
         IF e.i \in 1..Len(L) THEN (IF r.k = "ok" THEN "ok" ELSE "ListAgrees:raised:" \o e.op)
         ELSE IF r.k = "raise" /\ r.e = "KeyError" THEN "ok" ELSE "KeyErrorExpected:" \o e.op
    [] e.op = "add_at_position" ->
         IF e.i \in 1..(Len(L) + 1) THEN (IF r.k = "ok" THEN "ok" ELSE "ListAgrees:raised:add_at_position")
         ELSE IF r.k = "raise" /\ r.e = "ValueError" THEN "ok" ELSE "ValueErrorExpected:add_at_position"
    [] e.op = "getitem" ->
         IF e.i \in 1..Len(L) THEN (IF r.k = "val" /\ r.v = L[e.i] THEN "ok" ELSE "ListAgrees:getitem")
         ELSE IF r.k = "raise" /\ r.e = "KeyError" THEN "ok" ELSE "KeyErrorExpected:getitem"
    [] e.op = "index" ->
         IF Occurs(L, e.x) THEN (IF r.k = "val" /\ r.n \in {i \in 1..Len(L) : L[i] = e.x} THEN "ok" ELSE "ListAgrees:index")
         ELSE IF r.k = "raise" /\ r.e = "ValueError" THEN "ok" ELSE "ValueErrorExpected:index"
    [] e.op = "items" -> IF r.k = "val" /\ r.items = L THEN "ok" ELSE "ListAgrees:items"
    [] e.op = "len" -> IF r.k = "val" /\ r.n = Len(L) THEN "ok" ELSE "ListAgrees:len"
    [] e.op = "anyone" -> IF L = <<>> THEN (IF r.k = "raise" THEN "ok" ELSE "EmptyAltRaises")
                          ELSE IF r.k = "val" /\ Occurs(L, r.v) THEN "ok" ELSE "ListAgrees:anyone"
(* the graph: e.members = sequence of <<index, value>> for every rdf:_n triple of the container, e.other = count of other triples *)
Spelled(L, e) == SeqToSet(e.members) = {<<i, L[i]>> : i \in 1..Len(L)} /\ Len(e.members) = Len(L)
Judge(L, e) ==
  IF e.op \notin Ops THEN "UnknownEvent"
  ELSE LET v0 == ResVerdict(L, e) IN
  IF v0 # "ok" THEN v0
  ELSE LET L2 == NewLst(L, e) IN
       IF ~Spelled(L2, e) THEN "GraphSpellsList:" \o e.op
       ELSE IF e.len # Len(L2) THEN "LenAgrees:" \o e.op
       ELSE IF e.items # L2 THEN "ItemsAgree:" \o e.op
       ELSE IF ~e.typed THEN "TypeTripleKept"
       ELSE "ok"
Init == k = 1 /\ l = 1 /\ st = St0 /\ verdict = "ok"
Step == /\ k <= Len(Batch) /\ verdict = "ok" /\ l <= Len(Batch[k].ev)
        /\ LET e == Batch[k].ev[l]
               v == Judge(st, e)
           IN IF v = "ok"
              THEN st' = NewLst(st, e) /\ l' = l + 1 /\ UNCHANGED <<k, verdict>>
              ELSE verdict' = v /\ UNCHANGED <<k, l, st>>
NextTrace == /\ k <= Len(Batch) /\ (verdict # "ok" \/ l > Len(Batch[k].ev))
             /\ PrintT(<<"VERDICT", Batch[k].tid, verdict, l>>)
             /\ k' = k + 1 /\ l' = 1 /\ st' = St0 /\ verdict' = "ok"
TraceSpec == Init /\ [][Step \/ NextTrace]_vars
===============================================================================
