SPECIFICATION Spec
CONSTANTS
  Wrappers = {"w1"}
  Own <- Own1
  Names = {"g1", "g2"}
  Variant = "as_written"
  Depth = 1000
  InitContents <- InitAll
PROPERTY Prop_RollbackRestores
PROPERTY Prop_CommitKeeps
PROPERTY Prop_SecondRollbackNoop
PROPERTY Prop_SingleRestores
PROPERTY Prop_OtherIntact

VIEW View
CHECK_DEADLOCK FALSE
