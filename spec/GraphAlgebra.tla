------------------------------ MODULE GraphAlgebra ------------------------------
(***************************************************************************)
(* Behaviours of two graphs A and B under the Graph-level API (GraphOps).  *)
(* One action per public call; `hist` is exported for replay on rdflib.    *)
(* Laws of the operators are checked as invariants over every reachable    *)
(* pair of graphs.                                                         *)
(***************************************************************************)
EXTENDS GraphOps, TLC, Json
CONSTANTS Subj, Pred, Obj, BN, Depth
VARIABLES st, hist
vars == <<st, hist>>
U == Subj \X Pred \X Obj
GN == {"A", "B"}
Other(g) == IF g = "A" THEN "B" ELSE "A"
Pats == (Subj \cup {W}) \X (Pred \cup {W}) \X (Obj \cup {W})
Step(e) == hist' = Append(hist, e)

Add(g, t)    == st' = [st EXCEPT ![g] = @ \cup {t}] /\ Step([op |-> "add", g |-> g, t |-> t])
Remove(g, p) == st' = [st EXCEPT ![g] = RemoveOp(@, p)] /\ Step([op |-> "remove", g |-> g, pat |-> p])
Set(g, t)    == st' = [st EXCEPT ![g] = SetOp(@, t)] /\ Step([op |-> "set", g |-> g, t |-> t])
IAdd(g)      == st' = [st EXCEPT ![g] = @ \cup st[Other(g)]] /\ Step([op |-> "iadd", g |-> g, h |-> Other(g)])
ISub(g)      == st' = [st EXCEPT ![g] = @ \ st[Other(g)]] /\ Step([op |-> "isub", g |-> g, h |-> Other(g)])
Read(e)      == UNCHANGED st /\ Step(e)

Next == /\ Len(hist) < Depth
        /\ \/ \E g \in GN, t \in U : Add(g, t) \/ Set(g, t)
           \/ \E g \in GN, p \in Pats : Remove(g, p)
           \/ \E g \in GN : IAdd(g) \/ ISub(g)
           \/ \E g \in GN, o \in {"add", "sub", "mul", "xor"} : Read([op |-> "binop", g |-> g, h |-> Other(g), o |-> o])
           \/ \E g \in GN, s \in Subj, p \in Pred : Read([op |-> "value", g |-> g, pat |-> <<s, p, W>>, any |-> FALSE])
           \/ \E g \in GN, s \in Subj : Read([op |-> "cbd", g |-> g, s |-> s])
           \/ \E g \in GN : Read([op |-> "connected", g |-> g])
Init == st \in [GN -> {{}}] /\ hist = <<>>
Spec == Init /\ [][Next]_vars

A == st["A"]
B == st["B"]
(* laws *)
Law_SetFunctional == \A g \in GN, t \in U : Proj(SetOp(st[g], t), <<t[1], t[2], W>>, 3) = {t[3]}
Law_SetLocal      == \A g \in GN, t \in U : \A u \in U : (u[1] # t[1] \/ u[2] # t[2]) => (u \in SetOp(st[g], t) <=> u \in st[g])
Law_Xor           == BinOp("xor", A, B) = BinOp("sub", BinOp("add", A, B), BinOp("mul", A, B))
Law_SubDisjoint   == BinOp("sub", A, B) \cap B = {}
Law_Partition     == BinOp("sub", A, B) \cup BinOp("mul", A, B) = A
Law_CBDSub        == \A s \in Subj : CBD(A, s, BN) \subseteq A /\ Sel(A, <<s, W, W>>) \subseteq CBD(A, s, BN)
Law_CBDClosed     == \A s \in Subj : \A t \in CBD(A, s, BN) : t[3] \in BN => Sel(A, <<t[3], W, W>>) \subseteq CBD(A, s, BN)
ASSUME Law_ConnectedOne == \A t \in U : Connected({t})
Law_ChoicesUnion  == \A p \in Pred : Choices(A, <<W, p, W>>, 1, Subj) = Sel(A, <<W, p, W>>)
View == st
Export == IF Len(hist) = Depth THEN PrintT(ToJson(hist)) ELSE TRUE
===============================================================================
