-------------------------------- MODULE TraceDocs --------------------------------
(***************************************************************************)
(* Tier T for C03, C06, C12 (documents).  Terms are records; literals      *)
(* carry lexical form, datatype and (lower-cased) language tag, so literal *)
(* identity is record equality; blank nodes are compared up to a bijection *)
(* (GraphIso.tla).                                                         *)
(*   roundtrip{fmt, before, after}      C03: parse(serialize(g)) ~ g       *)
(*   roundtrip_ds{fmt, before, after}   C06: same for datasets, one        *)
(*                                      bijection across all graphs        *)
(*   patch{d1, d2, after}               C06: apply(diff(d1, d2), d1) = d2  *)
(*   parse{before, doc, after}          C12: after = before + the document *)
(*                                      with its labels renamed to FRESH   *)
(*                                      blank nodes; nothing removed       *)
(* Expressible(fmt, g) excludes graphs a syntax cannot express (RDF/XML:   *)
(* predicates that do not split into namespace + NCName, characters XML    *)
(* 1.0 forbids); the flags are part of the abstract input.                 *)
(***************************************************************************)
EXTENDS GraphIso, TLC, Json, IOUtils
Batch == ndJsonDeserialize(IOEnv.TRACE_FILE)
Devs  == LET d == JsonDeserialize(IOEnv.DEVS_FILE) IN {d[i] : i \in 1..Len(d)}
VARIABLES k, l, verdict
vars == <<k, l, verdict>>
S(s) == {s[i] : i \in 1..Len(s)}
T3(x) == {<<t[1], t[2], t[3]>> : t \in S(x)}
T4(x) == {<<t[1], t[2], t[3], t[4]>> : t \in S(x)}
Has(r, f) == f \in DOMAIN r
XSDString == "http://www.w3.org/2001/XMLSchema#string"

(* HexTuples may identify simple literals with xsd:string (RDF 1.1); nothing else may *)
NormLit(x, fmt) == IF fmt = "hext" /\ x.k = "lit" /\ x.dt = XSDString THEN [x EXCEPT !.dt = ""] ELSE x
Norm3(g, fmt) == {<<NormLit(t[1], fmt), t[2], NormLit(t[3], fmt)>> : t \in g}
(* TriX names graphs with <uri> only: a blank-node-named graph is written as an anonymous graph, so the identity of its
   name with a blank node used inside triples cannot be expressed - for trix the graph-name occurrence is a separate node *)
GName(x, fmt) == IF fmt = "trix" /\ x.k = "bnode" THEN [k |-> "bnode", v |-> x.v \o "#graph-name"] ELSE x
Norm4(q, fmt) == {<<NormLit(t[1], fmt), t[2], NormLit(t[3], fmt), GName(t[4], fmt)>> : t \in q}

(* JSON-LD compacted with a context writes xsd:string literals as JSON strings, i.e. as simple literals (the same literal in RDF 1.1) *)
NormFmt(e) == IF Has(e, "str_eq") /\ e.str_eq THEN "hext" ELSE e.fmt
Outcome(e) == IF e.res = "timeout" THEN "Terminates"
              ELSE IF e.res = "serialize_raised" THEN "SerializeRaised"
              ELSE IF e.res = "parse_raised" THEN "OwnOutputRejected"
              ELSE IF Has(e, "wellformed") /\ ~e.wellformed THEN "WellFormedOutput"
              ELSE "ok"

(* C12: every label of the document denotes one fresh node; existing content untouched *)
DocLabels(doc) == BNodes4(doc)
FreshIn(before, after) == BNodes4(after) \ BNodes4(before)
ParseOK(before, doc, after) ==
  LET L == DocLabels(doc)  F == FreshIn(before, after) IN
  /\ Cardinality(L) = Cardinality(F)
  /\ \E f \in Bijections(L, F) : after = before \cup Rename4(doc, f)

Judge(e) ==
  CASE e.op = "roundtrip" ->
         IF ~e.expressible THEN (IF e.res = "timeout" THEN "Terminates" ELSE IF Has(e, "wellformed") /\ ~e.wellformed THEN "WellFormedOutput" ELSE "ok")
         ELSE LET o == Outcome(e) IN
              IF o # "ok" THEN o
              ELSE IF Iso(Norm3(T3(e.before), NormFmt(e)), Norm3(T3(e.after), NormFmt(e))) THEN "ok" ELSE "RoundTripIso"
    [] e.op = "roundtrip_ds" ->
         LET o == Outcome(e) IN
         IF o # "ok" THEN o
         ELSE IF IsoDs(Norm4(T4(e.before), e.fmt), Norm4(T4(e.after), e.fmt)) THEN "ok" ELSE "RoundTripDataset"
    [] e.op = "patch" ->
         LET o == Outcome(e) IN
         IF o # "ok" THEN o ELSE IF T4(e.after) = T4(e.d2) THEN "ok" ELSE "PatchDiff"
    [] e.op = "parse" ->
         IF e.res # "ok" THEN "ParseRaised"
         ELSE IF ~(T4(e.before) \subseteq T4(e.after)) THEN "AddOnly"
         ELSE IF Has(e, "addonly") /\ e.addonly THEN "ok"      \* a quad document parsed through a graph view: where its quads go is not fixed by the property
         ELSE IF ParseOK(T4(e.before), T4(e.doc), T4(e.after)) THEN "ok" ELSE "MergeFresh"
    [] OTHER -> "UnknownEvent"

Init == k = 1 /\ l = 1 /\ verdict = "ok"
Step == /\ k <= Len(Batch) /\ verdict = "ok" /\ l <= Len(Batch[k].ev)
        /\ LET v == Judge(Batch[k].ev[l])
           IN IF v = "ok" THEN l' = l + 1 /\ UNCHANGED <<k, verdict>> ELSE verdict' = v /\ UNCHANGED <<k, l>>
NextTrace == /\ k <= Len(Batch) /\ (verdict # "ok" \/ l > Len(Batch[k].ev))
             /\ PrintT(<<"VERDICT", Batch[k].tid, verdict, l>>)
             /\ k' = k + 1 /\ l' = 1 /\ verdict' = "ok"
TraceSpec == Init /\ [][Step \/ NextTrace]_vars
===============================================================================
