-------------------------------- MODULE Container --------------------------------
(***************************************************************************)
(* Growth beyond the listed properties: rdflib.container (rdf:Bag / Seq /  *)
(* Alt).  A container is a Python-list-like sequence with 1-based indices, *)
(* spelled in the graph as  c rdf:type rdf:Bag|Seq|Alt ; rdf:_1 m1 ; ...   *)
(* rdf:_n mn  with exactly one value per membership property and no gaps.  *)
(* One action per public call; `hist` is exported for replay on the code.  *)
(***************************************************************************)
EXTENDS Integers, Sequences, FiniteSets, TLC, Json
CONSTANTS Members, MaxLen, Depth, Kind          \* Kind: "Bag" | "Seq" | "Alt"
VARIABLES lst, hist
vars == <<lst, hist>>

RemoveAt(s, i) == SubSeq(s, 1, i - 1) \o SubSeq(s, i + 1, Len(s))
InsertAt(s, i, x) == SubSeq(s, 1, i - 1) \o <<x>> \o SubSeq(s, i, Len(s))
(* the triples that spell a list: <<index, member>>; index 0 carries the type *)
Spelling(s) == {<<i, s[i]>> : i \in 1..Len(s)}

Step(e) == hist' = Append(hist, e)
AppendOp(x) == Len(lst) < MaxLen /\ lst' = Append(lst, x) /\ Step([op |-> "append", x |-> x])
AppendMany(x, y) == Len(lst) + 1 < MaxLen /\ lst' = lst \o <<x, y>> /\ Step([op |-> "append_multiple", xs |-> <<x, y>>])
SetItem(i, x) == /\ lst' = IF i \in 1..Len(lst) THEN [lst EXCEPT ![i] = x] ELSE lst
                 /\ Step([op |-> "setitem", i |-> i, x |-> x])
DelItem(i) == /\ lst' = IF i \in 1..Len(lst) THEN RemoveAt(lst, i) ELSE lst
              /\ Step([op |-> "delitem", i |-> i])
Clear == lst' = <<>> /\ Step([op |-> "clear"])
AddAt(i, x) == /\ Kind = "Seq" /\ Len(lst) < MaxLen
               /\ lst' = IF i \in 1..(Len(lst) + 1) THEN InsertAt(lst, i, x) ELSE lst
               /\ Step([op |-> "add_at_position", i |-> i, x |-> x])
Read(r) == UNCHANGED lst /\ Step(r)
Next == /\ Len(hist) < Depth
        /\ \/ \E x \in Members : AppendOp(x)
           \/ \E x \in Members, y \in Members : AppendMany(x, y)
           \/ \E i \in 0..(MaxLen + 1), x \in Members : SetItem(i, x)
           \/ \E i \in 0..(MaxLen + 1) : DelItem(i)
           \/ \E i \in 0..(MaxLen + 1), x \in Members : AddAt(i, x)
           \/ Clear
           \/ \E i \in 0..(MaxLen + 1) : Read([op |-> "getitem", i |-> i])
           \/ \E x \in Members : Read([op |-> "index", x |-> x])
Init == lst = <<>> /\ hist = <<>>
Spec == Init /\ [][Next]_vars

(* properties of the model: the spelling has exactly one member per index and no gaps *)
Inv_Dense == {p[1] : p \in Spelling(lst)} = 1..Len(lst)
Inv_Functional == \A p, q \in Spelling(lst) : p[1] = q[1] => p = q
Inv_Bound == Len(lst) <= MaxLen
View == lst
Export == IF Len(hist) = Depth THEN PrintT(ToJson(hist)) ELSE TRUE
===============================================================================
