SPECIFICATION Spec
INVARIANT IntLaws
INVARIANT DecLaws
INVARIANT NotValid
CHECK_DEADLOCK FALSE
