---------------------------- MODULE TraceCollection ----------------------------
(***************************************************************************)
(* Tier T for C19: validates recorded executions of rdflib's Collection    *)
(* against the property: results and exceptions are those of the Python    *)
(* list subjected to the same calls, and the graph always holds a          *)
(* well-formed rdf:first/rdf:rest chain spelling that list, with no        *)
(* orphaned cells.  After a corrupt{} event (cyclic / broken chain made    *)
(* by hand) reads only have to terminate.                                  *)
(* WellFormed is Collection.tla's definition (tier P).                     *)
(***************************************************************************)
EXTENDS Integers, Sequences, FiniteSets, TLC, Json, IOUtils

Batch == ndJsonDeserialize(IOEnv.TRACE_FILE)
(* named deviation models of known findings (known_findings.jsonl); empty in the first validation pass *)
Devs  == LET d == JsonDeserialize(IOEnv.DEVS_FILE) IN {d[i] : i \in 1..Len(d)}
VARIABLES k, l, st, verdict
vars == <<k, l, st, verdict>>

HeadC == "h"
Nil   == "nil"
Has(r, f) == f \in DOMAIN r
SeqToSet(s) == {s[i] : i \in 1..Len(s)}

Vals(TT, c, p) == {t[3] : t \in {x \in TT : x[1] = c /\ x[2] = p}}
RECURSIVE Chain(_, _, _, _, _)
Chain(TT, L, c, i, seen) ==
  IF i > Len(L) THEN c = Nil
  ELSE /\ c # Nil /\ c \notin seen
       /\ Vals(TT, c, "first") = {L[i]}
       /\ Cardinality(Vals(TT, c, "rest")) = 1
       /\ Chain(TT, L, CHOOSE x \in Vals(TT, c, "rest") : TRUE, i + 1, seen \cup {c})
WellFormedChain(TT, L) == IF L = <<>> THEN TRUE ELSE Chain(TT, L, HeadC, 1, {})
NoOrphans(TT, L) == IF L = <<>> THEN TT \subseteq {<<HeadC, "rest", Nil>>} ELSE Cardinality(TT) = 2 * Len(L)

RemoveAt(s, i) == SubSeq(s, 1, i - 1) \o SubSeq(s, i + 1, Len(s))
Occurs(s, x) == \E i \in 1..Len(s) : s[i] = x
IndexOf(s, x) == (CHOOSE i \in 1..Len(s) : s[i] = x /\ \A j \in 1..(i - 1) : s[j] # x) - 1

St0 == [lst |-> <<>>, corrupt |-> FALSE, cyclic |-> FALSE]

(* list indexing as Python has it: a negative index counts from the end; the position it names (0-based), valid when 0 <= Pos < Len *)
Pos(L, i) == IF i < 0 THEN i + Len(L) ELSE i
InRange(L, i) == Pos(L, i) >= 0 /\ Pos(L, i) < Len(L)

NewLst(s, e) ==
  CASE e.op = "new"     -> e.items
    [] e.op = "append"  -> Append(s.lst, e.x)
    [] e.op = "iadd"    -> IF "self" \in DOMAIN e /\ e.self THEN s.lst \o s.lst ELSE s.lst \o e.xs      \* c += c doubles the list
    [] e.op = "setitem" -> IF InRange(s.lst, e.i) THEN [s.lst EXCEPT ![Pos(s.lst, e.i) + 1] = e.x] ELSE s.lst
    [] e.op = "delitem" -> IF InRange(s.lst, e.i) THEN RemoveAt(s.lst, Pos(s.lst, e.i) + 1) ELSE s.lst
    [] e.op = "clear"   -> <<>>
    [] OTHER -> s.lst
(* KF_C19_setitem_at_len: c[len(c)] = x does not raise IndexError but writes rdf:first on rdf:nil (or on the
   empty head); an existing test pins this, so it is modelled as a named deviation after which the chain is broken *)
DevSetAtLen(s, e) == "KF_C19_setitem_at_len" \in Devs /\ e.op = "setitem" /\ (e.i = Len(s.lst) \/ (s.lst = <<>> /\ e.i = 1)) /\ e.res.k = "ok"
ApplyEv(s, e) == [lst |-> NewLst(s, e), corrupt |-> s.corrupt \/ e.op = "corrupt" \/ DevSetAtLen(s, e),
                  cyclic |-> s.cyclic \/ (e.op = "corrupt" /\ e.kind \in {"cycle_head", "cycle_mid"})]
(* a read that has to walk the whole chain: on a cyclic chain there is no end to reach, the read raises (it neither loops nor answers) *)
WalksAll(s, e) == e.op \in {"len", "iter"} \/ (e.op \in {"index", "contains"} /\ ~Occurs(s.lst, e.x))

Ops == {"new", "append", "iadd", "setitem", "delitem", "clear", "getitem", "index", "contains", "len", "iter", "corrupt"}

(* the call's own result, judged against the list BEFORE the call *)
ResVerdict(s, e) ==
  LET L == s.lst  r == e.res IN
  CASE e.op \in {"new", "append", "iadd", "clear"} -> IF r.k = "ok" THEN "ok" ELSE "ListAgrees:raised"
    [] e.op \in {"setitem", "delitem"} ->
         IF InRange(L, e.i) THEN (IF r.k = "ok" THEN "ok" ELSE "ListAgrees:raised")
         ELSE IF r.k = "raise" /\ r.e = "IndexError" THEN "ok" ELSE "IndexErrorExpected"
    [] e.op = "getitem" ->
         IF InRange(L, e.i) THEN (IF r.k = "val" /\ r.v = L[Pos(L, e.i) + 1] THEN "ok" ELSE "ListAgrees:getitem")
         ELSE IF r.k = "raise" /\ r.e = "IndexError" THEN "ok" ELSE "IndexErrorExpected"
    [] e.op = "index" ->
         IF Occurs(L, e.x) THEN (IF r.k = "val" /\ r.n = IndexOf(L, e.x) THEN "ok" ELSE "ListAgrees:index")
         ELSE IF r.k = "raise" /\ r.e = "ValueError" THEN "ok" ELSE "ValueErrorExpected"
    [] e.op = "contains" -> IF r.k = "val" /\ r.b = Occurs(L, e.x) THEN "ok" ELSE "ListAgrees:contains"
    [] e.op = "len"  -> IF r.k = "val" /\ r.n = Len(L) THEN "ok" ELSE "ListAgrees:len"
    [] e.op = "iter" -> IF r.k = "val" /\ r.items = L THEN "ok" ELSE "ListAgrees:iter"
    [] OTHER -> "ok"

Judge(s, e) ==
  IF e.op \notin Ops THEN "UnknownEvent"
  ELSE IF s.corrupt \/ e.op = "corrupt"
       THEN (IF Has(e, "res") /\ e.res.k = "timeout" THEN "Terminates"
             ELSE IF s.cyclic /\ WalksAll(s, e) /\ Has(e, "res") /\ e.res.k # "raise" THEN "CyclicChainRaises"
             ELSE "ok")      \* reads on a broken chain must return or raise
  ELSE IF Has(e, "res") /\ e.res.k = "timeout" THEN "Terminates"
  ELSE IF DevSetAtLen(s, e) THEN "ok"
  ELSE LET v0 == ResVerdict(s, e) IN
  IF v0 # "ok" THEN v0
  ELSE LET L2 == NewLst(s, e) IN
       IF Has(e, "list") /\ e.list # L2 THEN "ListAgrees:after"
       ELSE IF Has(e, "len") /\ e.len # Len(L2) THEN "ListAgrees:len-after"
       ELSE IF Has(e, "cells") /\ ~WellFormedChain(SeqToSet(e.cells), L2) THEN "WellFormed"
       ELSE IF Has(e, "cells") /\ ~NoOrphans(SeqToSet(e.cells), L2) THEN "NoOrphans"
       ELSE "ok"

Init == k = 1 /\ l = 1 /\ st = St0 /\ verdict = "ok"
Step == /\ k <= Len(Batch) /\ verdict = "ok" /\ l <= Len(Batch[k].ev)
        /\ LET e == Batch[k].ev[l]
               v == Judge(st, e)
           IN IF v = "ok"
              THEN st' = ApplyEv(st, e) /\ l' = l + 1 /\ UNCHANGED <<k, verdict>>
              ELSE verdict' = v /\ UNCHANGED <<k, l, st>>
NextTrace == /\ k <= Len(Batch) /\ (verdict # "ok" \/ l > Len(Batch[k].ev))
             /\ PrintT(<<"VERDICT", Batch[k].tid, verdict, l>>)
             /\ k' = k + 1 /\ l' = 1 /\ st' = St0 /\ verdict' = "ok"
TraceSpec == Init /\ [][Step \/ NextTrace]_vars
===============================================================================
