----------------------------- MODULE MCXsdLexical -----------------------------
(* Laws of the transcription in XsdLexical.tla, checked over every string of length <= 5 over a small alphabet        *)
(* (one state per string), and leap-year / facet sanity cases.                                                       *)
EXTENDS XsdLexical, TLC
Alpha == {"+", "-", "0", "1", "9", "."}
Strings(n) == UNION {[1..m -> Alpha] : m \in 0..n}
VARIABLE s
Init == s \in Strings(5)
Next == UNCHANGED s
IntLaws == ValidInteger(s) =>
             /\ ValidInteger(CanonInt(s)) /\ CanonInt(CanonInt(s)) = CanonInt(s)
             /\ ValidDecimal(s) /\ CanonDecimal(s) = CanonInt(s) /\ ValidDouble(s)
             /\ (Neg(CanonInt(s)) <=> (s[1] = "-" /\ Num(Body(s)) > 0))
             /\ (LET c == CanonInt(s) IN Num(IF Neg(c) THEN Tail(c) ELSE c) = Num(Body(s)))
DecLaws == ValidDecimal(s) =>
             /\ ValidDecimal(CanonDecimal(s)) /\ CanonDecimal(CanonDecimal(s)) = CanonDecimal(s) /\ ValidDouble(s)
             /\ CanonDecimal(s) # <<>> /\ CanonDecimal(s)[1] # "+" /\ CanonDecimal(s)[Len(CanonDecimal(s))] # "."
NotValid == (~ValidDecimal(s)) => ~ValidInteger(s)
(* comparison of canonical integers agrees with machine integers where those exist *)
Val(c) == IF Neg(c) THEN 0 - Num(Tail(c)) ELSE Num(c)
Small == {CanonInt(x) : x \in {y \in Strings(3) : ValidInteger(y)}}
OrderLaw == \A a, b \in Small : (IntLess(a, b) <=> Val(a) < Val(b)) /\ (IntLeq(a, b) <=> Val(a) <= Val(b))
C(str) == str
Facets == /\ InFacet("byte", <<"1", "2", "7">>) /\ ~InFacet("byte", <<"1", "2", "8">>) /\ InFacet("byte", <<"-", "1", "2", "8">>) /\ ~InFacet("byte", <<"-", "1", "2", "9">>)
          /\ InFacet("unsignedByte", <<"2", "5", "5">>) /\ ~InFacet("unsignedByte", <<"2", "5", "6">>) /\ ~InFacet("unsignedByte", <<"-", "1">>) /\ InFacet("unsignedByte", <<"0">>)
          /\ ~InFacet("positiveInteger", <<"0">>) /\ InFacet("nonNegativeInteger", <<"0">>) /\ ~InFacet("negativeInteger", <<"0">>) /\ InFacet("nonPositiveInteger", <<"0">>)
          /\ InFacet("long", <<"9", "2", "2", "3", "3", "7", "2", "0", "3", "6", "8", "5", "4", "7", "7", "5", "8", "0", "7">>)
          /\ ~InFacet("long", <<"9", "2", "2", "3", "3", "7", "2", "0", "3", "6", "8", "5", "4", "7", "7", "5", "8", "0", "8">>)
D(y, m, d) == y \o <<"-">> \o m \o <<"-">> \o d
Dates == /\ ValidDate(D(<<"2", "0", "2", "0">>, <<"0", "2">>, <<"2", "9">>)) /\ ~ValidDate(D(<<"2", "0", "2", "1">>, <<"0", "2">>, <<"2", "9">>))
         /\ ~ValidDate(D(<<"1", "9", "0", "0">>, <<"0", "2">>, <<"2", "9">>)) /\ ValidDate(D(<<"2", "0", "0", "0">>, <<"0", "2">>, <<"2", "9">>))
         /\ ~ValidDate(D(<<"2", "0", "2", "0">>, <<"0", "4">>, <<"3", "1">>)) /\ ValidDate(D(<<"2", "0", "2", "0">>, <<"1", "2">>, <<"3", "1">>))
         /\ ValidDate(D(<<"2", "0", "2", "0">>, <<"0", "1">>, <<"0", "1">>) \o <<"Z">>) /\ ValidDate(D(<<"2", "0", "2", "0">>, <<"0", "1">>, <<"0", "1">>) \o <<"-", "1", "4", ":", "0", "0">>)
         /\ ~ValidDate(D(<<"2", "0", "2", "0">>, <<"0", "1">>, <<"0", "1">>) \o <<"+", "1", "4", ":", "0", "1">>)
         /\ ValidTime(<<"2", "4", ":", "0", "0", ":", "0", "0">>) /\ ~ValidTime(<<"2", "4", ":", "0", "0", ":", "0", "1">>) /\ ~ValidTime(<<"1", "2", ":", "0", "0", ":", "6", "0">>)
         /\ ValidDuration(<<"P", "1", "Y">>) /\ ~ValidDuration(<<"P">>) /\ ~ValidDuration(<<"P", "T">>) /\ ~ValidDuration(<<"P", "1", "Y", "T">>) /\ ValidDuration(<<"-", "P", "T", "1", ".", "5", "S">>)
         /\ ~ValidDuration(<<"P", "1", "M", "1", "Y">>) /\ ~ValidDayTimeDuration(<<"P", "1", "Y">>) /\ ~ValidYearMonthDuration(<<"P", "1", "D">>) /\ ~ValidDuration(<<"P", "1", ".", "5", "D">>)
         /\ ValidDuration(<<"P", "1", "M", "T", "1", "M">>) /\ ~ValidDuration(<<"P", "1", "W">>) /\ ~ValidDuration(<<"P", "T", "1", ".", "S">>)
ASSUME OrderLaw /\ Facets /\ Dates
Spec == Init /\ [][Next]_s
===============================================================================
