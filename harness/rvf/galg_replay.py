"""Growth check G04: replay Graph-level API histories (set / value / projections / set operators / cbd / connected ...)
on two rdflib graphs and record traces for TraceGraphAlgebra.tla."""
from __future__ import annotations

import warnings

from rdflib import BNode, Dataset, Graph, URIRef

from .vocab import Vocab

warnings.simplefilter("ignore")
NAMES = ["s1", "s2", "b1", "b2", "p1", "p2", "o1", "o2", "dflt"]


def make_graphs(cfg):
    st = cfg.get("stores", "separate")
    if st == "separate":
        return Graph(), Graph()
    if st == "simple":
        return Graph(store="SimpleMemory"), Graph(store="SimpleMemory")
    if st == "shared":
        ds = Dataset()
        return ds.graph(URIRef("urn:g:A")), ds.graph(URIRef("urn:g:B"))
    if st == "shared_default":
        ds = Dataset()
        return ds.default_graph, ds.graph(URIRef("urn:g:B"))
    if st == "mixed":
        ds = Dataset()
        return Graph(), ds.graph(BNode("gB"))
    if st == "mixed_hidden":
        # as "mixed", and the dataset of B holds a further graph H that starts out with B's triples: an operation on B with an operand
        # from another store must not reach into H
        ds = Dataset()
        b = ds.graph(URIRef("urn:g:B"))
        b._hidden = ds.graph(URIRef("urn:g:H"))
        return Graph(), b
    if st == "same_id":
        # two graphs in separate stores that carry the same identifier (two versions of one named graph)
        return Graph(identifier=URIRef("urn:g:same")), Graph(identifier=URIRef("urn:g:same"))
    if st == "same_id_shared_default":
        d1, d2 = Dataset(), Dataset()
        return d1.default_graph, d2.default_graph
    raise ValueError(st)


def replay(cfg, events):
    v = Vocab(cfg.get("vocab", "plain"))
    for n in NAMES:
        v.term(n)
    cfg = dict(cfg, bn=sorted(n for n in NAMES if isinstance(v.term(n), BNode)))
    A, B = make_graphs(cfg)
    G = {"A": A, "B": B}
    evs = []

    def trip(t):
        return (v.term(t[0]), v.term(t[1]), v.term(t[2]))

    def content(g):
        return sorted(v.abs_triple(t) for t in g)

    for e in events:
        e = dict(e)
        op = e["op"]
        try:
            if op == "new":
                for t in e["A0"]:
                    A.add(trip(t))
                for t in e["B0"]:
                    B.add(trip(t))
                    if getattr(B, "_hidden", None) is not None:
                        B._hidden.add(trip(t))
                e["res"] = {"k": "ok"}
            elif op == "add":
                G[e["g"]].add(trip(e["t"]))
                e["res"] = {"k": "ok"}
            elif op == "remove":
                G[e["g"]].remove(trip(e["pat"]))
                e["res"] = {"k": "ok"}
            elif op == "batch":
                # BatchAddGraph: every triple handed over has been added when the context manager exits
                from rdflib.graph import BatchAddGraph
                with BatchAddGraph(G[e["g"]], batch_size=e["size"], batch_addn=e.get("addn", False)) as b:
                    for t in e["ts"]:
                        if e.get("addn"):
                            b.addN([trip(t) + (G[e["g"]],)])
                        else:
                            b.add(trip(t))
                e["res"] = {"k": "ok"}
            elif op == "set":
                G[e["g"]].set(trip(e["t"]))
                e["res"] = {"k": "ok"}
            elif op == "iadd":
                g = G[e["g"]]
                g += G[e["h"]]
                e["res"] = {"k": "ok"} if g is G[e["g"]] else {"k": "raise", "e": "NotInPlace", "msg": ""}
            elif op == "isub":
                g = G[e["g"]]
                g -= G[e["h"]]
                e["res"] = {"k": "ok"} if g is G[e["g"]] else {"k": "raise", "e": "NotInPlace", "msg": ""}
            elif op == "binop":
                a, b = G[e["g"]], G[e["h"]]
                r = {"add": lambda: a + b, "sub": lambda: a - b, "mul": lambda: a * b, "xor": lambda: a ^ b}[e["o"]]()
                e["res"] = {"k": "set", "v": [v.abs_triple(t) for t in r]} if (r is not a and r is not b) else {"k": "raise", "e": "ResultAliasesOperand", "msg": ""}
            elif op == "value":
                s, p, o = trip(e["pat"])
                e.setdefault("default", "_")
                e.setdefault("any", True)
                r = G[e["g"]].value(s, p, o, default=v.term(e["default"]), any=e["any"])
                e["res"] = {"k": "val", "v": v.abs(r)}
            elif op == "proj":
                s, p, o = trip(e["pat"])
                g = G[e["g"]]
                e.setdefault("unique", False)
                via = e["via"]
                if via == "subjects":
                    it, e["i"] = g.subjects(p, o, unique=e["unique"]), 1
                elif via == "predicates":
                    it, e["i"] = g.predicates(s, o, unique=e["unique"]), 2
                else:
                    it, e["i"] = g.objects(s, p, unique=e["unique"]), 3
                e["res"] = {"k": "list", "v": [v.abs(x) for x in it]}
            elif op == "pairs":
                s, p, o = trip(e["pat"])
                g = G[e["g"]]
                e.setdefault("unique", False)
                via = e["via"]
                if via == "subject_predicates":
                    it, e["i"], e["j"] = g.subject_predicates(o, unique=e["unique"]), 1, 2
                elif via == "subject_objects":
                    it, e["i"], e["j"] = g.subject_objects(p, unique=e["unique"]), 1, 3
                else:
                    it, e["i"], e["j"] = g.predicate_objects(s, unique=e["unique"]), 2, 3
                e["res"] = {"k": "list", "v": [[v.abs(x), v.abs(y)] for x, y in it]}
            elif op == "choices":
                pat = list(trip(e["pat"]))
                pat[e["pos"] - 1] = [v.term(a) for a in e["alts"]]
                e["res"] = {"k": "set", "v": [v.abs_triple(t) for t in G[e["g"]].triples_choices(tuple(pat))]}
            elif op == "cbd":
                e["res"] = {"k": "set", "v": [v.abs_triple(t) for t in G[e["g"]].cbd(v.term(e["s"]))]}
            elif op == "nodes":
                e["res"] = {"k": "list", "v": [v.abs(x) for x in G[e["g"]].all_nodes()]}
            elif op == "connected":
                e["res"] = {"k": "bool", "v": bool(G[e["g"]].connected())}
            elif op == "iso":
                e["res"] = {"k": "bool", "v": bool(G[e["g"]].isomorphic(G[e["h"]]))}
            elif op == "contains":
                e["res"] = {"k": "bool", "v": trip(e["pat"]) in G[e["g"]]}
            elif op == "len":
                e["res"] = {"k": "val", "n": len(G[e["g"]])}
            else:
                raise ValueError(op)
        except Exception as ex:     # noqa: BLE001
            e["res"] = {"k": "raise", "e": type(ex).__name__, "msg": str(ex)[:80]}
        e["A"], e["B"] = content(A), content(B)
        if getattr(B, "_hidden", None) is not None:
            e["H"] = content(B._hidden)
        e["lenA"], e["lenB"] = len(A), len(B)
        evs.append(e)
    return {"cfg": cfg, "ev": evs}
