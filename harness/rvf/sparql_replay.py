"""Render query / path ASTs to SPARQL text and rdflib.paths objects, run them on rdflib, record traces for TraceQuery.tla.

AST conventions are those of spec/Sparql.tla: terms {"k": "iri"|"bnode"|"num"|"str"|"bool"|"lit"|"var", "v": ...}.
"""
from __future__ import annotations

import signal
import warnings
from decimal import Decimal
from fractions import Fraction

import rdflib
import rdflib.plugins.sparql as sparql_mod
from rdflib import BNode, Dataset, Graph, Literal, URIRef, Variable
from rdflib.graph import ConjunctiveGraph
from rdflib.namespace import XSD
from rdflib.paths import AlternativePath, InvPath, MulPath, NegatedPath, SequencePath
from rdflib.plugins.sparql import prepareQuery
from rdflib.plugins.stores.auditable import AuditableStore
from rdflib.plugins.stores.memory import Memory, SimpleMemory

warnings.simplefilter("ignore")
PFX = "urn:x:"
DT = URIRef("urn:x:dt")


class _Timeout(Exception):
    pass


def _alarm(signum, frame):
    raise _Timeout()


def guarded(fn, secs=30):
    signal.signal(signal.SIGVTALRM, _alarm)
    signal.setitimer(signal.ITIMER_VIRTUAL, secs)
    try:
        return fn()
    finally:
        signal.setitimer(signal.ITIMER_VIRTUAL, 0)


# ---------------------------------------------------------------- terms
def conc(t):
    k = t["k"]
    if k == "iri":
        return URIRef(PFX + t["v"])
    if k == "bnode":
        return BNode(t["v"])
    if k == "num":
        return Literal(int(t["v"]))
    if k == "dec":
        # an exact decimal n / d, written with a fraction part ("1.0" for 1/1)
        q_ = Decimal(t["n"]) / Decimal(t["d"])
        return Literal(str(q_) if q_ != q_.to_integral_value() else "%d.0" % int(q_), datatype=XSD.decimal)
    if k == "str":
        return Literal(t["v"])
    if k == "bool":
        return Literal(bool(t["v"]))
    if k == "lit":
        if "lang" in t:
            return Literal(t["v"], lang=t["lang"])
        return Literal(t["v"], datatype=DT)
    if k == "var":
        return Variable(t["v"])
    raise ValueError(t)


def abst(x):
    if isinstance(x, URIRef):
        s = str(x)
        return {"k": "iri", "v": s[len(PFX):] if s.startswith(PFX) else s}
    if isinstance(x, BNode):
        return {"k": "bnode", "v": str(x)}
    if isinstance(x, Literal):
        if x.language:
            return {"k": "lit", "v": str(x), "lang": x.language}
        dt = x.datatype
        if dt is None or dt == XSD.string:
            return {"k": "str", "v": str(x)}
        if dt == XSD.boolean and str(x) in ("true", "false"):
            return {"k": "bool", "v": str(x) == "true"}
        if dt == XSD.integer:
            try:
                return {"k": "num", "v": int(str(x))}
            except ValueError:
                pass
        if dt == XSD.decimal or dt == XSD.double or dt == XSD.float:
            try:
                f = Fraction(Decimal(str(x))) if dt == XSD.decimal else Fraction(float(str(x)))
                return {"k": "dec", "n": f.numerator, "d": f.denominator}
            except Exception:  # noqa: BLE001
                pass
        if dt == DT:
            return {"k": "lit", "v": str(x)}
        return {"k": "lit", "v": str(x), "dt": str(dt)}
    return {"k": "lit", "v": repr(x), "dt": "python"}


def t_text(t):
    if t["k"] == "var":
        if t.get("hidden"):
            return "_:" + t["v"]          # a blank node label in a pattern: a variable that cannot be selected
        return "?" + t["v"]
    return conc(t).n3()


# ---------------------------------------------------------------- expressions / groups / queries
def e_text(e):
    k = e["e"]
    if k == "var":
        return "?" + e["v"]
    if k == "const":
        return t_text(e["t"])
    if k in ("=", "!=", "<", ">", "<=", ">=", "&&", "||", "+", "-", "*"):
        return "(%s %s %s)" % (e_text(e["a"]), k, e_text(e["b"]))
    if k == "!":
        return "(!%s)" % e_text(e["a"])
    if k == "bound":
        return "bound(?%s)" % e["v"]
    if k in ("isiri", "isliteral", "isblank"):
        return "%s(%s)" % ({"isiri": "isIRI", "isliteral": "isLiteral", "isblank": "isBlank"}[k], e_text(e["a"]))
    if k == "sameterm":
        return "sameTerm(%s, %s)" % (e_text(e["a"]), e_text(e["b"]))
    if k == "if":
        return "IF(%s, %s, %s)" % (e_text(e["a"]), e_text(e["b"]), e_text(e["c"]))
    if k == "coalesce":
        return "COALESCE(%s)" % ", ".join(e_text(x) for x in e["args"])
    if k == "in":
        return "(%s %s (%s))" % (e_text(e["a"]), "NOT IN" if e["neg"] else "IN", ", ".join(e_text(x) for x in e["args"]))
    if k == "exists":
        return "EXISTS " + g_text(e["g"])
    if k == "notexists":
        return "NOT EXISTS " + g_text(e["g"])
    raise ValueError(k)


def g_text(g):
    out = []
    for e in g["elts"]:
        t = e["t"]
        if t == "bgp":
            out.append(" ".join("%s %s %s ." % (t_text(tp[0]), p_or_t(tp[1]), t_text(tp[2])) for tp in e["tps"]))
        elif t == "optional":
            out.append("OPTIONAL " + g_text(e["g"]))
        elif t == "minus":
            out.append("MINUS " + g_text(e["g"]))
        elif t == "group":
            out.append(g_text(e["g"]))
        elif t == "union":
            out.append(" UNION ".join(g_text(x) for x in e["gs"]))
        elif t == "graph":
            out.append("GRAPH %s %s" % (t_text(e["name"]), g_text(e["g"])))
        elif t == "filter":
            out.append("FILTER(%s)" % e_text(e["e"]))
        elif t == "bind":
            out.append("BIND(%s AS ?%s)" % (e_text(e["e"]), e["v"]))
        elif t == "values":
            out.append(values_text(e))
        elif t == "subselect":
            out.append("{ " + q_text(e["q"]) + " }")
        else:
            raise ValueError(t)
    return "{ " + " ".join(out) + " }"


def values_text(e):
    rows = " ".join("(" + " ".join("UNDEF" if c["k"] == "undef" else t_text(c) for c in r) + ")" for r in e["rows"])
    return "VALUES (%s) { %s }" % (" ".join("?" + v for v in e["vars"]), rows)


def p_or_t(x):
    if x.get("k") == "path":
        return path_text(x["p"])
    return t_text(x)


AGG = {"count": "COUNT", "count*": "COUNT", "sum": "SUM", "avg": "AVG", "min": "MIN", "max": "MAX", "sample": "SAMPLE", "group_concat": "GROUP_CONCAT"}


def agg_text(a):
    d = "DISTINCT " if a.get("distinct") else ""
    if a["f"] == "count*":
        return "(COUNT(%s*) AS ?%s)" % (d, a["as"])
    if a["f"] == "group_concat" and "sep" in a:
        return '(GROUP_CONCAT(%s%s; SEPARATOR=%s) AS ?%s)' % (d, e_text(a["e"]), Literal(a["sep"]).n3(), a["as"])
    return "(%s(%s%s) AS ?%s)" % (AGG[a["f"]], d, e_text(a["e"]), a["as"])


def q_text(q):
    form = q.get("form", "select")
    where = g_text(q["where"])
    tail = ""
    if q.get("groupby"):
        tail += " GROUP BY " + " ".join(e_text(x) for x in q["groupby"])
    if "having" in q:
        h = q["having"]      # {"agg": aggregate, "op": ">", "n": int}: HAVING sees aggregates, not SELECT aliases; or {"e": expression over group keys}
    if "having" in q and "e" in q["having"]:
        tail += " HAVING(%s)" % e_text(q["having"]["e"])
    elif "having" in q:
        h = q["having"]
        inner = agg_text(dict(h["agg"], **{"as": "zz"}))
        inner = inner[1:inner.rindex(" AS ?")]
        tail += " HAVING(%s %s %d)" % (inner, h["op"], h["n"])
    if q.get("orderby"):
        tail += " ORDER BY " + " ".join(("DESC(%s)" if k["desc"] else "ASC(%s)") % e_text(k["e"]) for k in q["orderby"])
    if "limit" in q:
        tail += " LIMIT %d" % q["limit"]
    if "offset" in q:
        tail += " OFFSET %d" % q["offset"]
    if "postvalues" in q:
        tail += " " + values_text(q["postvalues"])
    if form == "ask":
        return "ASK " + where
    if form == "construct":
        tpl = " ".join("%s %s %s ." % (t_text(a), t_text(b), t_text(c)) for a, b, c in q["template"])
        return "CONSTRUCT { %s } WHERE %s%s" % (tpl, where, tail)
    mod = "DISTINCT " if q.get("distinct") else ("REDUCED " if q.get("reduced") else "")
    if "aggs" in q:
        aliases = {a["as"]: a for a in q["aggs"]}
        proj = " ".join(agg_text(aliases[v]) if v in aliases else "?" + v for v in q["proj"])
    elif q["proj"] == ["*"]:
        proj = "*"
    else:
        proj = " ".join("?" + v for v in q["proj"])
    return "SELECT %s%s WHERE %s%s" % (mod, proj, where, tail)


# ---------------------------------------------------------------- paths
def path_text(p):
    o = p["op"]
    if o == "iri":
        return t_text(p["iri"])
    if o == "inv":
        return "^(%s)" % path_text(p["arg"])
    if o == "seq":
        return "(" + "/".join(path_text(x) for x in p["args"]) + ")"
    if o == "alt":
        return "(" + "|".join(path_text(x) for x in p["args"]) + ")"
    if o in ("star", "plus", "opt"):
        return "(%s)%s" % (path_text(p["arg"]), {"star": "*", "plus": "+", "opt": "?"}[o])
    if o == "neg":
        parts = [t_text(x) for x in p["fwd"]] + ["^" + t_text(x) for x in p["inv"]]
        return "!(" + "|".join(parts) + ")"
    raise ValueError(o)


def path_obj(p):
    o = p["op"]
    if o == "iri":
        return conc(p["iri"])
    if o == "inv":
        return InvPath(path_obj(p["arg"]))
    if o == "seq":
        return SequencePath(*[path_obj(x) for x in p["args"]])
    if o == "alt":
        return AlternativePath(*[path_obj(x) for x in p["args"]])
    if o in ("star", "plus", "opt"):
        return MulPath(path_obj(p["arg"]), {"star": "*", "plus": "+", "opt": "?"}[o])
    if o == "neg":
        parts = [conc(x) for x in p["fwd"]] + [InvPath(conc(x)) for x in p["inv"]]
        if len(parts) == 1:
            return NegatedPath(parts[0])
        return NegatedPath(AlternativePath(*parts))
    raise ValueError(o)


# ---------------------------------------------------------------- execution
def build(cfg, data):
    st = cfg.get("store", "Memory")
    base = Memory() if st in ("Memory", "Auditable") else SimpleMemory()
    store = AuditableStore(base) if st == "Auditable" else base
    fac = cfg.get("facade", "graph")
    if fac in ("graph", "graph_shared"):
        g = Graph(store=store, identifier=URIRef(PFX + "thegraph"))
        for q in data["quads"]:
            if q[3] == "D":
                g.add(tuple(conc(x) for x in q[:3]))
        if fac == "graph_shared":
            # the store holds other graphs, too: between the same subjects and objects but under other predicates, the same triples reversed,
            # and some of the graph's own triples; none of it is part of this graph
            other = Graph(store=store, identifier=URIRef(PFX + "othergraph"))
            extra = [URIRef(PFX + "p"), URIRef(PFX + "q"), URIRef(PFX + "zz")]
            for i, t in enumerate(list(g)):
                other.add((t[0], extra[(i + (0 if t[1] != extra[0] else 1)) % 3], t[2]))
                if not isinstance(t[2], Literal):
                    other.add((t[2], t[1], t[0]))
                if i % 2:
                    other.add(t)
            Graph(store=store, identifier=BNode("third")).add((URIRef(PFX + "n1"), URIRef(PFX + "p"), URIRef(PFX + "n1")))
        return g
    if fac == "aggregate":
        from rdflib.graph import ReadOnlyGraphAggregate
        parts = [Graph(), Graph()]
        for i, q in enumerate(q for q in data["quads"] if q[3] == "D"):
            parts[i % 2].add(tuple(conc(x) for x in q[:3]))
        return ReadOnlyGraphAggregate(parts)
    if fac == "cg":
        ds = ConjunctiveGraph(store=store)
    else:
        ds = Dataset(store=store, default_union=bool(cfg.get("union_default")))
    for n in data.get("graphs", []):
        if n != "D" and fac == "dataset":
            ds.graph(URIRef(PFX + n))
    for q in data["quads"]:
        t = tuple(conc(x) for x in q[:3])
        if q[3] == "D":
            ds.add(t)
        else:
            ds.add(t + (URIRef(PFX + q[3]),))
    return ds


def result_of(res, form):
    if form == "ask":
        return {"k": "ask", "v": bool(res.askAnswer)}
    if form == "construct":
        return {"k": "construct", "triples": [[abst(x) for x in t] for t in res.graph]}
    rows = [{str(k): abst(v) for k, v in b.items() if v is not None} for b in res.bindings]
    # the same answer through the iteration protocol (for row in result) and len(): one row per solution
    return {"k": "select", "vars": [str(v) for v in (res.vars or [])],
            # a variable mapped to None is unbound
            "rows": rows, "iter_n": sum(1 for _ in res), "len_n": len(res)}


def _rename_iris(x, ns):
    """the query the text denotes when its prefix resolves against ns instead of urn:x:"""
    if isinstance(x, dict):
        if x.get("k") == "iri" and isinstance(x.get("v"), str) and ":" not in x["v"]:
            return dict(x, v=ns + x["v"])
        return {k: _rename_iris(v, ns) for k, v in x.items()}
    if isinstance(x, list):
        return [_rename_iris(v, ns) for v in x]
    return x


def init_bindings(e):
    if "init" not in e:
        return None
    row = e["init"]["rows"][0]
    return {Variable(v): conc(c) for v, c in zip(e["init"]["vars"], row) if c["k"] != "undef"}


def ord_table(strings):
    ss = sorted(set(strings))
    return {s: i for i, s in enumerate(ss)}


def collect_strings(x, acc):
    if isinstance(x, dict):
        if x.get("k") in ("iri", "str") and isinstance(x.get("v"), str):
            acc.append(x["v"])
        for v in x.values():
            collect_strings(v, acc)
    elif isinstance(x, list):
        for v in x:
            collect_strings(v, acc)


def replay(cfg, events):
    old = sparql_mod.SPARQL_DEFAULT_GRAPH_UNION
    sparql_mod.SPARQL_DEFAULT_GRAPH_UNION = bool(cfg.get("union_default", True))
    try:
        g = None
        prepared = {}
        evs = []
        for e in events:
            e = dict(e)
            op = e["op"]
            if op == "data" and e.get("inplace") and g is not None and cfg.get("facade", "graph") == "graph":
                # the same graph object, edited in place to the new content (an update between two reads)
                want = {tuple(conc(x) for x in q[:3]) for q in e["quads"] if q[3] == "D"}
                have = set(g)
                for t in have - want:
                    g.remove(t)
                for t in want - have:
                    g.add(t)
                e.setdefault("graphs", [])
            elif op == "data":
                g = build(cfg, e)
                e.setdefault("graphs", [])
            elif op == "prepare":
                prepared[e["id"]] = prepareQuery(q_text(e["q"]))
            elif op == "run_interleaved":
                # two result objects of the same prepared query consumed alternately (lazy generators share the parse tree)
                form = e.get("form", "select")
                try:
                    def both():
                        r1 = g.query(prepared[e["id"]], initBindings=init_bindings(e))
                        e2 = dict(e)
                        if "init2" in e:
                            e2["init"] = e["init2"]
                        else:
                            e2.pop("init", None)
                        r2 = g.query(prepared[e["id"]], initBindings=init_bindings(e2))
                        i1, i2 = iter(r1), iter(r2)
                        d1 = d2 = False
                        while not (d1 and d2):
                            if not d1:
                                try:
                                    next(i1)
                                except StopIteration:
                                    d1 = True
                            if not d2:
                                try:
                                    next(i2)
                                except StopIteration:
                                    d2 = True
                        return result_of(r1, form), result_of(r2, form), e2
                    ra, rb, e2 = guarded(both)
                    first = {k: v for k, v in e.items() if k not in ("init2",)}
                    first.update(op="run", res=ra)
                    second = {k: v for k, v in e2.items() if k not in ("init2",)}
                    second.update(op="run", res=rb)
                    evs.append(first)
                    e = second
                except _Timeout:
                    e = dict(e, op="run", res={"k": "timeout"})
                except Exception as ex:  # noqa: BLE001
                    e = dict(e, op="run", res={"k": "raise", "e": type(ex).__name__, "msg": str(ex)[:200]})
            elif op in ("query", "run"):
                q = e["q"] if op == "query" else None
                try:
                    if op == "query":
                        text = q_text(q)
                        if e.get("prefixed") == "base-rel":
                            # a PREFIX whose namespace is a relative reference: it resolves against the BASE in force where it is declared,
                            # not against a BASE that follows it
                            import re
                            text = ("BASE <http://wrong.example/first/> BASE <urn:x:> PREFIX x: <> BASE <http://wrong.example/last/> PREFIX w: <w#>\n"
                                    + re.sub(r"<urn:x:([A-Za-z][A-Za-z0-9]*)>", r"x:\1", text))
                        elif e.get("prefixed") == "esc":
                            # prefixed names whose local part needs PN_LOCAL_ESC (a backslash before . , ~ ( ) and the like): the same IRI
                            import re
                            esc = lambda m: "x:" + re.sub(r"([~.\-!$&'()*+,;=/?#@%])", r"\\\1", m.group(1))
                            text = "PREFIX x: <urn:x:>\n" + re.sub(r"<urn:x:([^<>\s]+)>", esc, text)
                        elif e.get("prefixed") == "two":
                            # two prefixes declared for one namespace, both used (alternately); a third one declared twice, for another namespace first
                            import re
                            cnt = [0]

                            def alt(m):
                                cnt[0] += 1
                                return ("x:" if cnt[0] % 2 else "y:") + m.group(1)
                            text = "PREFIX x: <urn:x:>\nPREFIX z: <urn:other:>\nPREFIX y: <urn:x:>\nPREFIX z: <urn:x:>\n" + re.sub(r"<urn:x:([A-Za-z][A-Za-z0-9]*)>", alt, text)
                        elif e.get("prefixed"):
                            import re
                            text = "PREFIX x: <urn:x:>\n" + re.sub(r"<urn:x:([A-Za-z][A-Za-z0-9]*)>", r"x:\1", text)
                        kw = {}
                        if e.get("initns"):
                            # prefix x: declared only through initNs; "alt" resolves the same text against another namespace
                            import re
                            text = re.sub(r"<urn:x:([A-Za-z][A-Za-z0-9]*)>", r"x:\1", text)
                            kw["initNs"] = {"x": PFX if e["initns"] == "main" else "urn:alt:"}
                            if e["initns"] != "main":
                                e["q"] = q = _rename_iris(q, "urn:alt:")
                        e["text"] = text
                        form = q.get("form", "select")
                        r = guarded(lambda: result_of(g.query(text, initBindings=init_bindings(e), **kw), form))
                    else:
                        form = e.get("form", "select")
                        r = guarded(lambda: result_of(g.query(prepared[e["id"]], initBindings=init_bindings(e)), form))
                    e["res"] = r
                except _Timeout:
                    e["res"] = {"k": "timeout"}
                except Exception as ex:  # noqa: BLE001
                    e["res"] = {"k": "raise", "e": type(ex).__name__, "msg": str(ex)[:200]}
            elif op == "path":
                s = conc(e["s"][0]) if e["s"] else None
                o = conc(e["o"][0]) if e["o"] else None
                via = e.get("via", "triples")

                def run():
                    if via == "triples":
                        return [[abst(a), abst(b)] for a, _, b in g.triples((s, path_obj(e["p"]), o))]
                    if via == "subjects":
                        return [[abst(a), abst(o)] for a in g.subjects(path_obj(e["p"]), o)]
                    if via == "objects":
                        return [[abst(s), abst(b)] for b in g.objects(s, path_obj(e["p"]))]
                    if via == "aggregate":
                        # the same data spread over two member graphs of a ReadOnlyGraphAggregate: a path is a relation over the union
                        from rdflib.graph import ReadOnlyGraphAggregate
                        parts = [Graph(), Graph()]
                        for i_, t_ in enumerate(sorted(g)):
                            parts[i_ % 2].add(t_)
                        agg = ReadOnlyGraphAggregate(parts)
                        return [[abst(a), abst(b)] for a, _, b in agg.triples((s, path_obj(e["p"]), o))]
                    if via in ("dataset_quad", "dataset_ctx", "cg_quad"):
                        # the data sits in ONE named graph of a dataset whose default graph and another named graph hold other triples (the same
                        # edges reversed, every node linked to every other one): a path asked of that graph - by a 4-tuple or by context= - is
                        # walked over that graph alone
                        from rdflib import ConjunctiveGraph as _CG
                        dsx = _CG() if via == "cg_quad" else Dataset(default_union=bool(e.get("default_union")))
                        name = URIRef(PFX + "pathgraph")
                        nodes = set()
                        for t_ in g:
                            dsx.add(t_ + (name,))
                            dsx.add((t_[2], t_[1], t_[0]) if not isinstance(t_[2], Literal) else (t_[0], t_[1], URIRef(PFX + "elsewhere")))
                            dsx.add((t_[0], t_[1], URIRef(PFX + "elsewhere"), URIRef(PFX + "othergraph")))
                            nodes.update(x for x in (t_[0], t_[2]) if not isinstance(x, Literal))
                        for a_ in nodes:
                            for b_ in nodes:
                                dsx.add((a_, URIRef(PFX + "p"), b_, URIRef(PFX + "othergraph")))
                        ctx = dsx.get_context(name)
                        if via == "dataset_ctx":
                            return [[abst(a), abst(b)] for a, _, b in dsx.triples((s, path_obj(e["p"]), o), context=ctx)]
                        return [[abst(a), abst(b)] for a, _, b in dsx.triples((s, path_obj(e["p"]), o, ctx if e.get("ctx_as", "graph") == "graph" else name))]
                    # growth G02: Graph.transitive_objects / transitive_subjects are p* with one end bound
                    if via == "transitive_objects":
                        return [[abst(s), abst(b)] for b in g.transitive_objects(s, conc(e["p"]["arg"]["iri"]))]
                    if via == "transitive_subjects":
                        return [[abst(a), abst(o)] for a in g.transitive_subjects(conc(e["p"]["arg"]["iri"]), o)]
                    text = "SELECT %s WHERE { %s %s %s }" % (" ".join(x for x in (["?s"] if s is None else []) + (["?o"] if o is None else [])) or "*",
                                                           "?s" if s is None else s.n3(), path_text(e["p"]), "?o" if o is None else o.n3())
                    e["text"] = text
                    return [[abst(b.get(Variable("s"), s)), abst(b.get(Variable("o"), o))] for b in g.query(text).bindings]
                try:
                    e["res"] = {"k": "pairs", "pairs": guarded(run)}
                except _Timeout:
                    e["res"] = {"k": "timeout"}
                except Exception as ex:  # noqa: BLE001
                    e["res"] = {"k": "raise", "e": type(ex).__name__, "msg": str(ex)[:200]}
            else:
                raise ValueError(op)
            evs.append(e)
        acc = []
        collect_strings(evs, acc)
        return {"tid": 0, "cfg": {"union_default": bool(cfg.get("union_default", False)) and cfg.get("facade", "graph") != "graph",
                                  "ord": ord_table(acc), "facade": cfg.get("facade", "graph"), "store": cfg.get("store", "Memory")}, "ev": evs}
    finally:
        sparql_mod.SPARQL_DEFAULT_GRAPH_UNION = old
