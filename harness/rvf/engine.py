"""Generic pipeline: model-check the specs, obtain behaviours, replay them on rdflib, have TLC
validate the recorded traces, classify rejections against known findings, write evidence.

Exit codes: 0 property held on everything explored (known findings are printed, not alarms);
1 a violation not listed in known_findings.jsonl; 2 machinery failure (never a verdict).
"""
from __future__ import annotations

import hashlib
import importlib
import json
import multiprocessing as mp
import os
import sys
import time
import traceback
from concurrent.futures import ThreadPoolExecutor

from . import tlc

ROOT = os.path.dirname(os.path.dirname(os.path.dirname(os.path.abspath(__file__))))
NPROC = int(os.environ.get("RVF_PROCS", "16"))


def log(*a):
    print("[rvf]", *a, file=sys.stderr, flush=True)


# ----------------------------------------------------------------------------------------------
def _exec_chunk(args):
    modname, jobs = args
    mod = importlib.import_module(modname)
    out = []
    for tid, job in jobs:
        try:
            tr = mod.execute(job)
            tr["tid"] = tid
            out.append(tr)
        except Exception as ex:  # noqa: BLE001  harness failure: reported as machinery, never as verdict
            out.append({"tid": tid, "harness_error": "%s: %s\n%s" % (type(ex).__name__, ex, traceback.format_exc()[-1500:])})
    return out


def replay_parallel(modname: str, jobs: list, procs: int = NPROC, chunk: int = 200) -> list[dict]:
    items = list(enumerate(jobs, 1))
    chunks = [(modname, items[i:i + chunk]) for i in range(0, len(items), chunk)]
    if not chunks:
        return []
    if procs <= 1 or len(chunks) == 1:
        res = [_exec_chunk(c) for c in chunks]
    else:
        ctx = mp.get_context("fork")
        with ctx.Pool(min(procs, len(chunks)), maxtasksperchild=50) as pool:
            res = pool.map(_exec_chunk, chunks, chunksize=1)
    traces = [t for r in res for t in r]
    traces.sort(key=lambda t: t["tid"])
    return traces


def validate_parallel(module: str, traces: list[dict], *, chunk: int = 1500, par: int = 8,
                      deviations=None, heap="3g") -> tuple[dict, int, int, float]:
    """Returns (verdicts by tid, tlc states, tlc transitions, wall)."""
    chunks = [traces[i:i + chunk] for i in range(0, len(traces), chunk)]
    verdicts: dict = {}
    states = trans = 0
    t0 = time.time()

    def one(c):
        return tlc.validate_batch(module, c, deviations=deviations, heap=heap)

    with ThreadPoolExecutor(max_workers=par) as ex:
        for r, v in ex.map(one, chunks):
            verdicts.update(v)
            states += r.distinct
            trans += r.generated
    return verdicts, states, trans, time.time() - t0


# ----------------------------------------------------------------------------------------------
def load_findings(prop: str) -> list[dict]:
    path = os.path.join(ROOT, "known_findings.jsonl")
    res = []
    if os.path.exists(path):
        for line in open(path):
            line = line.strip()
            if not line or line.startswith("#"):
                continue
            try:
                d = json.loads(line)
            except Exception:
                continue
            if (d.get("property") == prop or prop in d.get("also", [])) and d.get("status") == "known":
                res.append(d)
    return res


def sha(obj) -> str:
    return hashlib.sha1(json.dumps(obj, sort_keys=True, separators=(",", ":")).encode()).hexdigest()[:16]


class Outcome:
    def __init__(self, prop: str, tier: str, seed: int):
        self.prop, self.tier, self.seed = prop, tier, seed
        self.t0 = time.time()
        self.states = 0
        self.transitions = 0
        self.mc_runs: list[dict] = []
        self.evaluations = 0
        self.accepted = 0
        self.distinct: set = set()
        self.samples: list = []
        self.violations: list[dict] = []     # {clause, at, job, trace}
        self.known_hits: dict[str, dict] = {}
        self.clauses: dict[str, int] = {}
        self.notes: list[str] = []
        self.assumptions: list[str] = []
        self.extra: dict = {}
        self.exhaustive = False
        self.rule = ""
        self.machinery: list[str] = []

    # -- model checking ------------------------------------------------------------------
    def mc(self, module, cfg, *, workers=NPROC, expect=None, timeout=1800, coverage=False, extra=None, env=None, heap="8g"):
        """expect=None: must pass.  expect='<Inv>': TLC must report exactly that violation
        (a deviation model of a defect: shows the spec discriminates)."""
        r = tlc.run(module, cfg, workers=workers, timeout=timeout, coverage=coverage, extra=extra, env=env, heap=heap)
        rec = {"module": module, "cfg": os.path.basename(cfg), "states": r.distinct, "transitions": r.generated,
               "depth": r.depth, "wall_s": round(r.wall_s, 1), "result": r.violated or r.error or "ok", "expected": expect or "ok"}
        if coverage and r.coverage:
            rec["action_coverage"] = r.coverage
            never = [a for a, n in r.coverage.items() if n == 0]
            if never:
                rec["never_taken"] = never
        self.mc_runs.append(rec)
        self.states += r.distinct
        self.transitions += r.generated
        log("MC", module, os.path.basename(cfg), rec["result"], r.distinct, "states", "%.1fs" % r.wall_s)
        if r.error:
            self.machinery.append(f"TLC error in {module}/{os.path.basename(cfg)}: {r.error}\n{r.out[-1500:]}")
        elif expect is None and r.violated:
            self.machinery.append(f"spec {module}/{os.path.basename(cfg)} violates its own property {r.violated} (spec bug)\n{r.out[-3000:]}")
        elif expect is not None and r.violated != expect:
            self.machinery.append(f"spec {module}/{os.path.basename(cfg)}: expected counterexample to {expect}, got {r.violated}")
        return r

    # -- conformance -----------------------------------------------------------------------
    def conform(self, modname: str, trace_module: str, jobs: list, *, nontrivial=None, canon=None,
                chunk=1500, procs=NPROC, par=8, label="", heap="3g", slab=8000):
        """Replay jobs on rdflib, validate with TLC, classify.  Long job lists go through in slabs: the recorded traces of one slab are
        dropped before the next is replayed (the thorough tier of C02 once held 32 GB of them)."""
        if len(jobs) > slab:
            for i in range(0, len(jobs), slab):
                self.conform(modname, trace_module, jobs[i:i + slab], nontrivial=nontrivial, canon=canon, chunk=chunk, procs=procs, par=par,
                             label="%s[%d..]" % (label, i), heap=heap, slab=slab)
            return
        if not jobs:
            return
        t0 = time.time()
        traces = replay_parallel(modname, jobs, procs=procs)
        t1 = time.time()
        bad = [t for t in traces if "harness_error" in t]
        if bad:
            self.machinery.append("harness error in %d jobs, first: %s" % (len(bad), bad[0]["harness_error"]))
            traces = [t for t in traces if "harness_error" not in t]
        verdicts, st, tr, wall = validate_parallel(trace_module, traces, chunk=chunk, par=par, heap=heap)
        self.states += st
        self.transitions += tr
        log("conform", self.prop, label, len(jobs), "jobs; replay %.1fs; TLC %.1fs" % (t1 - t0, wall))
        rejected = []
        for t in traces:
            v, at, note = verdicts[t["tid"]]
            self.evaluations += 1
            job = jobs[t["tid"] - 1]
            key = canon(job) if canon else sha(job)
            if nontrivial is None or nontrivial(job, t):
                self.distinct.add(key)
            if v == "ok":
                self.accepted += 1
                if len(self.samples) < 3 and (nontrivial is None or nontrivial(job, t)):
                    self.samples.append(_shrink_sample(job))
            else:
                self.clauses[v] = self.clauses.get(v, 0) + 1
                vc = getattr(importlib.import_module(modname), "vclass", None)
                if vc:
                    key = v + "|" + vc(job, t, at)
                    self.extra.setdefault("rejected_by_class", {})
                    self.extra["rejected_by_class"][key] = self.extra["rejected_by_class"].get(key, 0) + 1
                rejected.append((t, v, at, job))
        if rejected:
            self._classify(modname, trace_module, rejected)

    def _classify(self, modname, trace_module, rejected):
        findings = load_findings(self.prop)
        explained: dict[int, dict] = {}
        # pass 2, one listed deviation model at a time: a rejected trace that the spec accepts once that
        # named deviation is allowed is explained by that finding (and by nothing else)
        for f in findings:
            if not f.get("deviation"):
                continue
            traces = [t for t, _, _, _ in rejected if t["tid"] not in explained]
            if not traces:
                break
            v2, st, tr, _ = validate_parallel(trace_module, traces, deviations=[f["deviation"]], chunk=250, par=6, heap="5g")      # (rejected traces tend to be the long ones)
            self.states += st
            self.transitions += tr
            for t in traces:
                if v2[t["tid"]][0] == "ok":
                    explained[t["tid"]] = f
        # pass 3: a trace may meet two listed deviations at once (e.g. a pushed-down GRAPH block whose rows bind none of the selected variables,
        # which iteration then drops): all listed deviation models together.  Still only listed findings explain anything.
        devs = [f for f in findings if f.get("deviation")]
        left = [t for t, _, _, _ in rejected if t["tid"] not in explained]
        if len(devs) > 1 and left:
            v3, st, tr, _ = validate_parallel(trace_module, left, deviations=[f["deviation"] for f in devs], chunk=250, par=6, heap="5g")
            self.states += st
            self.transitions += tr
            combo = {"id": "+".join(f["id"] for f in devs), "what": "several listed findings at once: " + ", ".join(f["id"] for f in devs)}
            for t in left:
                if v3[t["tid"]][0] == "ok":
                    explained[t["tid"]] = combo
        mod = importlib.import_module(modname)
        matcher = getattr(mod, "match_finding", None)
        for t, v, at, job in rejected:
            hit = explained.get(t["tid"])
            if hit is None and matcher:
                hit = matcher([f for f in findings if not f.get("deviation")], job, t, v, at)
            if hit is not None:
                h = self.known_hits.setdefault(hit["id"], {"id": hit["id"], "what": hit.get("what", ""), "count": 0, "example": _shrink_sample(job)})
                h["count"] += 1
            else:
                self.violations.append({"clause": v, "at": at, "job": job, "trace": t})

    # -- finish ----------------------------------------------------------------------------
    def finish(self, *, level="model_checking") -> int:
        wall = time.time() - self.t0
        # growth checks (G..) are not listed properties: their evidence is kept apart from the per-property files
        # VERIF_EVIDENCE_DIR: runs against a seeded change (bin/try_mutant, tools/mutant_sweep.py) keep their output away from the evidence of record
        ev_root = os.environ.get("VERIF_EVIDENCE_DIR") or os.path.join(ROOT, "evidence")
        ev_dir = ev_root if self.prop.startswith("C") else os.path.join(ev_root, "growth")
        os.makedirs(ev_dir, exist_ok=True)
        replay_paths = []
        seen_sig = set()
        per_clause: dict = {}
        for vio in self.violations:
            sig = (vio["clause"], sha(vio["job"]))
            if sig in seen_sig:
                continue
            seen_sig.add(sig)
            per_clause[vio["clause"]] = per_clause.get(vio["clause"], 0) + 1
            if per_clause[vio["clause"]] > 8 or len(replay_paths) >= 40:
                continue
            d = os.path.join(ROOT, "replays", self.prop)
            os.makedirs(d, exist_ok=True)
            p = os.path.join(d, sha(vio["job"]) + ".json")
            with open(p, "w") as f:
                json.dump({"property": self.prop, "clause": vio["clause"], "event": vio["at"], "tier": self.tier,
                           "seed": self.seed, "job": vio["job"], "trace": vio["trace"]}, f, indent=1)
            replay_paths.append((vio["clause"], p))
        for h in self.known_hits.values():
            print(f"KNOWN-FINDING: property={self.prop} {h['id']} {h['what']} (x{h['count']})")
        for clause, p in replay_paths:
            print(f"VIOLATION property={self.prop} replay={p} clause={clause}")
        for m in self.machinery:
            print(f"MACHINERY-FAILURE property={self.prop}: {m}", file=sys.stderr)
        if not self.samples:
            self.samples = [{"note": "no accepted non-trivial sample in this run"}]
        cov = {
            "states": max(self.states, 0), "transitions": max(self.transitions, 0),
            "traces_validated_against_impl": self.accepted,
            "evaluations": self.evaluations, "distinct_nontrivial": len(self.distinct),
            "rule": self.rule, "samples": self.samples, "exhaustive": self.exhaustive,
            "model_checking_runs": self.mc_runs, "rejected_by_clause": self.clauses,
            "known_findings_matched": list(self.known_hits.values()),
            "notes": self.notes,
        }
        cov.update(self.extra)
        evd = {"property_id": self.prop, "tier": self.tier, "seed": self.seed, "level": level, "coverage": cov,
               "assumptions": self.assumptions, "wall_s": round(wall, 1), "violations": len(self.violations)}
        if self.machinery:
            evd["coverage"]["machinery_failures"] = [m[:500] for m in self.machinery]
        with open(os.path.join(ev_dir, self.prop + ".json"), "w") as f:
            json.dump(evd, f, indent=1, default=str)
        log(self.prop, self.tier, "done in %.1fs: %d evaluated, %d accepted, %d violations, %d known-finding classes, states=%d" %
            (wall, self.evaluations, self.accepted, len(self.violations), len(self.known_hits), self.states))
        if self.violations:
            return 1
        if self.machinery:
            return 2
        return 0


def _shrink_sample(job):
    s = json.dumps(job, default=str)
    if len(s) > 1500:
        return {"truncated": s[:1500]}
    return job
