"""bin/check <property-id> [--tier quick|thorough] [--replay <path>]"""
from __future__ import annotations

import argparse
import importlib
import json
import os
import sys


def main(argv=None):
    ap = argparse.ArgumentParser()
    ap.add_argument("prop")
    ap.add_argument("--tier", default=os.environ.get("VERIF_TIER", "quick"), choices=["quick", "thorough"])
    ap.add_argument("--replay", default=None)
    a = ap.parse_args(argv)
    seed = int(os.environ.get("VERIF_SEED", "0") or 0)
    repo = os.environ.get("RVF_REPO", "/repo")
    sys.path.insert(0, repo)
    import rdflib  # noqa
    if not os.path.abspath(rdflib.__file__).startswith(os.path.abspath(repo) + os.sep):
        print(f"MACHINERY-FAILURE: rdflib imported from {rdflib.__file__}, not from {repo}", file=sys.stderr)
        return 2
    from . import engine
    prop = a.prop.upper()
    try:
        mod = importlib.import_module("rvf.props." + prop.lower())
    except ModuleNotFoundError as ex:
        print(f"MACHINERY-FAILURE: no check for {prop}: {ex}", file=sys.stderr)
        return 2
    out = engine.Outcome(prop, a.tier, seed)
    try:
        if a.replay:
            rec = json.load(open(a.replay))
            out.rule = "replay of one recorded violating job"
            out.conform(mod.__name__, mod.TRACE if not hasattr(mod, "trace_module") else mod.trace_module(rec["job"]), [rec["job"]], procs=1)
            out.distinct.update({"replay", "replay-2"})
            for v in out.violations:
                print("REPLAY rejected: clause=%s at event %s" % (v["clause"], v["at"]))
            if not out.violations and not out.known_hits:
                print("REPLAY accepted: the recorded job no longer violates", prop)
            # a replay does not rewrite the evidence file
            for m in out.machinery:
                print("MACHINERY-FAILURE:", m, file=sys.stderr)
            return 1 if out.violations else (2 if out.machinery else 0)
        mod.run(out, a.tier, seed)
    except engine.tlc.MachineryError as ex:
        out.machinery.append(str(ex))
    except Exception as ex:  # noqa: BLE001
        import traceback
        out.machinery.append("%s: %s\n%s" % (type(ex).__name__, ex, traceback.format_exc()))
    return out.finish(level=getattr(mod, "LEVEL", "model_checking"))


if __name__ == "__main__":
    sys.exit(main())
