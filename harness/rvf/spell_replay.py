"""C05: render the token lists written by TurtleSpelling.tla behaviours into concrete N-Triples / N-Quads / Turtle / TriG text
(white space, comments, escapes and keyword case are this writer's seeded choices), hand the text to rdflib by every route and
record what it parsed; record rdflib's own N-Triples / N-Quads output as code points for the strict grammar of NTriplesGrammar.tla."""
from __future__ import annotations

import io
import os
import pathlib
import random
import shutil
import tempfile
import warnings

from rdflib import BNode, Dataset, Graph, Literal, URIRef

from .doc_replay import abst, ds_quads, guarded, wellformed, _Timeout

warnings.simplefilter("ignore")
RDF = "http://www.w3.org/1999/02/22-rdf-syntax-ns#"
XSD = "http://www.w3.org/2001/XMLSchema#"
NS = {0: RDF, 1: "http://ex.example/a/b/c/", 2: "http://ex.example/a/b/c/d#", 3: "urn:x:n:"}
REL_NS = {1, 2}          # namespaces under which a relative reference "local" / "#local" resolves to ns + local
LOCAL_POOL = ["x1", "a.b", "1a", "a-b_c", "a,b", "a:b", "é", "a%41", "", "a~b", "x.", "a/b", "a(b)", "a'b", "a;b=c", "A_", "\U00010400", "a..b", "-a", "a@b", "a!$&*+?#"]
PN_LOCAL_ESC = set("_~.-!$&'()*+,;=/?#@%")
FMT_OF = {"nt": "nt", "nquads": "nquads", "turtle": "turtle", "trig": "trig"}


def locals_for(rng, names, fmt):
    pool = [x for x in LOCAL_POOL]
    rng.shuffle(pool)
    return {n: pool[i] for i, n in enumerate(sorted(names))}


def lit_pool(rng, strings):
    """4 literals: two with a shorthand (numeric / boolean), two strings (plain / language / typed) over hostile characters"""
    short1 = rng.choice([("42", "integer"), ("-7", "integer"), ("0", "integer"), ("+5", "integer"), ("1.5", "decimal"), ("-0.25", "decimal"), (".5", "decimal"), ("-.5", "decimal"), ("+.25", "decimal"), ("+1.0", "decimal")])
    short2 = rng.choice([("true", "boolean"), ("false", "boolean"), ("1.0E0", "double"), ("1e3", "double"), ("-2.5E-3", "double"), ("1.E2", "double"), (".5e1", "double"), ("-.5e1", "double"), ("+.5E-1", "double"), ("+1.E2", "double"), ("-1e+3", "double")])
    out = [{"v": short1[0], "dt": XSD + short1[1], "short": True}, {"v": short2[0], "dt": XSD + short2[1], "short": True}]
    for _ in range(2):
        s = rng.choice(strings)
        f = rng.random()
        if f < 0.45:
            out.append({"v": s})
        elif f < 0.7:
            out.append({"v": s, "lang": rng.choice(["en", "en-GB", "de-CH-1996", "EN"])})
        else:
            out.append({"v": s, "dt": rng.choice([XSD + "string", "http://ex.example/dt", "http://ex.example/a/b#dt"])})
    return out


STRINGS = ["", "a", "a b", "\"", "'", "\"\"", "''", "a\"b", "a'b", "\\", "\\\\", "a\\", "\n", "a\nb", "\r", "\r\n", "\t", "é", "\U0001F600", " ", "a\"\"\"b", "'''", "\"'", "x\"", "x'", "\\n", "\\u0041", "#", " a ", "<>", "a\u0001b", "\u007f",
           "퟿", "￿", "@en", "^^", "a.", "{}", "\b", "\f", " ", "́"]


class Writer:
    def __init__(self, seed, fmt, doc):
        self.rng = random.Random(seed)
        self.fmt = fmt
        self.doc = doc
        names = {x["l"] for t in doc for x in (t.get("term"), t.get("g")) if x and x.get("k") == "iri" and x["ns"] != 0}
        self.local = locals_for(self.rng, names, fmt)
        self.lits = lit_pool(self.rng, STRINGS if fmt in ("turtle", "trig") else [s for s in STRINGS])
        self.tight = self.rng.random() < 0.25
        self.abbrev = fmt in ("turtle", "trig")

    # ---- terms -------------------------------------------------------------------------------------
    def iri_value(self, t):
        if t["ns"] == 0:
            return RDF + t["l"]
        return NS[t["ns"]] + self.local[t["l"]]

    def uchar(self, ch, allow_raw):
        cp = ord(ch)
        r = self.rng.random()
        if allow_raw and r < 0.7:
            return ch
        if cp <= 0xFFFF and r < 0.9:
            return "\\u%04X" % cp if self.rng.random() < 0.5 else "\\u%04x" % cp
        return "\\U%08X" % cp

    def iriref(self, value):
        out = []
        for ch in value:
            bad = ord(ch) <= 0x20 or ch in '<>"{}|^`\\'
            out.append(self.uchar(ch, not bad) if (bad or self.rng.random() < 0.1) else ch)
        return "<" + "".join(out) + ">"

    def rel_ref(self, t):
        """one of the relative references that RFC 3986 5.2 resolves, against the base in force (= the namespace of t), to the IRI of t;
        each candidate is built from the known structure of the namespaces and cross-checked with urllib's resolver"""
        from urllib.parse import urljoin
        loc = self.local[t["l"]]
        ns = NS[t["ns"]]
        target = ns + loc
        if ns.endswith("#"):
            cands = ["#" + loc, "d#" + loc, "./d#" + loc, "../c/d#" + loc, "../../b/c/d#" + loc, "/a/b/c/d#" + loc, "//ex.example/a/b/c/d#" + loc, "?#" + loc if False else "#" + loc]
        else:
            first = loc.split("/")[0]
            plain = loc if not (loc == "" or ":" in first or loc.startswith(("/", "?", "#")) or first in (".", "..")) else "./" + loc
            cands = [plain, "./" + loc, "../c/" + loc, "../../b/c/" + loc, "../../../a/b/c/" + loc, "/a/b/c/" + loc, "//ex.example/a/b/c/" + loc, ".././c/" + loc, "../../../../a/b/c/" + loc]
            if loc == "":
                cands += ["", "."]
        ref = self.rng.choice(cands)
        if urljoin(ns, ref) != target:
            ref = cands[0]
            if urljoin(ns, ref) != target:
                return None
        return ref

    def relative_ok(self, t):
        loc = self.local[t["l"]]
        # characters that end the path of a relative reference change what it resolves to
        return t["ns"] in REL_NS and not any(c in loc for c in "?#") and ".." not in loc.split("/") and "." not in loc.split("/")

    def pname_local(self, loc):
        out = []
        for i, ch in enumerate(loc):
            last = i == len(loc) - 1
            if ch == "%":
                out.append("%")            # PLX: a percent sign followed by two hex digits stays as it is
            elif ch in PN_LOCAL_ESC:
                need = ch not in "_.-" or (ch == "." and (i == 0 or last)) or (ch == "-" and i == 0)
                if ch == "_" or (not need and self.rng.random() < 0.8):
                    out.append(ch)
                else:
                    out.append("\\" + ch)
            else:
                out.append(ch)
        return "".join(out)

    def pname_ok(self, loc):
        i = 0
        while i < len(loc):
            if loc[i] == "%":
                if not (i + 2 < len(loc) + 0 and all(c in "0123456789abcdefABCDEF" for c in loc[i + 1:i + 3]) and len(loc[i + 1:i + 3]) == 2):
                    return False
                i += 3
                continue
            i += 1
        return True

    def iri(self, t, sp):
        v = self.iri_value(t)
        how = sp["how"]
        if how == "a":
            return "a"
        if how == "rel" and self.relative_ok(t):
            ref = self.rel_ref(t)
            if ref is not None:
                return self.iriref(ref)
        if how == "pname" and self.pname_ok(self.local[t["l"]]):
            return sp["pfx"] + ":" + self.pname_local(self.local[t["l"]])
        return self.iriref(v)

    def string(self, s, q):
        """q: 1 "..."  2 '...'  3 long double  4 long single"""
        quote = '"' if q in (1, 3) else "'"
        long = q in (3, 4)
        out = []
        ech = {"\t": "\\t", "\b": "\\b", "\n": "\\n", "\r": "\\r", "\f": "\\f", '"': '\\"', "'": "\\'", "\\": "\\\\"}
        for i, ch in enumerate(s):
            must = ch == "\\" or (not long and ch in "\n\r") or (not long and ch == quote)
            if long and ch == quote:
                # never let three quotes form, nor a quote touch the closing delimiter
                must = i == len(s) - 1 or s[i + 1] == quote or (i > 0 and s[i - 1] == quote)
            if ord(ch) in (0,):
                must = True
            if self.fmt in ("nt", "nquads") and ch in '"\\\n\r':
                must = True
            if must or self.rng.random() < 0.2:
                if ch in ech and self.rng.random() < 0.7:
                    out.append(ech[ch])
                else:
                    out.append(self.uchar(ch, False))
            else:
                out.append(ch)
        d = quote * 3 if long else quote
        return d + "".join(out) + d

    def literal(self, t, sp):
        lit = self.lits[t["i"] - 1]
        if sp["how"] == "short" and lit.get("short"):
            return lit["v"]
        q = sp.get("q", 1)
        text = self.string(lit["v"], q)
        if lit.get("lang"):
            return text + "@" + lit["lang"]
        if lit.get("dt"):
            return text + "^^" + self.iriref(lit["dt"])
        return text

    def node(self, tok):
        t, sp = tok["term"], tok["sp"]
        if t["k"] == "iri":
            return self.iri(t, sp)
        if t["k"] == "bnode":
            return "_:" + t["v"]
        return self.literal(t, sp)

    # ---- layout ------------------------------------------------------------------------------------
    def ws(self, must=False):
        r = self.rng.random()
        if self.fmt in ("nt", "nquads"):
            if not must and r < 0.3:
                return ""
            return self.rng.choice([" ", " ", "\t", "  ", " \t "])
        if not must and self.tight and r < 0.6:
            return ""
        if r < 0.55:
            return " "
        # WS ::= #x20 | #x9 | #xD | #xA ; a comment runs to the next #xA or #xD
        return self.rng.choice(["\n", "\t", "  ", " # c <x> \"y\" .\n", "\r\n", "\n\n", " #\n", "\n  ", "\r", " # c <x> .\r", "\r\r "])

    def kw(self, word):
        if word.startswith("@"):
            return word
        return self.rng.choice([word, word.lower(), word.capitalize()])

    def render(self):
        pieces = []          # (text, kind)  kind: how the piece starts / ends for the white-space rule
        doc = self.doc
        for i, tok in enumerate(doc):
            t = tok["t"]
            if t == "prefix":
                txt = self.kw(tok["kw"]) + self.ws(True) + tok["pfx"] + ":" + self.ws() + self.iriref(NS[tok["ns"]]) + (self.ws() + "." if tok["kw"].startswith("@") else "")
                pieces.append(("\n" + txt + "\n", "line"))
            elif t == "base":
                txt = self.kw(tok["kw"]) + self.ws() + self.iriref(NS[tok["ns"]]) + (self.ws() + "." if tok["kw"].startswith("@") else "")
                pieces.append(("\n" + txt + "\n", "line"))
            elif t == "node":
                pieces.append((self.node(tok), "word"))
            elif t == "gopen":
                txt = ""
                if tok.get("named"):
                    name = self.node(tok)
                    txt = (self.kw("GRAPH") + self.ws(True) if tok["kw"] else "") + name + self.ws(not name.endswith(">"))
                pieces.append((txt + "{", "punct"))
            elif t == "gclose":
                pieces.append(("}", "punct"))
            elif t == ".":
                if self.fmt == "nquads" and tok.get("g", {}).get("k", "default") != "default":
                    g = tok["g"]
                    pieces.append((self.iriref(self.iri_value(g)) if g["k"] == "iri" else "_:" + g["v"], "word"))
                # inside a TriG block the last '.' may be left out
                if self.fmt == "trig" and i + 1 < len(doc) and doc[i + 1]["t"] == "gclose" and self.rng.random() < 0.4:
                    continue
                pieces.append((".", "dot"))
            elif t == ";":
                pieces.append((";" if self.rng.random() < 0.8 else ";" + self.ws() + ";", "punct"))
            elif t in ("]",) and self.abbrev and i > 0 and doc[i - 1]["t"] not in ("[", ";") and self.rng.random() < 0.15:
                pieces.append((";" + self.ws() + "]", "punct"))       # a trailing ';' is allowed
            else:
                pieces.append((t, "punct"))
        out = []
        for j, (txt, kind) in enumerate(pieces):
            if j > 0:
                prev_txt, prev_kind = pieces[j - 1]
                # two word-like tokens need white space between them; a '.' after a word is kept apart unless writing tight
                if self.fmt in ("nt", "nquads"):
                    # a blank node label runs on through '_' ':' and name characters: the next label must be kept apart
                    out.append(self.ws(prev_txt.startswith("_:") and not txt.startswith(("<", '"', "."))))
                else:
                    must = (prev_kind == "word" and kind == "word" and not (prev_txt.endswith((">", '"', "'")) or txt.startswith(("<", '"', "'")))) \
                        or (prev_kind == "word" and kind == "dot" and not prev_txt.endswith((">", '"', "'")) and not self.tight) \
                        or (prev_kind == "word" and kind == "dot" and prev_txt[-1:].isdigit()) \
                        or (prev_kind == "word" and prev_txt in ("a", "true", "false") and not txt.startswith(("<", '"', "'", "[", "("))) \
                        or (prev_kind == "dot" and not txt.startswith(("<", '"', "'", "[", "(", "{", "}", "\n")))     # "p:x.Graph" would be one prefixed name
                    out.append(self.ws(must))
            out.append(txt)
            if self.fmt in ("nt", "nquads") and kind == "dot":
                out.append(self.ws(False) + self.rng.choice(["\n", "\n", "\r\n", "\r", " # comment\n", "\n\n", "\r\r", "\n# line comment\n", " # comment\r"]))      # EOL ::= [#xD#xA]+
        text = "".join(out)
        if self.fmt in ("turtle", "trig") and self.rng.random() < 0.3:
            text = "# leading comment\n" + text
        return text + self.rng.choice(["", "\n", " ", "\n# end"])

    # ---- the expected dataset, concretely -------------------------------------------------------
    def term(self, t, bmap):
        if t["k"] == "iri":
            return URIRef(self.iri_value(t))
        if t["k"] == "bnode":
            return bmap.setdefault(t["v"], BNode())
        if t["k"] == "default":
            return None
        lit = self.lits[t["i"] - 1]
        if lit.get("lang"):
            return Literal(lit["v"], lang=lit["lang"])
        if lit.get("dt"):
            return Literal(lit["v"], datatype=URIRef(lit["dt"]))
        return Literal(lit["v"])

    def expected(self, quads):
        bmap, names = {}, {}
        out = []
        for q in quads:
            s, p, o, g = (self.term(q[x], bmap) for x in ("s", "p", "o", "g"))
            out.append([abst(s), abst(p), abst(o), {"k": "default"} if g is None else abst(g)])
        return out


ROUTES = ["str", "bytes", "bytesio", "stringio", "path", "pathlib", "fileobj"]
NAMES = ["doc", "my doc", "100%25 sure", "r\u00e9sum\u00e9", "a#b", "a+b&c"]


def parse_route(route, text, fmt, tmp, enc="utf-8"):
    sink = Dataset() if fmt in ("trig", "nquads", "json-ld") else Graph()
    if route == "str":
        sink.parse(data=text, format=fmt)
    elif route == "bytes":
        sink.parse(data=text.encode(enc), format=fmt)
    elif route == "bytesio":
        sink.parse(source=io.BytesIO(text.encode(enc)), format=fmt)
    elif route == "stringio":
        sink.parse(source=io.StringIO(text), format=fmt)
    else:
        path = os.path.join(tmp, NAMES[len(text) % len(NAMES)] + "." + {"nt": "nt", "nquads": "nq", "turtle": "ttl", "trig": "trig", "xml": "rdf", "json-ld": "jsonld"}[fmt])
        with open(path, "wb") as f:
            f.write(text.encode(enc))
        if route == "path":
            sink.parse(path, format=fmt)
        elif route == "pathlib":
            sink.parse(pathlib.Path(path), format=fmt)
        else:
            with open(path, "rb") as f:
                sink.parse(file=f, format=fmt)
    if isinstance(sink, Dataset):
        return ds_quads(sink)
    return [[abst(s), abst(p), abst(o), {"k": "default"}] for s, p, o in sink]


def do_spell(e, text, expected):
    tmp = tempfile.mkdtemp(prefix="rvf-spell-", dir="/tmp")
    routes = []
    try:
        for r in e["routes_wanted"]:
            rec = {"route": r}
            try:
                rec["quads"] = guarded(lambda: parse_route(r, text, e["fmt"], tmp, e.get("encoding", "utf-8")))
                rec["res"] = "ok"
            except _Timeout:
                rec["res"] = "timeout"
                rec["quads"] = []
            except Exception as ex:     # noqa: BLE001
                rec["res"] = "raised"
                rec["msg"] = type(ex).__name__ + ": " + str(ex)[:200]
                rec["quads"] = []
            routes.append(rec)
    finally:
        shutil.rmtree(tmp, ignore_errors=True)
    e.update(routes=routes, expected=expected, text=text[:1500])
    del e["routes_wanted"]


def cps(s):
    return [ord(c) for c in s]


def nt_term(x):
    a = abst(x)
    if a["k"] == "lit":
        dt = a["dt"] or (RDF + "langString" if a["lang"] else XSD + "string")
        return {"k": "lit", "v": cps(a["v"]), "dt": cps(dt), "lang": cps(a["lang"])}
    return {"k": a["k"], "v": cps(a["v"])}


def replay(cfg, events):
    evs = []
    for e in events:
        e = dict(e)
        op = e["op"]
        if op == "spell_plan" and e["fmt"] == "json-ld":
            from .jsonld_spell import JsonLdWriter, Unrenderable
            jw = JsonLdWriter(e["seed"], e["plan"]["doc"])
            try:
                text = jw.render()
            except Unrenderable:      # (no JSON document spells this token list: nothing to hand to rdflib)
                continue
            e2 = {"op": "spell", "fmt": "json-ld", "routes_wanted": e["routes"], "family": e.get("family", "")}
            do_spell(e2, text, jw.expected(e["plan"]["quads"], abst))
            evs.append(e2)
        elif op == "spell_plan" and e["fmt"] == "xml":
            from .xml_spell import XmlWriter
            xw = XmlWriter(e["seed"], e["plan"]["doc"])
            text = xw.render()
            e2 = {"op": "spell", "fmt": "xml", "routes_wanted": e["routes"], "family": e.get("family", "")}
            do_spell(e2, text, xw.expected(e["plan"]["quads"], abst, e.get("ndt", 2)))
            evs.append(e2)
        elif op == "spell_plan":
            w = Writer(e["seed"], e["fmt"], e["plan"]["doc"])
            text = w.render()
            e2 = {"op": "spell", "fmt": e["fmt"], "routes_wanted": e["routes"], "family": e.get("family", "")}
            do_spell(e2, text, w.expected(e["plan"]["quads"]))
            evs.append(e2)
        elif op == "spell_text":
            from .doc_replay import conc
            e2 = {"op": "spell", "fmt": e["fmt"], "routes_wanted": e["routes"], "family": e.get("family", ""), "encoding": e.get("encoding", "utf-8")}
            bmap = {}
            exp = [[abst(conc(x, bmap)) for x in qd[:3]] + [qd[3] if qd[3]["k"] == "default" else abst(conc(qd[3], bmap))] for qd in e["expected"]]
            do_spell(e2, e["text"], exp)
            evs.append(e2)
        elif op == "ntout":
            from .doc_replay import conc
            fmt = e["fmt"]
            bmap = {}
            ds = Dataset() if fmt == "nquads" else Graph()
            for q in e["quads_in"]:
                s, p, o = (conc(x, bmap) for x in q[:3])
                if fmt == "nquads" and q[3]["k"] != "default":
                    ds.graph(conc(q[3], bmap)).add((s, p, o))
                else:
                    ds.add((s, p, o))
            e2 = {"op": "ntout", "fmt": fmt, "quads": fmt == "nquads", "family": e.get("family", "")}
            try:
                data = ds.serialize(format=fmt, **e.get("kw", {}))
                if isinstance(data, bytes):
                    data = data.decode("utf-8")
                e2["res"] = "ok"
                e2["lines"] = [cps(ln) for ln in data.split("\n")]
                e2["text"] = data[:800]
                if fmt == "nquads":
                    default_ids = {ds.default_graph.identifier}
                    ident = lambda c: c.identifier if isinstance(c, Graph) else c
                    e2["expected"] = [[nt_term(s), nt_term(p), nt_term(o), {"k": "default"} if (ident(c) is None or ident(c) in default_ids) else nt_term(ident(c))] for s, p, o, c in ds.quads()]
                else:
                    e2["expected"] = [[nt_term(s), nt_term(p), nt_term(o), {"k": "default"}] for s, p, o in ds]
            except Exception as ex:      # noqa: BLE001
                e2["res"] = "raised"
                e2["msg"] = type(ex).__name__ + ": " + str(ex)[:200]
            evs.append(e2)
        elif op == "wf":
            from .doc_replay import conc
            fmt = e["fmt"]
            bmap = {}
            ds = Dataset() if fmt in ("trix", "json-ld-ds") else Graph()
            for q in e["quads_in"]:
                s, p, o = (conc(x, bmap) for x in q[:3])
                if isinstance(ds, Dataset) and q[3]["k"] != "default":
                    ds.graph(conc(q[3], bmap)).add((s, p, o))
                else:
                    ds.add((s, p, o))
            e2 = {"op": "wf", "fmt": fmt, "family": e.get("family", "")}
            try:
                data = ds.serialize(format="json-ld" if fmt == "json-ld-ds" else fmt, **e.get("ser_kw", {}))
                e2["res"] = "ok"
                e2["wellformed"] = wellformed("json-ld" if fmt == "json-ld-ds" else fmt, data)
                e2["text"] = data[:600]
            except Exception as ex:      # noqa: BLE001
                e2["res"] = "raised"
                e2["msg"] = type(ex).__name__ + ": " + str(ex)[:200]
            evs.append(e2)
        else:
            raise ValueError(op)
    return {"cfg": cfg, "ev": evs}
