"""Witness-class predicates over abstract inputs (DESIGN 2.5 (b)): identify a listed known finding precisely enough that a
different violation of the same property is still reported.  A finding entry names `class` (a predicate here), the formats and
the clause it explains."""
from __future__ import annotations

import re

RDF = "http://www.w3.org/1999/02/22-rdf-syntax-ns#"
XSD = "http://www.w3.org/2001/XMLSchema#"
_XML_BAD = re.compile("[\x00-\x08\x0b\x0c\x0e-\x1f\ufffe\uffff]")


def _key(x):
    return (x["k"], x["v"])


def bnode_cycle(triples):
    """a directed cycle through blank nodes (self-loops included)"""
    adj = {}
    for s, p, o in triples:
        if s["k"] == "bnode" and o["k"] == "bnode":
            adj.setdefault(s["v"], set()).add(o["v"])
    def reach(a):
        seen, st = set(), list(adj.get(a, ()))
        while st:
            n = st.pop()
            if n in seen:
                continue
            seen.add(n)
            st.extend(adj.get(n, ()))
        return seen
    return any(a in reach(a) for a in adj)


def list_irregular(triples):
    """a list cell that is referenced more than once, carries other properties, or lacks / repeats rdf:first / rdf:rest, or whose head is an IRI"""
    cells = {_key(s) for s, p, o in triples if p["v"] in (RDF + "first", RDF + "rest")}
    for c in cells:
        inc = sum(1 for s, p, o in triples if _key(o) == c)
        firsts = sum(1 for s, p, o in triples if _key(s) == c and p["v"] == RDF + "first")
        rests = sum(1 for s, p, o in triples if _key(s) == c and p["v"] == RDF + "rest")
        others = sum(1 for s, p, o in triples if _key(s) == c and p["v"] not in (RDF + "first", RDF + "rest"))
        if inc != 1 or firsts != 1 or rests != 1 or others or c[0] != "bnode":
            return True
    for s, p, o in triples:
        if p["v"] == RDF + "rest" and not (o["k"] == "bnode" or o["v"] == RDF + "nil"):
            return True
    return False


def list_cell_shared(triples):
    """a list cell that is referenced more than once (shared tail, head used twice)"""
    cells = {_key(s) for s, p, o in triples if p["v"] in (RDF + "first", RDF + "rest")}
    return any(sum(1 for s, p, o in triples if _key(o) == c) > 1 for c in cells)


def list_cell_typed_list(triples):
    """a list cell that also carries the statement rdf:type rdf:List"""
    cells = {_key(s) for s, p, o in triples if p["v"] in (RDF + "first", RDF + "rest")}
    return any(_key(s) in cells and p["v"] == RDF + "type" and o.get("v") == RDF + "List" for s, p, o in triples)


def rest_cycle(triples):
    return bnode_cycle([t for t in triples if t[1]["v"] == RDF + "rest"])


def double_many_digits(triples):
    for s, p, o in triples:
        if o["k"] == "lit" and o.get("dt") == XSD + "double":
            try:
                f = float(o["v"])
                if float("%e" % f) != f:
                    return True
            except ValueError:
                pass
    return False


def xml_bad_char(triples):
    return any(o["k"] == "lit" and _XML_BAD.search(o["v"]) for s, p, o in triples)


PREDICATES = {"bnode_cycle": bnode_cycle, "list_irregular": list_irregular, "list_cell_shared": list_cell_shared, "list_cell_typed_list": list_cell_typed_list, "rest_cycle": rest_cycle,
              "double_many_digits": double_many_digits, "xml_bad_char": xml_bad_char}


def match(findings, fmt, clause, triples):
    for f in findings:
        c = f.get("class")
        if not c:
            continue
        if fmt in c["formats"] and clause in c["clauses"] and PREDICATES[c["predicate"]](triples):
            return f
    return None
