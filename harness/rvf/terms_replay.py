"""Term identity laws (C07): ==, hash, ordering, sorting, pickling / copying / n3 round trips, recorded for TraceTerms.tla."""
from __future__ import annotations

import copy
import pickle
import random
import warnings

from rdflib import BNode, Graph, Literal, URIRef, Variable
from rdflib.util import from_n3

warnings.simplefilter("ignore")


def conc(t):
    k = t["k"]
    if k == "iri":
        return URIRef(t["v"])
    if k == "bnode":
        return BNode(t["v"])
    if k == "var":
        return Variable("?" + t["v"])       # (the constructor drops one leading "?": the variable named t["v"], whatever it starts with)
    if t.get("lang_raw"):
        return Literal(t["v"], lang=t["lang_raw"])
    if t.get("dt"):
        return Literal(t["v"], datatype=URIRef(t["dt"]), normalize=False)
    return Literal(t["v"])


def abst(x):
    if isinstance(x, Variable):
        return {"k": "var", "v": str(x), "dt": "", "lang": ""}
    if isinstance(x, URIRef):
        return {"k": "iri", "v": str(x), "dt": "", "lang": ""}
    if isinstance(x, BNode):
        return {"k": "bnode", "v": str(x), "dt": "", "lang": ""}
    if isinstance(x, Literal):
        return {"k": "lit", "v": str(x), "dt": str(x.datatype) if x.datatype is not None else "", "lang": (x.language or "").lower()}
    return {"k": "other", "v": repr(x), "dt": "", "lang": ""}


def rec(t):
    return {"k": t["k"], "v": t["v"], "dt": t.get("dt", ""), "lang": (t.get("lang_raw") or "").lower()}


XSD_NS = "http://www.w3.org/2001/XMLSchema#"
P = URIRef("urn:x:p")
S_ = URIRef("urn:x:s")


class NoText(Exception):
    pass


def via(how, a):
    if how in ("from_n3", "turtle", "ntriples", "sparql_values"):
        try:
            a.n3()
        except Exception:     # noqa: BLE001   n3() declines to write the term: there is no text that could read back as another term
            raise NoText()
    if how.startswith("pickle"):
        return pickle.loads(pickle.dumps(a, protocol=int(how[6:])))
    if how == "copy":
        return copy.copy(a)
    if how == "deepcopy":
        return copy.deepcopy(a)
    if how == "from_n3":
        return from_n3(a.n3())
    if how == "turtle":
        g = Graph()
        g.parse(data="<urn:x:s> <urn:x:p> %s ." % a.n3(), format="turtle")
        return list(g.objects(S_, P))[0]
    if how == "ntriples":
        g = Graph()
        g.parse(data="<urn:x:s> <urn:x:p> %s .\n" % a.n3(), format="nt")
        return list(g.objects(S_, P))[0]
    if how == "sparql_values":
        g = Graph()
        r = g.query("SELECT ?v WHERE { VALUES ?v { %s } }" % a.n3())
        return list(r.bindings[0].values())[0]
    if how == "sparql_base":
        # the same text under a BASE declaration / the base= option: an absolute IRI is not resolved against anything
        g = Graph()
        r = g.query("BASE <http://base.example/dir/doc> SELECT ?v WHERE { VALUES ?v { %s } }" % a.n3())
        b1 = list(r.bindings[0].values())[0]
        r = g.query("SELECT ?v WHERE { BIND(%s AS ?v) }" % a.n3(), base="http://base.example/dir/doc")
        b2 = list(r.bindings[0].values())[0]
        return b1 if b1 == b2 and type(b1) is type(b2) else ("differ", b1, b2)
    if how == "sparql_prepared":
        from rdflib.plugins.sparql import prepareQuery
        q = prepareQuery("SELECT ?v WHERE { BIND(%s AS ?v) }" % a.n3())
        g = Graph()
        b1 = list(g.query(q).bindings[0].values())[0]
        b2 = list(g.query(q).bindings[0].values())[0]
        return b1 if b1 == b2 and type(b1) is type(b2) else ("differ", b1, b2)
    if how == "ctor":
        # the copy constructor of the term's own class
        return type(a)(a)
    if how == "from_n3_nsm":
        # n3() with a namespace manager that abbreviates, read back with the same manager: prefixes the default manager lacks (ex:)
        # or binds to another namespace (schema: is https://schema.org/ by default)
        g = Graph(bind_namespaces="none")
        g.bind("ex", "http://ex.example/")
        g.bind("schema", "http://schema.org/")
        g.bind("x", XSD_NS)
        return from_n3(a.n3(g.namespace_manager), nsm=g.namespace_manager)
    raise ValueError(how)


def replay(cfg, events):
    evs = []
    strings = set()
    for e in events:
        e = dict(e)
        op = e["op"]
        try:
            if op == "eq":
                a, b = conc(e["a"]), conc(e["b"])
                e["r"], e["r_rev"], e["ne"] = bool(a == b), bool(b == a), bool(a != b)
                e["hash_equal"] = hash(a) == hash(b)
                e["set_len"] = len({a, b})
                e["dict_len"] = len({a: 1, b: 2})
                g = Graph()
                if a == b or not (isinstance(a, Variable) or isinstance(b, Variable)):
                    g.add((S_, P, a))
                    g.add((S_, P, b))
                    e["graph_len"] = len(g)
                else:
                    e["graph_len"] = 2
            elif op == "lt":
                a, b = conc(e["a"]), conc(e["b"])
                e["lt"], e["gt"] = bool(a < b), bool(a > b)
            elif op == "sort":
                xs = [conc(t) for t in e["xs"]]
                ys = sorted(xs)
                ys2 = sorted(list(xs))
                sh = list(xs)
                random.Random(e.get("seed", 1)).shuffle(sh)
                zs = sorted(sh)
                e["ys"], e["ys2"], e["zs"] = [abst(t) for t in ys], [abst(t) for t in ys2], [abst(t) for t in zs]
            elif op == "via":
                a = conc(e["a"])
                if e["how"] == "nodepickler":
                    # the store-level pickler, one instance shared by successive terms (as Store.node_pickler is)
                    from rdflib.store import NodePickler
                    np_ = NodePickler()
                    np_.loads(np_.dumps(conc(e["first"])))
                    b = np_.loads(np_.dumps(a))
                else:
                    b = via(e["how"], a)
                e["b"] = abst(b)
                e["same_class"] = type(b) is type(a)
            elif op == "trans":
                a, b, c = conc(e["a"]), conc(e["b"]), conc(e["c"])
                e["ab"], e["bc"], e["ac"] = bool(a == b), bool(b == c), bool(a == c)
            else:
                raise ValueError(op)
        except NoText:
            e["notext"] = True
        except Exception as ex:  # noqa: BLE001
            e["raise"] = type(ex).__name__ + ": " + str(ex)[:100]
        e.pop("first", None)
        for key in ("a", "b", "c"):
            if key in e and "k" in e[key] and "lang" not in e[key]:
                e[key] = rec(e[key])
        if "xs" in e:
            e["xs"] = [rec(t) for t in e["xs"]]
        evs.append(e)
        for key in ("a", "b", "c"):
            if key in e:
                strings.add(e[key]["v"])
        for key in ("xs", "ys", "ys2", "zs"):
            for t in e.get(key, []):
                strings.add(t["v"])
    order = {s: i for i, s in enumerate(sorted(strings))}
    return {"tid": 0, "cfg": {"ord": order}, "ev": evs}
