"""Replay Collection histories (C19) and record traces for TraceCollection.tla."""
from __future__ import annotations

import signal
import warnings

from rdflib import BNode, Graph, URIRef
from rdflib.collection import Collection
from rdflib.namespace import RDF

from .vocab import Vocab

warnings.simplefilter("ignore")


class _Timeout(Exception):
    pass


def _alarm(signum, frame):
    raise _Timeout()


def guarded(fn, secs=10):
    signal.signal(signal.SIGVTALRM, _alarm)
    signal.setitimer(signal.ITIMER_VIRTUAL, secs)
    try:
        return fn()
    finally:
        signal.setitimer(signal.ITIMER_VIRTUAL, 0)


def replay(cfg, events):
    v = Vocab(cfg.get("vocab", "plain"))
    head = BNode("head") if cfg.get("head", "bnode") == "bnode" else URIRef("urn:x:head")
    if cfg.get("sibling"):
        # the list lives in one named graph of a dataset; another graph of the same store, filled first, holds a
        # different (longer) chain starting at the same head node
        from rdflib import Dataset
        ds = Dataset()
        other = ds.graph(URIRef("urn:x:other"))
        c2, c3 = BNode("oc2"), BNode("oc3")
        for t in ((head, RDF.first, URIRef("urn:x:ox")), (head, RDF.rest, c2), (c2, RDF.first, URIRef("urn:x:oy")), (c2, RDF.rest, c3),
                  (c3, RDF.first, URIRef("urn:x:oz")), (c3, RDF.rest, RDF.nil)):
            other.add(t)
        g = ds.graph(URIRef("urn:x:mine"))
    else:
        g = Graph()
    c = None
    names = {head: "h", RDF.nil: "nil"}

    def cell(n):
        if n not in names:
            names[n] = "f%d" % (len(names) - 1)
        return names[n]

    def val(x):
        if x in names:
            return names[x]
        if isinstance(x, BNode) and x not in v.inv:
            return cell(x)
        return v.abs(x)

    def cells():
        out = []
        for s, o in g.subject_objects(RDF.first):
            out.append([cell(s), "first", val(o)])
        for s, o in g.subject_objects(RDF.rest):
            out.append([cell(s), "rest", val(o)])
        return sorted(out)

    evs = []
    corrupt = False
    for e in events:
        e = dict(e)
        op = e["op"]

        def call():
            nonlocal c
            if op == "new":
                items = [v.term(x) for x in e["items"]]
                if e.get("how", "ctor") == "ctor":
                    c = Collection(g, head, items)
                else:  # hand-written triples
                    cur = head
                    for i, it in enumerate(items):
                        g.add((cur, RDF.first, it))
                        nx = RDF.nil if i == len(items) - 1 else BNode()
                        g.add((cur, RDF.rest, nx))
                        cur = nx
                    c = Collection(g, head)
                return {"k": "ok"}
            if op == "append":
                c.append(v.term(e["x"]))
                return {"k": "ok"}
            if op == "iadd":
                cc = c
                if e.get("self"):
                    # the collection as its own operand: c += c doubles the list (and comes to an end)
                    cc += cc
                else:
                    cc += [v.term(x) for x in e["xs"]]
                return {"k": "ok"}
            if op == "setitem":
                c[e["i"]] = v.term(e["x"])
                return {"k": "ok"}
            if op == "delitem":
                del c[e["i"]]
                return {"k": "ok"}
            if op == "clear":
                c.clear()
                return {"k": "ok"}
            if op == "getitem":
                return {"k": "val", "v": val(c[e["i"]])}
            if op == "index":
                return {"k": "val", "n": c.index(v.term(e["x"]))}
            if op == "contains":
                return {"k": "val", "b": v.term(e["x"]) in c}
            if op == "len":
                return {"k": "val", "n": len(c)}
            if op == "iter":
                return {"k": "val", "items": [val(x) for x in c]}
            if op == "corrupt":
                kind = e["kind"]
                chain = [head]
                cur = head
                for _ in range(10):
                    nx = g.value(cur, RDF.rest)
                    if nx is None or nx == RDF.nil or nx in chain:
                        break
                    chain.append(nx)
                    cur = nx
                last = chain[-1]
                if kind == "cycle_head":
                    g.set((last, RDF.rest, head))
                elif kind == "cycle_mid":
                    g.set((last, RDF.rest, chain[len(chain) // 2]))
                elif kind == "no_rest":
                    g.remove((last, RDF.rest, None))
                elif kind == "two_rest":
                    g.add((head, RDF.rest, BNode()))
                elif kind == "no_first":
                    g.remove((chain[len(chain) // 2], RDF.first, None))
                return {"k": "ok"}
            raise ValueError(op)

        try:
            e["res"] = guarded(call, 3 if e.get("self") else 10)      # (c += c: a run-away would also eat memory)
        except _Timeout:
            # the call did not come to an end: nothing after it is observed (the graph may have grown without bound)
            e["res"] = {"k": "timeout"}
            e["list"], e["len"], e["cells"] = [], -1, []
            evs.append(e)
            break
        except Exception as ex:  # noqa: BLE001
            e["res"] = {"k": "raise", "e": type(ex).__name__}
        corrupt = corrupt or op == "corrupt"
        if not corrupt:
            try:
                e["list"] = guarded(lambda: [val(x) for x in c])
                e["len"] = guarded(lambda: len(c))
            except _Timeout:
                e["res"] = {"k": "timeout"}
            except Exception as ex:  # noqa: BLE001
                e["list"] = ["<raise:%s>" % type(ex).__name__]
            e["cells"] = cells()
        evs.append(e)
    return {"tid": 0, "cfg": {"vocab": cfg.get("vocab", "plain")}, "ev": evs}
