"""C19 — an RDF Collection behaves like the Python list it represents."""
from __future__ import annotations

import itertools
import random

from .. import tlc
from ..coll_replay import replay

PROP = "C19"
TRACE = "TraceCollection"
MUT = {"append", "iadd", "setitem", "delitem", "clear"}


def execute(job):
    return replay(job["cfg"], job["events"])


def nontrivial(job, trace):
    return any(e["op"] in MUT for e in job["events"])


READS = lambda n, members: ([{"op": "len"}, {"op": "iter"}] + [{"op": "getitem", "i": i} for i in range(n + 2)]
                            + [{"op": "index", "x": m} for m in members] + [{"op": "contains", "x": m} for m in members])


def run(out, tier, seed):
    quick = tier == "quick"
    out.rule = ("every TLC-exported history of Collection.tla (append, += of 0/1/2 items, c[i]=x and del c[i] for every i in 0..len incl. out of range, clear, c[i]) "
                "up to the depth bound, from every starting list of length 0..3 (built by the constructor and by hand-written triples), followed by every read; "
                "members incl. duplicates and falsy literals; corruption scenarios; seeded long histories; non-trivial = has a mutating op")
    out.assumptions += ["only non-negative indexes (the statement does not claim Python's negative indexing)",
                        "an empty list may be represented by no list triples at all or by (head rdf:rest rdf:nil)"]
    out.mc("Collection", "MC_Collection.cfg")
    out.mc("Collection", "MC_Collection_aswritten.cfg", expect="Inv_WellFormed")
    members = ["m1", "z"]
    depth = 3       # depth 4 exports ~1.5 million histories x 15 start lists: more than the replay pool can hold in memory
    r, hs = tlc.gen_histories("Collection", {"Members": tlc.tla_set(members), "Falsy": tlc.tla_set(["z"]), "MaxLen": "4" if quick else "5",
                                             "Depth": str(depth), "Variant": '"repaired"'})
    out.states += r.distinct; out.transitions += r.generated
    # also all shorter histories (TLC exports at exactly Depth): prefixes are covered because observations are logged after every event
    starts = [[]] + [list(t) for n in (1, 2, 3) for t in itertools.product(members, repeat=n)]
    out.extra["exhaustive_histories"] = {"depth": depth, "count": len(hs), "starts": len(starts)}
    jobs = []
    for si, st in enumerate(starts):
        for hi, h in enumerate(hs):
            if (hi * 7 + si) % (15 if quick else 2) != 0:
                continue
            # indexes beyond the list are kept: they must raise IndexError
            evs = [{"op": "new", "items": st, "how": ["ctor", "hand"][(hi + si) % 2]}] + h + READS(len(st) + 2, members)
            jobs.append({"cfg": {"vocab": ["plain", "falsy"][(hi + si) % 2], "head": ["bnode", "iri"][(hi // 2) % 2], "sibling": (hi + si) % 5 == 0}, "events": evs})
    out.exhaustive = True
    # corruption scenarios
    for st in starts[1:]:
        for kind in ("cycle_head", "cycle_mid", "no_rest", "two_rest", "no_first"):
            evs = [{"op": "new", "items": st}, {"op": "corrupt", "kind": kind}] + READS(len(st), members)
            jobs.append({"cfg": {"vocab": "plain"}, "events": evs})
    # += with nothing to add: on an empty list, after clear, on a non-empty list
    for pre in ([], [{"op": "clear"}], [{"op": "append", "x": "m1"}, {"op": "delitem", "i": 0}]):
        for st in ([], ["m1"], ["z", "m1"]):
            jobs.append({"cfg": {"vocab": "falsy", "head": "bnode", "sibling": False}, "events": [{"op": "new", "items": st, "how": "ctor"}] + pre + [{"op": "iadd", "xs": []}] + READS(len(st) + 1, members) + [{"op": "append", "x": "z"}] + READS(2, members)})
    # negative indexes count from the end, as for a Python list: reads, writes and deletions at -1, -2, -len, -len-1
    for st in starts[1:]:
        n = len(st)
        for neg in (-1, -2, -n, -n - 1):
            for kind in ("getitem", "setitem", "delitem"):
                ev = {"op": kind, "i": neg}
                if kind == "setitem":
                    ev["x"] = "m1"
                jobs.append({"cfg": {"vocab": ["plain", "falsy"][n % 2], "head": "bnode", "sibling": False}, "events": [{"op": "new", "items": st, "how": "ctor"}, ev] + READS(n + 1, members)})
    rng = random.Random(seed)
    M = ["m1", "m2", "m3", "z"]
    for i in range(400 if quick else 5000):
        n = 0
        evs = [{"op": "new", "items": [rng.choice(M) for _ in range(rng.randint(0, 4))]}]
        n = len(evs[0]["items"])
        for _ in range(rng.randint(5, 25)):
            r_ = rng.random()
            if r_ < 0.25:
                evs.append({"op": "append", "x": rng.choice(M)}); n += 1
            elif r_ < 0.35:
                xs = [rng.choice(M) for _ in range(rng.randint(0, 3))]
                if rng.random() < 0.2 and 0 < n <= 6:
                    evs.append({"op": "iadd", "xs": [], "self": True}); n += n        # the collection as its own operand
                else:
                    evs.append({"op": "iadd", "xs": xs}); n += len(xs)
            elif r_ < 0.5:
                evs.append({"op": "setitem", "i": rng.randint(0, n + 1), "x": rng.choice(M)})
            elif r_ < 0.7:
                i_ = rng.randint(0, n + 1)
                evs.append({"op": "delitem", "i": i_})
                if i_ < n:
                    n -= 1
            elif r_ < 0.75:
                evs.append({"op": "clear"}); n = 0
            else:
                evs.append(rng.choice(READS(n, M)))
        jobs.append({"cfg": {"vocab": ["plain", "falsy", "hostile"][i % 3]}, "events": evs})
    # lists longer than the interpreter's recursion limit: every operation walks the chain, none of them by recursion
    import sys as _sys
    L_ = _sys.getrecursionlimit() + 150
    long_items = [M[i % len(M)] for i in range(L_)]
    for hist in ([{"op": "len"}, {"op": "clear"}, {"op": "len"}, {"op": "append", "x": M[0]}, {"op": "iter"}],
                 [{"op": "append", "x": M[1]}, {"op": "delitem", "i": L_ - 40}, {"op": "getitem", "i": L_ - 2}, {"op": "setitem", "i": L_ - 3, "x": M[0]}, {"op": "len"}, {"op": "clear"}, {"op": "iter"}],
                 [{"op": "iadd", "xs": [M[0], M[1]]}, {"op": "index", "x": M[1]}, {"op": "contains", "x": M[0]}, {"op": "delitem", "i": 0}, {"op": "len"}]):
        jobs.append({"cfg": {"vocab": "plain", "head": "bnode"}, "events": [{"op": "new", "items": long_items}] + hist})
    out.conform(__name__, TRACE, jobs, nontrivial=nontrivial, chunk=1500)
