"""C18 — rollback restores, commit keeps: the auditable store is atomic over any history."""
from __future__ import annotations

import os
import random

from .. import tlc
from ..aud_replay import replay

PROP = "C18"
TRACE = "TraceAuditable"


def execute(job):
    return replay(job["cfg"], job["events"])


def nontrivial(job, trace):
    ops = [e["op"] for e in job["events"]]
    return ("rollback" in ops or "commit" in ops) and any(o in ("tx_add", "tx_addN", "tx_remove") for o in ops)


def gen(own, wrappers, depth, init):
    d = tlc.scratch("rvf-gen-")
    try:
        cfg = os.path.join(d, "gen.cfg")
        tlc.write_cfg(cfg, spec="Spec", constants={"Wrappers": tlc.tla_set(wrappers), "Own": "<- " + own, "Names": tlc.tla_set(["g1", "g2"]),
                                                  "Variant": '"cancelling"', "Depth": str(depth), "InitContents": "<- " + init},
                      constraints=["Export"])
        return tlc.export_json("MCAuditable", cfg, timeout=1800)
    finally:
        import shutil
        shutil.rmtree(d, ignore_errors=True)


def random_history(rng, two):
    names = ["g1", "g2", "b1"]
    S = {"w1": ["s1", "s2"], "w2": ["s3"]}
    P, O = ["p1", "p2"], ["o1", "o2"]
    allq = [[s, p, o, g] for s in S["w1"] + S["w2"] for p in P for o in O for g in names]
    evs = [{"op": "init", "quads": rng.sample(allq, rng.randint(0, 8))}]
    ws = ["w1", "w2"] if two else ["w1"]
    for _ in range(rng.randint(5, 40)):
        w = rng.choice(ws)
        r = rng.random()
        t = [rng.choice(S[w]), rng.choice(P), rng.choice(O)]
        g = rng.choice(names)
        if r < 0.08:
            # a batch, now and then with a repeated quad
            qs = [[rng.choice(S[w]), rng.choice(P), rng.choice(O), rng.choice(names)] for _ in range(rng.randint(1, 3))]
            if rng.random() < 0.5:
                qs.append(list(qs[0]))
            evs.append({"op": "tx_addN", "w": w, "quads": qs})
        elif r < 0.4:
            evs.append({"op": "tx_add", "w": w, "g": g, "t": t})
        elif r < 0.47 and not two:
            # a whole named graph emptied through a graph-level entry point (DROP / CLEAR / DELETE WHERE / remove_context): a removal like any
            # other, undone by rollback (single-wrapper histories: it reaches every subject of the graph)
            evs.append({"op": "tx_remove", "w": w, "g": g, "pat": ["_", "_", "_"], "how": rng.choice(["drop", "clear", "remove_context", "delete_where"]) if g != "b1" else "remove_context"})       # (a blank-node-named graph has no name in SPARQL text)
        elif r < 0.5 and not two:
            pat = [t[0]] + [x if rng.random() < 0.5 else "_" for x in t[1:]]
            evs.append({"op": "tx_remove", "w": w, "g": "gx", "pat": pat, "how": "cg_ctx"})
        elif r < 0.8:
            pat = [t[0]] + [x if rng.random() < 0.5 else "_" for x in t[1:]]
            evs.append({"op": "tx_remove", "w": w, "g": g if rng.random() < 0.7 else "*", "pat": pat})
        elif r < 0.88:
            evs.append({"op": "commit", "w": w})
        else:
            evs.append({"op": "rollback", "w": w})
    evs.append({"op": "rollback", "w": rng.choice(ws)})
    evs.append({"op": "rollback", "w": rng.choice(ws)})
    return evs


def run(out, tier, seed):
    quick = tier == "quick"
    out.rule = ("every TLC-exported history of Auditable.tla (all 16 initial contents of 2 triples x 2 graphs; add/remove/pattern-remove/"
                "remove-everywhere/commit/rollback; one wrapper, and two wrappers over disjoint triples in every interleaving) up to the depth bound, "
                "plus seeded long histories over 3 graphs (one bnode-named); non-trivial = has a mutation and a commit/rollback; distinct = distinct history")
    out.assumptions += ["two-wrapper histories keep the wrappers' touched quads disjoint (as the property states)",
                        "content = set of quads of the wrapped store; whether an emptied graph is still listed is not compared",
                        "interleaving of calls in one thread (destructiveOpLocks are None in the shipped code)"]
    out.mc("MCAuditable", "MC_Auditable.cfg")
    out.mc("MCAuditable", "MC_Auditable2.cfg")
    out.mc("MCAuditable", "MC_Auditable_aswritten.cfg", expect="Inv_LogDiscipline")
    out.mc("MCAuditable", "MC_Auditable_aswritten_rb.cfg", expect="Prop_RollbackRestores")
    jobs = []
    d1 = 4 if quick else 5
    r, hs = gen("Own1s", ["w1"], d1, "InitAll")
    out.states += r.distinct; out.transitions += r.generated
    r2, hs2 = gen("Own1", ["w1"], 3 if quick else 4, "InitSome")
    out.states += r2.distinct; out.transitions += r2.generated
    r3, hs3 = gen("Own2s", ["w1", "w2"], 4, "InitEmpty" if quick else "InitSome")
    out.states += r3.distinct; out.transitions += r3.generated
    out.extra["exhaustive_histories"] = {"one_wrapper_1triple": len(hs), "one_wrapper_2triples": len(hs2), "two_wrappers": len(hs3)}
    for i, h in enumerate(hs + hs2 + hs3):
        jobs.append({"cfg": {"vocab": ["plain", "falsy"][i % 2]}, "events": h})
    out.exhaustive = True
    rng = random.Random(seed)
    for i in range(1500 if quick else 20000):
        jobs.append({"cfg": {"vocab": ["plain", "falsy", "hostile"][i % 3]}, "events": random_history(rng, i % 2 == 1)})
    # the wrapper over a store that is not context aware (SimpleMemory): the same histories folded onto one graph
    def fold(evs):
        out_ = []
        for e in evs:
            e = dict(e)
            e.pop("how", None)
            if "g" in e:
                e["g"] = "g1"
            if "quads" in e:
                e["quads"] = [list(x) for x in sorted({tuple(q[:3] + ["g1"]) for q in e["quads"]})] if e["op"] == "init" else [q[:3] + ["g1"] for q in e["quads"]]
            out_.append(e)
        return out_
    for i in range(300 if quick else 4000):
        jobs.append({"cfg": {"vocab": ["plain", "falsy"][i % 2], "store": "SimpleMemory"}, "events": fold(random_history(rng, i % 2 == 1))})
    out.conform(__name__, TRACE, jobs, nontrivial=nontrivial, chunk=2500)
