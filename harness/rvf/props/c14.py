"""C14 — graph isomorphism and canonicalisation decide equality up to blank-node renaming."""
from __future__ import annotations

import itertools
import os
import random
import shutil

from .. import tlc
from ..iso_replay import replay

PROP = "C14"
TRACE = "TraceIso"
P = {"k": "iri", "v": "p"}
Q = {"k": "iri", "v": "q"}
B = lambda i: {"k": "bnode", "v": "b%d" % i}


def execute(job):
    return replay(job["cfg"], job["events"])


def bnode_edges(g):
    return sorted({(t[0]["v"], t[2]["v"]) for t in g if t[0]["k"] == "bnode" and t[2]["k"] == "bnode"})


def match_finding(findings, job, trace, verdict, at):
    e = job["events"][at - 1]
    for f in findings:
        c = f.get("class")
        # the listed witness: THE graph with these blank-node edges (a relabelled copy of it is not recognised); any other graph is a new violation
        if c and c["predicate"] == "bnode_edge_structure" and verdict in c["clauses"] and e["op"] == "iso" and e["g"] == e["h"] \
                and bnode_edges(e["g"]) == sorted(tuple(x) for x in c["edges"]):
            return f
    return None


def nontrivial(job, trace):
    return True


def gen(n, max_edges):
    d = tlc.scratch("rvf-gen-")
    try:
        cfg = os.path.join(d, "gen.cfg")
        tlc.write_cfg(cfg, spec="Spec", constants={"N": str(n), "MaxEdges": str(max_edges), "ExportMode": "TRUE"}, constraints=["Export"])
        return tlc.export_json("MCGraphIso", cfg, timeout=1800)
    finally:
        shutil.rmtree(d, ignore_errors=True)


def E(pairs, pred=P):
    return [[B(a), pred, B(b)] for a, b in pairs]


def families():
    f = {}
    for n in (3, 4, 5, 6):
        f["C%d" % n] = E([(i, i % n + 1) for i in range(1, n + 1)])
    f["2C3"] = E([(1, 2), (2, 3), (3, 1), (4, 5), (5, 6), (6, 4)])
    f["C3+C3rev"] = E([(1, 2), (2, 3), (3, 1), (4, 6), (6, 5), (5, 4)])
    f["K22"] = E([(a, b) for a in (1, 2) for b in (3, 4)])
    f["K33"] = E([(a, b) for a in (1, 2, 3) for b in (4, 5, 6)])
    f["K33-prism"] = E([(1, 4), (1, 5), (2, 5), (2, 6), (3, 6), (3, 4), (1, 6), (2, 4), (3, 5)])     # = K33 again, other listing
    f["prism"] = E([(1, 2), (2, 3), (3, 1), (4, 5), (5, 6), (6, 4), (1, 4), (2, 5), (3, 6)])          # 3-regular like K33 (undirected), different
    f["2K2"] = E([(1, 2), (3, 4)])
    f["P4"] = E([(1, 2), (2, 3), (3, 4)])
    f["star3"] = E([(1, 2), (1, 3), (1, 4)])
    f["instar3"] = E([(2, 1), (3, 1), (4, 1)])
    f["C4chord"] = E([(1, 2), (2, 3), (3, 4), (4, 1), (1, 3)])
    f["C4chord2"] = E([(1, 2), (2, 3), (3, 4), (4, 1), (2, 4)])
    f["C6-2col"] = E([(1, 2), (3, 4), (5, 6)]) + E([(2, 3), (4, 5), (6, 1)], Q)
    f["C6-2col-b"] = E([(1, 2), (3, 4), (5, 6)]) + E([(2, 3), (4, 5), (1, 6)], Q)
    f["anchored-C4"] = f["C4"] + [[{"k": "iri", "v": "a"}, P, B(1)]]
    f["anchored-C4-lit"] = f["C4"] + [[B(2), Q, {"k": "num", "v": 1}]]
    f["twins"] = E([(1, 2), (1, 3)]) + [[B(2), Q, {"k": "str", "v": "x"}], [B(3), Q, {"k": "str", "v": "x"}]]
    f["twins-diff"] = E([(1, 2), (1, 3)]) + [[B(2), Q, {"k": "str", "v": "x"}], [B(3), Q, {"k": "str", "v": "y"}]]
    # partially symmetric structures: colour refinement leaves non-trivial cells and the orbit pruning of the search decides
    und = lambda es: es + [(b, a) for a, b in es]
    c4, hexa = [(1, 2), (2, 3), (3, 4), (4, 1)], [(1, 2), (2, 3), (3, 4), (4, 5), (5, 6), (6, 1)]
    mark = lambda i: [B(i), Q, {"k": "iri", "v": "x"}]
    f["usquare-pend-adj"] = E(und(c4) + [(1, 5), (2, 6)])
    f["usquare-pend-opp"] = E(und(c4) + [(1, 5), (3, 6)])
    f["dsquare-pend-adj"] = E(c4 + [(1, 5), (2, 6)])
    f["dsquare-pend-opp"] = E(c4 + [(1, 5), (3, 6)])
    f["uhex-marks-adj"] = E(und(hexa)) + [mark(1), mark(2)]
    f["uhex-marks-dist2"] = E(und(hexa)) + [mark(1), mark(3)]
    f["uhex-marks-opp"] = E(und(hexa)) + [mark(1), mark(4)]
    f["uhex-diagonal"] = E(und(hexa + [(1, 4)]))
    # disconnected mixtures: components of different size, a self-loop next to a cycle, identical small stars
    f["loop+C4"] = E([(1, 1), (2, 3), (3, 4), (4, 5), (5, 2)])
    f["loop+C3"] = E([(1, 1), (2, 3), (3, 4), (4, 2)])
    f["2loops+C3"] = E([(1, 1), (2, 2), (3, 4), (4, 5), (5, 3)])
    f["C2+C3"] = E([(1, 2), (2, 1), (3, 4), (4, 5), (5, 3)])
    f["C2+C4"] = E([(1, 2), (2, 1), (3, 4), (4, 5), (5, 6), (6, 3)])
    f["C1+C2+C3"] = E([(1, 1), (2, 3), (3, 2), (4, 5), (5, 6), (6, 4)])
    f["2x2star"] = E([(1, 2), (1, 3), (4, 5), (4, 6)])
    f["2x2instar"] = E([(2, 1), (3, 1), (5, 4), (6, 4)])
    f["2xP3"] = E([(1, 2), (2, 3), (4, 5), (5, 6)])
    f["3xK2"] = E([(1, 2), (3, 4), (5, 6)])
    f["uC6"] = E(und(hexa))
    f["uC4"] = E(und(c4))
    return f


def perm_map(n, rng):
    labs = ["b%d" % i for i in range(1, n + 1)]
    sh = labs[:]
    rng.shuffle(sh)
    return dict(zip(labs, sh))


def variants(g, rng):
    """near misses: one edge removed / reversed / redirected"""
    out = []
    if g:
        i = rng.randrange(len(g))
        out.append(g[:i] + g[i + 1:])
        t = g[i]
        if t[0]["k"] == "bnode" and t[2]["k"] == "bnode":
            out.append(g[:i] + [[t[2], t[1], t[0]]] + g[i + 1:])
            nodes = sorted({x["v"] for tr in g for x in (tr[0], tr[2]) if x["k"] == "bnode"})
            tgt = rng.choice(nodes)
            out.append(g[:i] + [[t[0], t[1], {"k": "bnode", "v": tgt}]] + g[i + 1:])
    return [v for v in out if len({(repr(t)) for t in v}) == len(v)]


def run(out, tier, seed):
    quick = tier == "quick"
    out.rule = ("graphs: every digraph with 1-4 edges on <= 3 blank nodes (TLC-exported, 255) and a sample (all in thorough) of those on 4 blank nodes; 21 named hard families up to 6 blank nodes "
                "(cycles, 2*C3 vs C6, K2,2, K3,3 in two listings, prism, two-coloured C6, anchored and twin structures); pairs: (g, relabelled + insertion-shuffled g), "
                "(g, g with one edge removed / reversed / redirected), all pairs within the family list; observations: isomorphic(), to_isomorphic ==, to_canonical_graph (isomorphic to input, equal for "
                "isomorphic inputs, different otherwise), graph_diff laws, skolemise/de-skolemise, and partition-by-digest = partition-by-isomorphism over groups of graphs; oracle = brute-force bijection search in GraphIso.tla")
    out.assumptions += ["graphs beyond 6 blank nodes are not covered (n! oracle)"]
    out.mc("MCGraphIso", "MC_GraphIso.cfg")
    rng = random.Random(seed)
    r, small = gen(3, 4)
    out.states += r.distinct; out.transitions += r.generated
    r4, four = gen(4, 3 if quick else 4)
    out.states += r4.distinct; out.transitions += r4.generated
    fam = families()
    out.extra["small_graphs"] = len(small)
    out.extra["four_node_graphs"] = len(four)
    out.extra["families"] = len(fam)
    pool = [[list(t) for t in g] for g in small] + [[list(t) for t in g] for g in (rng.sample(four, 300) if quick else four)] + list(fam.values())
    jobs = []
    for gi, g in enumerate(pool):
        n = len({x["v"] for tr in g for x in tr if x["k"] == "bnode"})
        evs = [{"op": "iso", "g": g, "h": g, "og": gi, "oh": gi + 1, "relabel": perm_map(6, rng)},
               {"op": "canon", "g": g, "h": g, "og": gi, "oh": gi + 7, "relabel": perm_map(6, rng)},
               {"op": "skolem", "g": g, "og": gi}]
        for v in variants(g, rng):
            evs.append({"op": "iso", "g": g, "h": v, "og": gi, "oh": gi + 2})
            evs.append({"op": "diff", "g": g, "h": v, "og": gi, "oh": gi + 3})
            evs.append({"op": "canon", "g": g, "h": v, "og": gi})
        # skolemisation under an authority given by the caller (trailing slash, path, fragment); graphs that share one identifier;
        # one IsomorphicGraph compared repeatedly while it changes through add / remove / parse / SPARQL Update / another view of its store
        if gi % 3 == seed % 3 or not quick:
            for auth in ("http://example.org/", "http://example.org/data/v1", "http://example.org", "http://example.org/x#frag", "https://h.example:8080/a/b/"):
                evs.append({"op": "skolem", "g": g, "og": gi, "authority": auth})
            vs = variants(g, rng)
            for v in vs[:2]:
                evs.append({"op": "iso", "g": g, "h": v, "og": gi, "oh": gi + 2, "ident": "urn:g:same"})
            evs.append({"op": "iso", "g": g, "h": g, "og": gi, "oh": gi + 5, "relabel": perm_map(6, rng), "ident": "urn:x-rdflib:default"})
            T1 = [{"k": "iri", "v": "hs"}, {"k": "iri", "v": "hp"}, {"k": "iri", "v": "ho"}]
            T2 = [{"k": "iri", "v": "hs"}, {"k": "iri", "v": "hp"}, {"k": "num", "v": 7}]
            hows = ["parse", "update", "view_add", "add", "iadd"]
            for hi in range(2):
                a, b = hows[(gi + hi) % 5], hows[(gi + hi + 2) % 5]
                rem = ["remove", "update_delete", "view_remove"][(gi + hi) % 3]
                # g vs g + T1: unequal, then T1 arrives (equal), then T2 arrives and T1 leaves (equal size, unequal), then T2 is swapped for T1 again
                evs.append({"op": "eq_history", "g": g, "h": g + [T1], "og": gi, "oh": gi + 1, "relabel": perm_map(6, rng),
                            "steps": [{"how": "none", "t": T1}, {"how": a, "t": T1}, {"how": "none", "t": T1}, {"how": b, "t": T2}, {"how": rem, "t": T1}, {"how": rem, "t": T2}, {"how": a, "t": T1}]})
        if gi % 4 == seed % 4 or not quick:
            # the graphs handed over as read-only views over two graphs; skolemisation into graphs supplied by the caller
            evs.append({"op": "canon", "g": g, "h": g, "og": gi, "oh": gi + 7, "relabel": perm_map(6, rng), "agg": True})
            for v in variants(g, rng)[:2]:
                evs.append({"op": "diff", "g": g, "h": v, "og": gi, "oh": gi + 3, "agg": True})
            evs.append({"op": "skolem", "g": g, "og": gi, "target": "empty"})
            evs.append({"op": "skolem", "g": g, "og": gi, "target": "nonempty", "authority": "http://example.org/data/v1"})
            # blank node identifiers that are equal up to a character that is a delimiter in an IRI
            for delim in ("#", "?", ";", "/", "%", "&", "="):
                ren = lambda x: dict(x, v="row" + delim + x["v"]) if x["k"] == "bnode" else x
                evs.append({"op": "skolem", "g": [[ren(x) for x in tr] for tr in g], "og": gi, "labels": delim})
        for e in evs:
            jobs.append({"cfg": {}, "events": [e]})
    # graphs beyond the reach of the search over all bijections, judged through the renaming that made the copy: cubic graphs on 10 and 12
    # blank nodes (every edge in both directions), the Petersen graph, the cube, a 10-cycle with chords - and marked variants of them
    und2 = lambda es: es + [(b, a) for a, b in es]
    big = {"cubic10": [(0, 2), (0, 6), (0, 9), (1, 2), (1, 3), (1, 4), (2, 7), (3, 5), (3, 6), (4, 6), (4, 8), (5, 7), (5, 9), (7, 8), (8, 9)],
           "petersen": [(i, (i + 1) % 5) for i in range(5)] + [(i, i + 5) for i in range(5)] + [(5 + i, 5 + (i + 2) % 5) for i in range(5)],
           "cube": [(a, b) for a in range(8) for b in range(8) if a < b and bin(a ^ b).count("1") == 1],
           "frucht": [(0, 1), (1, 2), (2, 3), (3, 4), (4, 5), (5, 6), (6, 7), (7, 8), (8, 9), (9, 10), (10, 11), (11, 0), (0, 7), (1, 5), (2, 10), (3, 11), (4, 8), (6, 9)],
           "mobius10": [(i, (i + 1) % 10) for i in range(10)] + [(i, i + 5) for i in range(5)]}
    for name, es in big.items():
        for marked in (False, True):
            g = E([(a + 1, b + 1) for a, b in und2(es)]) + ([[B(1), Q, {"k": "iri", "v": "x"}]] if marked else [])
            for r_ in range(4 if quick else 12):
                jobs.append({"cfg": {}, "events": [{"op": "iso", "g": g, "h": g, "og": r_, "oh": r_ * 7 + 1, "relabel": perm_map(12, rng), "witness": True, "fam": name}]})
    # whether the search takes a wrong short cut depends on labels and insertion order: many relabelled copies of the hard families
    # (the canonicaliser orders colours by hashes of the terms, so the IRIs are varied too)
    prefixes = ["", "http://example.org/", "urn:x:", "http://a.example/ns#", "u:", "http://b.example/v/", "tag:t,2020:", "http://www.example.com/onto#"]

    def renamed(g, pre):
        return [[dict(x, v=pre + x["v"]) if x["k"] == "iri" else x for x in t] for t in g]
    for fi, (name, g0) in enumerate(fam.items()):
        for c in range(16 if quick else 80):
            g = renamed(g0, prefixes[(c + seed) % len(prefixes)])
            jobs.append({"cfg": {}, "events": [{"op": "iso", "g": g, "h": g, "og": 100 + c, "oh": 200 + c * 7 + fi, "relabel": perm_map(6, rng)}]})
            jobs.append({"cfg": {}, "events": [{"op": "canon", "g": g, "h": g, "og": 300 + c, "oh": 400 + c * 5 + fi, "relabel": perm_map(6, rng)}]})
    # graphs that differ in ONE ground term whose characters are the same (plain vs typed, language tags, IRI vs literal)
    from ..sparql_replay import PFX
    look = [({"k": "str", "v": "1"}, {"k": "num", "v": 1}), ({"k": "lit", "v": "a", "lang": "en"}, {"k": "lit", "v": "a", "lang": "fr"}), ({"k": "lit", "v": "a", "lang": "en"}, {"k": "str", "v": "a"}),
            ({"k": "iri", "v": "x"}, {"k": "str", "v": PFX + "x"}), ({"k": "str", "v": "true"}, {"k": "bool", "v": True}), ({"k": "lit", "v": "a"}, {"k": "str", "v": "a"})]
    A, Pp = {"k": "iri", "v": "a"}, {"k": "iri", "v": "p"}
    for x, y in look:
        shapes_ = [([[A, Pp, x]], [[A, Pp, y]]),                                                     # a ground triple
                   ([[B(1), Pp, x]], [[B(1), Pp, y]]),                                               # hanging on the only blank node
                   ([[A, Pp, B(1)], [B(1), Pp, x]], [[A, Pp, B(1)], [B(1), Pp, y]]),
                   ([[B(1), Pp, B(2)], [B(2), Pp, B(1)], [A, Q, x]], [[B(1), Pp, B(2)], [B(2), Pp, B(1)], [A, Q, y]]),   # next to a symmetric part
                   ([[B(1), Pp, B(2)], [B(2), Pp, x]], [[B(1), Pp, B(2)], [B(2), Pp, y]])]
        for g, h in shapes_:
            for op in ("iso", "canon", "diff"):
                jobs.append({"cfg": {}, "events": [{"op": op, "g": g, "h": h, "og": 5, "oh": 6}]})
                jobs.append({"cfg": {}, "events": [{"op": op, "g": h, "h": g, "og": 7, "oh": 8}]})
    names = list(fam)
    for a, b in itertools.combinations(names, 2):
        if len(fam[a]) == len(fam[b]):
            jobs.append({"cfg": {}, "events": [{"op": "iso", "g": fam[a], "h": fam[b], "og": 1, "oh": 2, "relabel": perm_map(6, rng)}]})
            jobs.append({"cfg": {}, "events": [{"op": "canon", "g": fam[a], "h": fam[b], "og": 1, "oh": 2, "relabel": perm_map(6, rng)}]})
            jobs.append({"cfg": {}, "events": [{"op": "diff", "g": fam[a], "h": fam[b]}]})
    # digest partition over groups of graphs with equal edge counts
    by = {}
    for g in pool:
        by.setdefault(len(g), []).append(g)
    for k, gs in by.items():
        rng.shuffle(gs)
        for i in range(0, len(gs), 10):
            grp_ = gs[i:i + 10]
            if len(grp_) > 1:
                jobs.append({"cfg": {}, "events": [{"op": "classes", "graphs": grp_}]})
    out.exhaustive = not quick
    out.conform(__name__, TRACE, jobs, nontrivial=nontrivial, chunk=150, par=16, heap="2g")
