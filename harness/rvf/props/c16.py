"""C16 — SPARQL results survive their exchange formats."""
from __future__ import annotations

import itertools
import random

from .. import shapes
from ..shapes import Bn, I, L, EX, XSD
from ..results_replay import replay

PROP = "C16"
TRACE = "TraceResults"


def execute(job):
    return replay(job["cfg"], job["events"])


def nontrivial(job, trace):
    return True


def vclass(job, trace, at):
    e = job["events"][0]
    return e["op"] + "|" + e.get("fmt", "") + "|" + e.get("shape", "")


def match_finding(findings, job, trace, verdict, at):
    e = trace["ev"][0]
    t = e.get("table") or {"vars": [], "rows": []}
    for f in findings:
        c = f.get("class")
        if not c or (e.get("fmt") or e["op"]) not in c["formats"] or not any(verdict.startswith(x) for x in c["clauses"]):
            continue
        if c["predicate"] == "all_unbound_row" and any(not r for r in t["rows"]):
            return f
        if c["predicate"] == "falsy_or_ws_cell" and any(x["k"] == "lit" and (x["v"].strip() != x["v"] or x["v"] in ("", "0", "false")) for r in t["rows"] for x in r.values()):
            return f
        if c["predicate"] == "xml_bad_char":
            import re
            if any(x["k"] == "lit" and re.search("[\x00-\x08\x0b\x0c\x0e-\x1f￾￿]", x["v"]) for r in t["rows"] for x in r.values()):
                return f
    return None


CLASSES = ["plain", "dquote", "squote", "backslash", "TAB", "LF", "CR", "lt", "amp", "space", "nonASCII", "nonBMP", "ctrl"]


def cells(maxlen, variant):
    out = [I(EX + "a"), I("http://ex.example/a,b?x=1&y=2"), Bn("b1"), Bn("b2"), L(""), L("0", dt=XSD + "integer"), L("false", dt=XSD + "boolean"), L("x", dt=XSD + "string"), L("1.5", dt=XSD + "decimal")]
    for i, cs in enumerate(shapes.class_strings(maxlen, CLASSES)):
        text = shapes.spell(cs, variant)
        fl = i % 3
        out.append(L(text) if fl == 0 else L(text, lang="en-gb") if fl == 1 else L(text, dt=EX + "dt"))
    return out


def tables(cs, rng, n):
    out = []
    out.append(("no-vars-no-rows", {"vars": [], "rows": []}))
    out.append(("cols-no-rows", {"vars": ["a", "b"], "rows": []}))
    out.append(("all-unbound-row", {"vars": ["a", "b"], "rows": [{}, {"a": cs[0]}, {}]}))
    out.append(("one-col-unbound", {"vars": ["a"], "rows": [{"a": cs[0]}, {}, {"a": cs[2]}]}))
    out.append(("trailing-unbound", {"vars": ["a", "b", "c"], "rows": [{"a": cs[0], "b": cs[4]}, {"a": cs[1]}, {"c": cs[3]}]}))
    out.append(("never-bound-var", {"vars": ["a", "z"], "rows": [{"a": cs[0]}, {"a": cs[1]}]}))
    # cells that differ only in language tag / datatype, in one table (a reader that shares cells must keep them apart)
    same = [L("chat", lang="en"), L("chat", lang="fr"), L("chat"), L("chat", dt=XSD + "string"), L("chat", dt=EX + "dt"), I("chat:x"), L("1", dt=XSD + "integer"), L("1"), L("1", dt=XSD + "decimal")]
    out.append(("same-lexical", {"vars": ["a", "b"], "rows": [{"a": same[i], "b": same[(i + 1) % len(same)]} for i in range(len(same))]}))
    out.append(("same-lexical-col", {"vars": ["a"], "rows": [{"a": x} for x in same]}))
    # text that looks like the syntax around it
    looks = [L("write to info@example.org", lang="en"), L("2^^10", dt=EX + "expr"), L("a@b"), L("x^^y"), L("a@en", lang="fr"), L("<urn:x>"), L("_:b1"), L("\"q\"@en"), L("-1.0"), L("true"), L("1e3"), L("-1.0", dt=XSD + "decimal"),
             L("-5", dt=XSD + "integer"), L("-1.5", dt=XSD + "double"), L("7", dt=XSD + "integer"), L("-0.25", dt=XSD + "decimal"), L("1.0", dt=XSD + "decimal")]
    out.append(("looks-like-syntax", {"vars": ["a", "b"], "rows": [{"a": looks[i], "b": looks[-1 - i]} for i in range(len(looks))]}))
    for i, x in enumerate(looks):
        out.append(("looks-like-syntax-1", {"vars": ["a"], "rows": [{"a": x}]}))
    # a backslash followed by a letter that names an escape: two characters, not one
    bs = [L("C:\\temp\\new"), L("\\bword\\b", lang="en"), L("a\\tb", dt=EX + "dt"), L("\\n"), L("\\\\n"), L("\\r\\f"), L("x\\"), L("\\u0041"), L("\\\"q\\\""), L("TeX: \\frac{a}{b} \\times \\nu")]
    out.append(("backslash-letter", {"vars": ["a", "b"], "rows": [{"a": bs[i], "b": bs[-1 - i]} for i in range(len(bs))]}))
    for x in bs:
        out.append(("backslash-letter-1", {"vars": ["a"], "rows": [{"a": x}]}))
    # typed cells whose lexical form is legal but not canonical (the reader recovers the term as written), an ill-typed one; blank node
    # labels and variable names beyond the BMP
    nc = [L("007", dt=XSD + "integer"), L("+5", dt=XSD + "integer"), L("1", dt=XSD + "boolean"), L("1e3", dt=XSD + "double"), L("1.50", dt=XSD + "decimal"), L("2020-01-01T00:00:00Z", dt=XSD + "dateTime"),
          L("abc", dt=XSD + "integer"), L("0x1F", dt=XSD + "int"), L(" 5", dt=XSD + "integer"), L("1.0E0", dt=XSD + "float")]
    out.append(("tsv-noncanonical", {"vars": ["a", "b"], "rows": [{"a": nc[i], "b": nc[-1 - i]} for i in range(len(nc))]}))
    for x in nc:
        out.append(("tsv-noncanonical-1", {"vars": ["a"], "rows": [{"a": x}]}))
    out.append(("tsv-astral-names", {"vars": ["\U0001D4B3", "a\U00020BB7"], "rows": [{"\U0001D4B3": Bn("\U00020BB7x"), "a\U00020BB7": Bn("b\U0001D4B3")}, {"\U0001D4B3": Bn("b\U0001D4B3"), "a\U00020BB7": L("\U0001D4B3")}]}))
    out.append(("duplicate-rows", {"vars": ["a"], "rows": [{"a": cs[0]}, {"a": cs[0]}, {"a": cs[2]}, {"a": cs[2]}]}))
    out.append(("var-order", {"vars": ["z", "a", "m"], "rows": [{"z": cs[0], "a": cs[1], "m": cs[5]}]}))
    for i, c in enumerate(cs):
        out.append(("cell", {"vars": ["a", "b"], "rows": [{"a": c, "b": cs[(i * 7 + 1) % len(cs)]}, {"b": c}]}))
    for i in range(n):
        nv = rng.randint(1, 3)
        vs = ["v%d" % j for j in range(nv)]
        rows = [{v: rng.choice(cs) for v in vs if rng.random() < 0.7} for _ in range(rng.randint(0, 3))]
        out.append(("random", {"vars": vs, "rows": rows}))
    return out


def run(out, tier, seed):
    quick = tier == "quick"
    out.rule = ("tables: 0-3 variables x 0-3 rows with every bound/unbound pattern of interest (no columns, columns without rows, all-unbound rows, trailing unbound column, never-bound variable, duplicates, "
                "variable order) x cells over IRIs, blank nodes and literals of every character-class string up to length 2 (13 classes) in plain / language / datatype flavours, incl. empty and falsy literals; "
                "JSON and XML round trips, CSV rendering, TSV documents rendered by an independent randomised writer (quoting, ECHAR escapes, bare numeric / boolean shorthand), both ASK values; TLC validates "
                "variable order, row sequence and cell-by-cell equality up to a blank-node bijection")
    out.assumptions += ["characters XML 1.0 cannot carry are excluded for the XML format by the witness class of the listed finding, not silently"]
    out.mc("MCGraphIso", "MC_GraphIso.cfg")
    rng = random.Random(seed)
    cs = cells(2, seed) if not quick else cells(1, seed) + cells(2, seed)[::7]
    tabs = tables(cs, rng, 600 if quick else 40000)
    out.extra["tables"] = len(tabs)
    jobs = []
    for ti, (name, t) in enumerate(tabs):
        if name.startswith("tsv-"):
            for k in range(4):      # several renderings: quoted and bare forms
                jobs.append({"cfg": {"seed": seed + ti * 7 + k}, "events": [{"op": "tsv_read", "shape": name, "table": t}]})
            continue
        for fmt in ("json", "xml"):
            jobs.append({"cfg": {}, "events": [{"op": "rt", "fmt": fmt, "shape": name, "table": t}]})
        if t["vars"]:
            jobs.append({"cfg": {"seed": seed + ti}, "events": [{"op": "tsv_read", "shape": name, "table": t}]})
        # the same table as another engine might send it: independent randomised JSON and XML writers
        jobs.append({"cfg": {"seed": seed * 3 + ti}, "events": [{"op": "json_read", "fmt": "json", "shape": name, "table": t}]})
        import re as _re
        if not any(x["k"] == "lit" and _re.search("[\x00-\x08\x0b\x0c\x0e-\x1f\ufffe\uffff]", x["v"]) for r in t["rows"] for x in r.values()):     # no XML document can carry these
            jobs.append({"cfg": {"seed": seed * 5 + ti}, "events": [{"op": "xml_read", "fmt": "xml", "shape": name, "table": t}]})
        jobs.append({"cfg": {}, "events": [{"op": "csv", "shape": name, "table": t}]})
        # a result whose solutions come from a generator and which has been partly read by iteration before it is written
        # (rows that bind nothing are left out here: iteration drops them, the listed finding KF-C04-iter-drops-empty)
        if len(t["rows"]) >= 2 and all(r for r in t["rows"]) and ti % 2 == 0:
            for fmt in ("json", "xml"):
                jobs.append({"cfg": {}, "events": [{"op": "rt", "fmt": fmt, "shape": name + ":lazy", "table": t, "lazy": 2 + ti % len(t["rows"])}]})
            jobs.append({"cfg": {}, "events": [{"op": "csv", "shape": name + ":lazy", "table": t, "lazy": 2 + ti % len(t["rows"])}]})
    for fmt in ("json", "xml"):
        for v in (True, False):
            jobs.append({"cfg": {}, "events": [{"op": "ask", "fmt": fmt, "value": v}]})
    out.conform(__name__, TRACE, jobs, nontrivial=nontrivial, chunk=400, par=16, heap="2g")
