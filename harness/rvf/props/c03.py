"""C03 — serialise then parse gives back the same RDF graph, in every syntax."""
from __future__ import annotations

import random

from .. import shapes
from ..doc_replay import replay
from .c14 import gen as gen_digraphs

PROP = "C03"
TRACE = "TraceDocs"
FORMATS = ["nt", "turtle", "longturtle", "n3", "xml", "pretty-xml", "json-ld", "hext"]


def execute(job):
    return replay(job["cfg"], job["events"])


def nontrivial(job, trace):
    return True


def match_finding(findings, job, trace, verdict, at):
    from .. import classes
    e = trace["ev"][0]
    return classes.match(findings, e["fmt"], verdict, e["before"])


def vclass(job, trace, at):
    e = job["events"][0]
    sh = e["shape"]
    return e["fmt"] + "|" + (sh if sh.startswith(("list", "typed", "iri", "dt")) else sh.split(":")[0] + (":" + sh.split(":")[1] if sh.startswith("lit") and len(sh.split(":")[1].split("+")) == 1 else ""))


def run(out, tier, seed):
    quick = tier == "quick"
    out.rule = ("graphs: one literal per character-class string (20 classes: quotes, backslash, CR/LF/TAB, control, <>&, non-ASCII, non-BMP, U+FFFE ...) up to length 2 (3 in thorough) in plain / "
                "language-tagged / xsd:string / custom-datatype flavours; 20 typed literals over the recognised datatypes; IRIs stressing prefix splitting; every blank-node digraph with <= 3 edges on <= 3 nodes "
                "(TLC-exported) with / without IRI entry and leaf literals; 19 rdf:List shapes (well-formed, shared tail, extra property, missing / duplicate first / rest, cyclic with and without entry); "
                "x 8 syntaxes x options (base, prefixes bound / unbound / nested); TLC validates isomorphism with literal identity, termination and well-formedness; non-trivial = every case")
    out.assumptions += ["strings are covered per character class with 1-2 representatives per class, not per code point", "literals are built with rdflib's normalising constructor (non-normalised forms belong to C07/C09)",
                        "graphs RDF/XML cannot express (unsplittable predicate IRIs, XML-1.0-forbidden characters) only have to terminate and stay well-formed there"]
    out.mc("MCGraphIso", "MC_GraphIso.cfg")
    rng = random.Random(seed)
    r, dig = gen_digraphs(3, 3)
    out.states += r.distinct; out.transitions += r.generated
    cases = []
    cases += list(shapes.literal_graphs(2 if quick else 3, variant=seed, classes=None if not quick else None))
    if not quick:
        cases += list(shapes.literal_graphs(2, variant=seed + 1))
    # markup and CDATA end markers (what an XML writer may wrap in a CDATA section)
    for i, text in enumerate(["<p>x</p>", "a ]]> b", "<a>]]>", "<![CDATA[x]]>", "]]>", "<script><![CDATA[ if (a[b[0]]>1) x() ]]></script>", "a<b>c]]", "]]&gt;<x>"]):
        cases.append(("markup:%d" % i, [[shapes.S1, shapes.P1, shapes.L(text)], [shapes.S1, shapes.P2, shapes.L(text, lang="en")]], True))
    cases += list(shapes.typed_literal_graphs()) + list(shapes.iri_graphs()) + list(shapes.list_graphs())
    cases += list(shapes.bnode_graphs(dig if not quick else rng.sample(dig, 40)))
    out.extra["shapes"] = len(cases)
    jobs = []
    opt_sets = [{}, {"prefixes": [["ex", shapes.EX]]}, {"prefixes": [["ex", shapes.EX], ["e", "http://ex.example/"]], "base": "http://ex.example/"},
                {"prefixes": [["x", shapes.XSD], ["", shapes.EX]]}]
    for ci, (name, triples, xmlok) in enumerate(cases):
        for fi, fmt in enumerate(FORMATS):
            if quick and name.startswith("lit:") and (ci + fi) % 2:
                continue
            opts = opt_sets[(ci + fi) % len(opt_sets)]
            ev = {"op": "roundtrip", "fmt": fmt, "shape": name, "before": triples, "expressible": bool(xmlok or fmt not in ("xml", "pretty-xml"))}
            ev.update(opts)
            jobs.append({"cfg": {}, "events": [ev]})
    # serializer options that change the spelling, not the meaning
    RDFS, OWL, LOG = "http://www.w3.org/2000/01/rdf-schema#", "http://www.w3.org/2002/07/owl#", "http://www.w3.org/2000/10/swap/log#"
    S1_, P1_, P2_, L_, I_ = shapes.S1, shapes.P1, shapes.P2, shapes.L, shapes.I
    TYPE_ = I_(shapes.RDF + "type")
    opt_cases = [
        ("opt:plain+lang", [[S1_, P1_, L_("plain")], [S1_, P2_, L_("english", lang="en")], [S1_, P2_, L_("deutsch", lang="de")], [S1_, P1_, L_("typed", dt=shapes.XSD + "string")], [S1_, P1_, L_("7", dt=shapes.XSD + "integer")]]),
        ("opt:keyword-iris", [[S1_, TYPE_, I_(shapes.EX + "C")], [I_(shapes.EX + "kind"), I_(RDFS + "subPropertyOf"), TYPE_], [TYPE_, I_(RDFS + "label"), L_("type")],
                              [S1_, I_(OWL + "sameAs"), shapes.S2], [I_(shapes.EX + "same"), I_(RDFS + "subPropertyOf"), I_(OWL + "sameAs")], [I_(OWL + "sameAs"), I_(RDFS + "label"), L_("=")],
                              [S1_, I_(LOG + "implies"), shapes.S2], [I_(shapes.EX + "imp"), I_(RDFS + "seeAlso"), I_(LOG + "implies")]]),
        ("opt:line-boundaries", [[S1_, P1_, L_("a\u2028b")], [S1_, P1_, L_("a\u2029b")], [S1_, P2_, L_("a\u0085b")], [S1_, P2_, L_("a\u000bb\u000cc")], [shapes.S2, P1_, L_("a\u001cb\u001dc\u001ed")], [shapes.S2, P2_, L_("a\nb")]]),
    ]
    opt_cases += [
        ("opt:amp-iris", [[S1_, I_("http://ex.example/q?a=1&b=2#p"), L_("v", dt="http://ex.example/dt?x=1&y=2")], [I_("http://ex.example/s?a=1&b=2"), P1_, I_("http://ex.example/o?a=1&b=2")],
                          [S1_, I_("http://ex.example/ns&more#p"), L_("w")]]),
        ("opt:markup+cr", [[S1_, P1_, L_("<a>x</a>\r")], [S1_, P2_, L_("<b>\r\n</b>")], [shapes.S2, P1_, L_("a\rb")], [shapes.S2, P2_, L_("1", dt=shapes.XSD + "decimal")], [shapes.S2, P2_, L_("1.50", dt=shapes.XSD + "decimal")]]),
        ("opt:shared-bnode", [[S1_, P1_, shapes.Bn("x")], [shapes.S2, P1_, shapes.Bn("x")], [shapes.Bn("x"), P2_, L_("shared")], [shapes.Bn("x"), P1_, shapes.Bn("y")], [shapes.S2, P2_, shapes.Bn("y")], [shapes.Bn("y"), P2_, L_("leaf")]]),
    ]
    kw_sets = {"json-ld": [{"context": {"@language": "en"}}, {"context": {"@vocab": shapes.EX}}, {"context": {"ex": shapes.EX, "@language": "de"}}, {"auto_compact": True}, {"use_native_types": True}],
               "longturtle": [{"canon": True}], "turtle": [{"spacious": True}], "xml": [{"max_depth": 1}], "pretty-xml": [{"max_depth": 1}, {"max_depth": 2}]}
    for name, triples in opt_cases:
        for fmt in FORMATS:
            for kw in [{}] + kw_sets.get(fmt, []):
                # U+000B, U+000C, U+001C-U+001E cannot be carried by XML 1.0
                ok = not (name == "opt:line-boundaries" and fmt in ("xml", "pretty-xml"))
                ev = {"op": "roundtrip", "fmt": fmt, "shape": name + ":" + ",".join(sorted(kw)), "before": triples, "expressible": ok, "ser_kw": kw, "prefixes": [["ex", shapes.EX]]}
                jobs.append({"cfg": {}, "events": [ev]})
    # base=: IRIs that merely start with the base string, that continue it with '#', '/', '?', ':' or nothing at all
    B = "http://ex.example/a"
    around = [B, B + "b", B + ":b", B + "#f", B + "/x", B + "?q=1", B + "/", "http://ex.example/", "http://ex.example/b", B + "//x", B + "/../y"]
    base_graph = [[I_(u), P1_, I_(around[(i + 1) % len(around)])] for i, u in enumerate(around)] + [[I_(u), P2_, L_(str(i))] for i, u in enumerate(around)]
    # falsy native values next to others, literals whose lexical form is not the canonical one of their shorthand
    falsy_graph = [[S1_, P1_, L_("0", dt=shapes.XSD + "integer")], [S1_, P1_, L_("5", dt=shapes.XSD + "integer")], [S1_, P1_, L_("false", dt=shapes.XSD + "boolean")],
                   [S1_, P1_, L_("0.0", dt=shapes.XSD + "double")], [S1_, P2_, L_("0", dt=shapes.XSD + "integer")], [shapes.S2, P1_, L_("false", dt=shapes.XSD + "boolean")],
                   [shapes.S2, P1_, L_("true", dt=shapes.XSD + "boolean")], [shapes.S2, P2_, L_("")], [shapes.S2, P2_, L_("x")]]
    type_graph = [[S1_, TYPE_, L_("x")], [shapes.S2, TYPE_, shapes.Bn("t")], [shapes.Bn("t"), P1_, L_("v")], [I_(shapes.EX + "s3"), TYPE_, I_(shapes.RDF + "Description")],
                  [I_(shapes.EX + "s4"), TYPE_, I_("urn:x:")], [I_(shapes.EX + "s5"), TYPE_, I_(shapes.EX + "C")], [I_(shapes.EX + "s5"), TYPE_, I_(shapes.EX + "D")]]
    for fmt in FORMATS:
        for b in (B, B + "/", "http://ex.example/", B + "#", "http://ex.example/ab"):
            jobs.append({"cfg": {}, "events": [{"op": "roundtrip", "fmt": fmt, "shape": "opt:base:" + b, "before": base_graph, "expressible": True, "base": b, "prefixes": [["ex", shapes.EX]]}]})
        for kw in [{}] + kw_sets.get(fmt, []):
            jobs.append({"cfg": {}, "events": [{"op": "roundtrip", "fmt": fmt, "shape": "opt:falsy:" + ",".join(sorted(kw)), "before": falsy_graph, "expressible": True, "ser_kw": kw, "prefixes": [["ex", shapes.EX]]}]})
            jobs.append({"cfg": {}, "events": [{"op": "roundtrip", "fmt": fmt, "shape": "opt:rdf-type-objects:" + ",".join(sorted(kw)), "before": type_graph, "expressible": True, "ser_kw": kw, "prefixes": [["ex", shapes.EX]]}]})
    # the encoding= option of the syntaxes that honour or ignore it today (xml, turtle, nt, n3): characters outside the encoding asked for survive
    enc_graph = [[S1_, P1_, L_("ń € 名 é \U0001F600")], [S1_, P2_, L_("plain ascii")], [I_("http://ex.example/é"), P1_, L_("ÿ", lang="fr")]]
    for fmt in ("xml", "turtle", "nt", "n3"):
        for enc in ("latin-1", "ascii", "utf-16", "utf-8", "cp1252"):
            jobs.append({"cfg": {}, "events": [{"op": "roundtrip", "fmt": fmt, "shape": "opt:encoding:" + enc, "before": enc_graph, "expressible": True, "ser_kw": {"encoding": enc}, "prefixes": [["ex", shapes.EX]]}]})
    # prefixes that read like keywords of the Turtle family, bound with and without the empty prefix next to them
    KWNS = "http://ex.example/kw/"
    kw_graph = [[I_(KWNS + "s"), I_(KWNS + "p"), I_(KWNS + "o")], [S1_, P1_, I_(KWNS + "o")], [I_(KWNS + "s"), TYPE_, I_(KWNS + "C")], [I_(KWNS + "s"), P1_, L_("true", dt=shapes.XSD + "boolean")],
                [I_(KWNS + "s"), P2_, L_("x", dt=KWNS + "dt")]]
    for fmt in FORMATS:
        for kwp in ("a", "true", "false", "prefix", "PREFIX", "base", "BASE", "graph", "GRAPH", "is", "of", "has", "this", "_"):
            for extra in ([], [["", shapes.EX]]):
                jobs.append({"cfg": {}, "events": [{"op": "roundtrip", "fmt": fmt, "shape": "opt:kw-prefix:" + kwp + ("+empty" if extra else ""), "before": kw_graph, "expressible": True,
                                                    "prefixes": [[kwp, KWNS]] + extra}]})
    out.exhaustive = not quick
    out.conform(__name__, TRACE, jobs, nontrivial=nontrivial, chunk=400, par=16, heap="2g")
