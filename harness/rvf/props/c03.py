"""C03 — serialise then parse gives back the same RDF graph, in every syntax."""
from __future__ import annotations

import random

from .. import shapes
from ..doc_replay import replay
from .c14 import gen as gen_digraphs

PROP = "C03"
TRACE = "TraceDocs"
FORMATS = ["nt", "turtle", "longturtle", "n3", "xml", "pretty-xml", "json-ld", "hext"]


def execute(job):
    return replay(job["cfg"], job["events"])


def nontrivial(job, trace):
    return True


def match_finding(findings, job, trace, verdict, at):
    from .. import classes
    e = trace["ev"][0]
    return classes.match(findings, e["fmt"], verdict, e["before"])


def vclass(job, trace, at):
    e = job["events"][0]
    sh = e["shape"]
    return e["fmt"] + "|" + (sh if sh.startswith(("list", "typed", "iri", "dt")) else sh.split(":")[0] + (":" + sh.split(":")[1] if sh.startswith("lit") and len(sh.split(":")[1].split("+")) == 1 else ""))


def run(out, tier, seed):
    quick = tier == "quick"
    out.rule = ("graphs: one literal per character-class string (20 classes: quotes, backslash, CR/LF/TAB, control, <>&, non-ASCII, non-BMP, U+FFFE ...) up to length 2 (3 in thorough) in plain / "
                "language-tagged / xsd:string / custom-datatype flavours; 20 typed literals over the recognised datatypes; IRIs stressing prefix splitting; every blank-node digraph with <= 3 edges on <= 3 nodes "
                "(TLC-exported) with / without IRI entry and leaf literals; 19 rdf:List shapes (well-formed, shared tail, extra property, missing / duplicate first / rest, cyclic with and without entry); "
                "x 8 syntaxes x options (base, prefixes bound / unbound / nested); TLC validates isomorphism with literal identity, termination and well-formedness; non-trivial = every case")
    out.assumptions += ["strings are covered per character class with 1-2 representatives per class, not per code point", "literals are built with rdflib's normalising constructor (non-normalised forms belong to C07/C09)",
                        "graphs RDF/XML cannot express (unsplittable predicate IRIs, XML-1.0-forbidden characters) only have to terminate and stay well-formed there"]
    out.mc("MCGraphIso", "MC_GraphIso.cfg")
    rng = random.Random(seed)
    r, dig = gen_digraphs(3, 3)
    out.states += r.distinct; out.transitions += r.generated
    cases = []
    cases += list(shapes.literal_graphs(2 if quick else 3, variant=seed, classes=None if not quick else None))
    if not quick:
        cases += list(shapes.literal_graphs(2, variant=seed + 1))
    # markup and CDATA end markers (what an XML writer may wrap in a CDATA section)
    for i, text in enumerate(["<p>x</p>", "a ]]> b", "<a>]]>", "<![CDATA[x]]>", "]]>", "<script><![CDATA[ if (a[b[0]]>1) x() ]]></script>", "a<b>c]]", "]]&gt;<x>"]):
        cases.append(("markup:%d" % i, [[shapes.S1, shapes.P1, shapes.L(text)], [shapes.S1, shapes.P2, shapes.L(text, lang="en")]], True))
    cases += list(shapes.typed_literal_graphs()) + list(shapes.iri_graphs()) + list(shapes.list_graphs())
    cases += list(shapes.bnode_graphs(dig if not quick else rng.sample(dig, 40)))
    out.extra["shapes"] = len(cases)
    jobs = []
    opt_sets = [{}, {"prefixes": [["ex", shapes.EX]]}, {"prefixes": [["ex", shapes.EX], ["e", "http://ex.example/"]], "base": "http://ex.example/"},
                {"prefixes": [["x", shapes.XSD], ["", shapes.EX]]}]
    for ci, (name, triples, xmlok) in enumerate(cases):
        for fi, fmt in enumerate(FORMATS):
            if quick and name.startswith("lit:") and (ci + fi) % 2:
                continue
            opts = opt_sets[(ci + fi) % len(opt_sets)]
            ev = {"op": "roundtrip", "fmt": fmt, "shape": name, "before": triples, "expressible": bool(xmlok or fmt not in ("xml", "pretty-xml"))}
            ev.update(opts)
            jobs.append({"cfg": {}, "events": [ev]})
    out.exhaustive = not quick
    out.conform(__name__, TRACE, jobs, nontrivial=nontrivial, chunk=400, par=16, heap="2g")
