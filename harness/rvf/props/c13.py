"""C13 — reading a graph never changes it: serialise, query, compare are pure."""
from __future__ import annotations

import random

from .. import tlc
from ..reads import KINDS
from ..store_replay import replay
from .c01 import universe_consts
from .c02 import decorate, random_history

PROP = "C13"
TRACE = "TraceStore"


def execute(job):
    return replay(job["cfg"], job["events"])


def nontrivial(job, trace):
    return any(e["op"] == "read" for e in job["events"]) and any(e["op"] in ("add", "addN", "graph") for e in job["events"])


def with_reads(h, kinds, names, i):
    """history, one observation, then each read (executed twice inside the event) followed by an observation"""
    evs = [dict(e) for e in h]
    evs.append({"op": "read", "kind": "len", "arg": "", "g": "D", "observe": True})
    for j, (k, a) in enumerate(kinds):
        evs.append({"op": "read", "kind": k, "arg": a, "g": names[(i + j) % len(names)], "observe": True})
    return evs


def run(out, tier, seed):
    quick = tier == "quick"
    out.rule = ("datasets reached by TLC-exported write histories of TripleStore.tla (default, IRI-named and bnode-named graphs, explicitly created empty graphs) "
                "and by seeded longer histories; after them every read-only call of the read alphabet (serialize x formats on dataset and views, SELECT/ASK/CONSTRUCT/DESCRIBE "
                "incl. FROM / FROM NAMED / GRAPH / paths / aggregates, isomorphic / to_isomorphic / to_canonical_graph / graph_diff, iteration, slicing, value, items, cbd, "
                "all_nodes, connected, graphs(), quads(), len, in, Resource readers, path evaluation, triples_choices) is executed twice; quads and graph set observed after each; "
                "non-trivial = non-empty dataset and at least one read; distinct = distinct (configuration, history, read list)")
    out.assumptions += ["reads involving RAND/NOW/UUID/fresh blank nodes are not in the alphabet", "namespace bindings added by serialisers are C17 state, not C13 state",
                        "when two serialisations differ as text they are compared by parsed meaning (canonical graph digest)"]
    out.mc("TripleStore", "MC_TripleStore_quick.cfg" if quick else "MC_TripleStore.cfg")
    S, P, O = ["s1"], ["p1"], ["o1", "o2"]
    names = ["D", "g1", "b1"]
    base = {"S": S, "P": P, "O": O, "names": names, "obs": "marked", "obs_kind": "light"}
    r, hs = tlc.gen_histories("TripleStore", universe_consts(S, P, O, names, ["add", "graph", "remove_graph"], 2 if quick else 3))
    out.states += r.distinct; out.transitions += r.generated
    out.extra["write_histories"] = len(hs)
    out.extra["read_kinds"] = len(KINDS)
    jobs = []
    rng = random.Random(seed)
    per = 24 if quick else len(KINDS)
    for i, h in enumerate(hs):
        kinds = KINDS if not quick else [KINDS[(i * per + j) % len(KINDS)] for j in range(per)]
        for du in (False, True):
            jobs.append({"cfg": dict(base, facade="dataset", default_union=du, vocab=["plain", "bnodey", "falsy"][i % 3]),
                         "events": with_reads(decorate(h, i), kinds, names, i)})
    U3 = (["s1", "s2"], ["p1", "p2"], ["o1", "o2", "s2"])
    names4 = ["D", "g1", "g2", "b1"]
    for i in range(400 if quick else 3000):
        evs = random_history(rng, U3, names4, rng.randint(4, 15))
        evs = [e for e in evs if e["op"] not in ("remove",)] or evs
        kinds = rng.sample(KINDS, 16 if quick else 30)
        jobs.append({"cfg": dict(S=U3[0], P=U3[1], O=U3[2], names=names4, facade="dataset", default_union=bool(i % 2), obs="marked", obs_kind="light", store=["Memory", "Delegating"][(i // 2) % 2],
                                 vocab=["plain", "bnodey", "typed", "hostile"][i % 4]), "events": with_reads(decorate(evs, i), kinds, names4, i)})
    # datasets over a store that is not the in-memory store, queried with several FROM clauses
    for i in range(60 if quick else 400):
        evs = random_history(rng, U3, names4, rng.randint(6, 15))
        evs = [e for e in evs if e["op"] not in ("remove", "remove_graph")] or evs
        kinds = [k for k in KINDS if k[1] in ("q_from", "q_from2", "q_from3", "q_from_named", "q_select_g")] + rng.sample(KINDS, 6)
        jobs.append({"cfg": dict(S=U3[0], P=U3[1], O=U3[2], names=names4, facade="dataset", default_union=bool(i % 2), obs="marked", obs_kind="light", store="Delegating",
                                 vocab=["plain", "bnodey"][i % 2]), "events": with_reads(decorate(evs, i), kinds, names4, i)})
    # the same reads asked of a ConjunctiveGraph (named graphs holding triples the default graph lacks)
    cg_kinds = [k for k in KINDS if k[0] in ("to_iso_ds", "iso", "to_iso", "canon", "diff", "iter", "len", "contains", "quads", "cbd", "all_nodes", "value", "items", "path_eval", "path_reused",
                                             "triples_choices", "subjects", "contexts_of", "resource", "resource_transitive", "prepared", "slice")
                or k in (("ser_ds", "nquads"), ("ser_ds", "trig"), ("ser_ds", "trix"), ("query_ds", "q_select"), ("query_ds", "q_construct"), ("query_ds", "q_ask"), ("ser_view", "turtle"))]
    for i in range(80 if quick else 600):
        evs = random_history(rng, U3, names4, rng.randint(4, 12), dataset=False)
        evs = [e for e in evs if e["op"] not in ("remove",)] or evs
        kinds = [("to_iso_ds", "")] + rng.sample(cg_kinds, 10)
        jobs.append({"cfg": dict(S=U3[0], P=U3[1], O=U3[2], names=names4, facade="cg", default_union=True, obs="marked", obs_kind="light", vocab=["plain", "bnodey"][i % 2]),
                     "events": with_reads(decorate(evs, i), kinds, names4, i)})
    # rdf:List structures whose cells are also typed rdf:List (a serialiser must not tidy the graph it writes)
    lq = [["s0", "p0", "s1"], ["s1", "p3", "o3"], ["s1", "p1", "o1"], ["s1", "p2", "s2"], ["s2", "p3", "o3"], ["s2", "p1", "o4"], ["s2", "p2", "o2"]]
    plain_list = [t for t in lq if t[1] != "p3"]                          # the same list without the rdf:type rdf:List statements
    open_list = plain_list[:-1]                                           # ... and without the closing rdf:rest rdf:nil
    for i, (gs, body) in enumerate([(gs, b) for gs in (["D"], ["g1"], ["D", "g1"], ["b1"]) for b in (lq, plain_list, open_list)]):
        for du in (False, True):
            kinds = [k for k in KINDS if k[0].startswith(("ser_", "query_")) or k[0] in ("collection", "items", "value")]
            evs = [{"op": "init", "made": [g for g in gs if g != "D"], "quads": [t + [g] for g in gs for t in (body if g != "b1" or body is not lq else lq[:4] + lq[6:])]}]
            jobs.append({"cfg": dict(S=["s0", "s1", "s2"], P=["p0", "p1", "p2", "p3"], O=["o1", "o2", "o3", "o4", "s1", "s2"], names=names4, facade="dataset", default_union=du, obs="marked", obs_kind="light",
                                     vocab="listy"), "events": with_reads(evs, kinds, names4, i)})
    out.exhaustive = False
    out.conform(__name__, TRACE, jobs, nontrivial=nontrivial, chunk=400)
