"""G02 (growth, not a listed property) — Graph.transitive_objects / transitive_subjects are the relation p* with one end bound."""
from __future__ import annotations

import random

from .c11 import gen, term

PROP = "G02"
TRACE = "TraceQuery"
from ..sparql_replay import replay


def execute(job):
    return replay(job["cfg"], job["events"])


def nontrivial(job, trace):
    return len(job["events"][0]["quads"]) > 0


def run(out, tier, seed):
    quick = tier == "quick"
    out.rule = ("every graph with <= 3 edges over 3 nodes and 2 predicates (TLC-exported, the C11 universe) x p1*, p2* x every node (and one absent, one falsy term) bound as start / end; "
                "Graph.transitive_objects(s, p) and transitive_subjects(p, o) validated by TLC as the relation p* of SparqlPaths.tla with that end bound, duplicate-free")
    out.mc("MCSparqlPaths", "MC_SparqlPaths.cfg")
    r, cases = gen(1, 3)
    out.states += r.distinct
    graphs = []
    seen = set()
    for c in cases:
        key = repr(sorted(map(tuple, c["graph"])))
        if key not in seen:
            seen.add(key)
            graphs.append(c["graph"])
    out.extra["graphs"] = len(graphs)
    jobs = []
    for gi, g in enumerate(graphs):
        for vocab in ("plain", "falsy"):
            if vocab == "falsy" and any(t[0] == "n3" for t in g):
                continue
            quads = [[term(t[0], vocab), {"k": "iri", "v": t[1]}, term(t[2], vocab), "D"] for t in g]
            evs = [{"op": "data", "quads": quads, "graphs": []}]
            for pr in ("p1", "p2"):
                p = {"op": "star", "arg": {"op": "iri", "iri": {"k": "iri", "v": pr}}}
                for n in ("n1", "n2", "n3", "absent"):
                    if vocab == "falsy" and n == "n3":
                        evs.append({"op": "path", "p": p, "s": [], "o": [term(n, vocab)], "via": "transitive_subjects"})
                        continue
                    evs.append({"op": "path", "p": p, "s": [term(n, vocab)], "o": [], "via": "transitive_objects"})
                    evs.append({"op": "path", "p": p, "s": [], "o": [term(n, vocab)], "via": "transitive_subjects"})
            jobs.append({"cfg": {"facade": "graph", "store": ["Memory", "SimpleMemory"][gi % 2]}, "events": evs})
    # one event per job so that a rejection does not hide the rest
    split = []
    for j in jobs:
        for e in j["events"][1:]:
            split.append({"cfg": j["cfg"], "events": [j["events"][0], e]})
    out.conform(__name__, TRACE, split if not quick else split[::3], nontrivial=nontrivial, chunk=400, par=16, heap="2g")
