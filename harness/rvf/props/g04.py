"""G04 (growth, not a listed property) — the Graph-level API on top of add / remove / triples: set, value, projections,
triples_choices, the set operators, all_nodes, connected, isomorphic (ground), cbd."""
from __future__ import annotations

import itertools
import os
import random
import shutil

from .. import tlc
from ..galg_replay import replay

PROP = "G04"
TRACE = "TraceGraphAlgebra"
SUBJ = ["s1", "s2", "b1"]
PRED = ["p1", "p2"]
OBJ = ["s1", "s2", "b1", "b2", "o1", "o2"]
STORES = ["separate", "shared", "simple", "shared_default", "mixed", "mixed_hidden", "same_id", "same_id_shared_default"]
VOCABS = ["plain", "falsy", "hostile", "typed"]


def execute(job):
    return replay(job["cfg"], job["events"])


def nontrivial(job, trace):
    return any(len(e["A"]) + len(e["B"]) > 0 for e in trace["ev"])


def vclass(job, trace, at):
    e = job["events"][at - 1]
    return e["op"] + "|" + e.get("via", e.get("o", "")) + "|" + job["cfg"].get("stores", "")


def gen(depth):
    d = tlc.scratch("rvf-gen-")
    try:
        cfg = os.path.join(d, "gen.cfg")
        tlc.write_cfg(cfg, spec="Spec", constants={"Subj": tlc.tla_set(["s1", "b1"]), "Pred": tlc.tla_set(["p1"]), "Obj": tlc.tla_set(["s1", "b1", "o2"]),
                                                   "BN": tlc.tla_set(["b1"]), "Depth": str(depth)}, constraints=["Export"])
        return tlc.export_json("GraphAlgebra", cfg, timeout=900)
    finally:
        shutil.rmtree(d, ignore_errors=True)


def rand_triple(rng):
    return [rng.choice(SUBJ), rng.choice(PRED), rng.choice(OBJ)]


def rand_pat(rng, wild=0.5):
    t = rand_triple(rng)
    return [x if rng.random() > wild else "_" for x in t]


def reads(rng, g):
    """one of every read, on graph g"""
    s, p, o = rand_triple(rng)
    h = "B" if g == "A" else "A"
    out = [{"op": "value", "g": g, "pat": [s, p, "_"], "any": rng.random() < 0.5, "default": rng.choice(["_", "dflt"])},
           {"op": "value", "g": g, "pat": ["_", p, o], "any": rng.random() < 0.5},
           {"op": "value", "g": g, "pat": [s, "_", o], "any": True},
           {"op": "proj", "g": g, "via": "subjects", "pat": ["_", rng.choice([p, "_"]), rng.choice([o, "_"])], "unique": rng.random() < 0.5},
           {"op": "proj", "g": g, "via": "predicates", "pat": [rng.choice([s, "_"]), "_", rng.choice([o, "_"])], "unique": rng.random() < 0.5},
           {"op": "proj", "g": g, "via": "objects", "pat": [rng.choice([s, "_"]), rng.choice([p, "_"]), "_"], "unique": rng.random() < 0.5},
           {"op": "pairs", "g": g, "via": "subject_predicates", "pat": ["_", "_", rng.choice([o, "_"])], "unique": rng.random() < 0.5},
           {"op": "pairs", "g": g, "via": "subject_objects", "pat": ["_", rng.choice([p, "_"]), "_"], "unique": rng.random() < 0.5},
           {"op": "pairs", "g": g, "via": "predicate_objects", "pat": [rng.choice([s, "_"]), "_", "_"], "unique": rng.random() < 0.5},
           {"op": "choices", "g": g, "pat": ["_", rng.choice([p, "_"]), rng.choice([o, "_"])], "pos": 1, "alts": rng.sample(SUBJ, rng.randint(0, 3))},
           {"op": "choices", "g": g, "pat": [rng.choice([s, "_"]), "_", rng.choice([o, "_"])], "pos": 2, "alts": rng.sample(PRED, rng.randint(0, 2))},
           {"op": "choices", "g": g, "pat": [rng.choice([s, "_"]), rng.choice([p, "_"]), "_"], "pos": 3, "alts": rng.sample(OBJ, rng.randint(0, 4))},
           {"op": "cbd", "g": g, "s": rng.choice(SUBJ)}, {"op": "nodes", "g": g}, {"op": "connected", "g": g},
           {"op": "contains", "g": g, "pat": rand_pat(rng)}, {"op": "len", "g": g}]
    out += [{"op": "binop", "g": g, "h": h, "o": o_} for o_ in ("add", "sub", "mul", "xor")]
    out += [{"op": "binop", "g": g, "h": g, "o": o_} for o_ in ("add", "sub", "mul", "xor")]
    return out


def batch_event(rng, g):
    size = rng.choice([2, 3, 4])
    return {"op": "batch", "g": g, "size": size, "addn": rng.random() < 0.3, "ts": [rand_triple(rng) for _ in range(size * rng.randint(0, 3) + rng.choice([0, 0, 1]))]}


def run(out, tier, seed):
    make_jobs(out, tier, seed)


def add_jobs(out, tier, seed, stores=None, label="graph-api"):
    """the G04 jobs as a step of a listed property's check (C01: every configuration; C02: the configurations with several graphs in one store)"""
    make_jobs(out, tier, seed, stores=stores, label=label, light=True)


def make_jobs(out, tier, seed, stores=None, label=None, light=False):
    quick = tier == "quick"
    rule0, ass0 = out.rule, list(out.assumptions)
    out.rule = ("every history of length 2 (3 in the thorough tier) of GraphAlgebra.tla's alphabet (add, set, remove by every pattern, +=, -=, + - * ^, value(any=False), cbd, connected on two graphs over a "
                "6-triple universe with a blank node) from 4 start states, each followed by one of every read; plus seeded histories of 6-30 calls over a 36-triple universe (2 blank nodes) with every read "
                "(value with each wildcard position / default / any, subjects / predicates / objects and the pair forms with and without unique, triples_choices on each position, cbd, all_nodes, connected, "
                "isomorphic, in, len, the four binary operators); two graphs in separate Memory stores, separate SimpleMemory stores, one Dataset store (named / default + named), or mixed; "
                "plain / falsy / hostile / typed terms; after every call the content of both graphs and both len()")
    out.assumptions += ["cbd: rules 1 and 2 of the CBD definition (no reification vocabulary in the data)", "Graph.isomorphic is documented as an approximation that is exact without blank nodes: judged on ground graphs only (rdflib.compare is C14)"]
    if light:      # a step of another property's check: that property's own description stays, this one is appended
        out.rule = rule0 + " || graph-API step (GraphOps.tla): " + out.rule[:400]
        out.assumptions = ass0
    out.mc("GraphAlgebra", "MC_GraphAlgebra.cfg")
    rng = random.Random(seed)
    jobs = []
    ST = stores or STORES
    r, hs = gen(2 if (quick or light) else 3)
    out.states += r.distinct
    out.extra["histories"] = len(hs)
    starts = [([], []), ([["s1", "p1", "b1"], ["b1", "p1", "o2"]], [["s1", "p1", "b1"]]), ([["s1", "p1", "s1"], ["s1", "p1", "o2"], ["b1", "p1", "b1"]], [["b1", "p1", "s1"], ["s1", "p1", "o2"]]),
              ([["b1", "p1", "o2"]], [["s1", "p1", "s1"], ["s1", "p1", "b1"], ["s1", "p1", "o2"], ["b1", "p1", "s1"], ["b1", "p1", "b1"], ["b1", "p1", "o2"]])]
    n = 0
    stride = (4 if quick else 6) * (3 if light else 1)
    for h in hs:
        for a0, b0 in starts:
            n += 1
            if (n + seed) % stride:
                continue
            evs = [{"op": "new", "A0": a0, "B0": b0}] + [dict(e) for e in h] + reads(rng, "AB"[n % 2])
            jobs.append({"cfg": {"stores": ST[n % len(ST)], "vocab": VOCABS[(n // 5) % 4]}, "events": evs})
    for i in range((400 if quick else 6000) // (2 if light else 1)):
        k = rng.randint(0, 8)
        evs = [{"op": "new", "A0": [rand_triple(rng) for _ in range(k)], "B0": [rand_triple(rng) for _ in range(rng.randint(0, 8))]}]
        vocab = rng.choice(VOCABS)
        for _ in range(rng.randint(6, 30)):
            x = rng.random()
            g = rng.choice("AB")
            h = "B" if g == "A" else "A"
            if x < 0.1:
                evs.append({"op": "add", "g": g, "t": rand_triple(rng)})
            elif x < 0.17:
                evs.append(batch_event(rng, g))
            elif x < 0.3:
                evs.append({"op": "set", "g": g, "t": rand_triple(rng)})
            elif x < 0.4:
                evs.append({"op": "remove", "g": g, "pat": rand_pat(rng, 0.4)})
            elif x < 0.47:
                evs.append({"op": "iadd", "g": g, "h": h if rng.random() < 0.8 else g})      # ... now and then the graph itself: g += g, g -= g
            elif x < 0.54:
                evs.append({"op": "isub", "g": g, "h": h if rng.random() < 0.8 else g})
            else:
                evs.append(rng.choice(reads(rng, g)))
        evs += reads(rng, "A") + reads(rng, "B")
        jobs.append({"cfg": {"stores": rng.choice(ST), "vocab": vocab}, "events": evs})
    # Graph.isomorphic() is documented as exact only when no blank nodes are involved: ground graphs
    for i in range(100 if quick else 1000):
        pool = [[s, p, o] for s in ("s1", "s2") for p in PRED for o in ("s1", "s2", "o1", "o2")]
        a0 = rng.sample(pool, rng.randint(0, 5))
        b0 = list(a0) if rng.random() < 0.5 else rng.sample(pool, rng.randint(0, 5))
        evs = [{"op": "new", "A0": a0, "B0": b0}, {"op": "iso", "g": "A", "h": "B"}, {"op": "iso", "g": "B", "h": "A"}]
        jobs.append({"cfg": {"stores": rng.choice(ST), "vocab": "plain"}, "events": evs})
    q_ = tier == "quick"      # (the thorough tier's histories are longer: smaller batches per TLC run, more heap)
    out.conform(__name__, TRACE, jobs, nontrivial=nontrivial, chunk=300 if q_ else 100, par=16 if q_ else 8, heap="2g" if q_ else "5g", **({"label": label} if label else {}))
