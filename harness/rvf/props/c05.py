"""C05 — parsers read every legal spelling of a graph; N-Triples / N-Quads output is valid."""
from __future__ import annotations

import os
import random
import re
import shutil

from .. import shapes, tlc
from ..spell_replay import replay, ROUTES
from . import c06

PROP = "C05"
TRACE = "TraceSpell"

GEN = {
    "turtle": {"Abbrev": "TRUE", "Graphs": '"none"'},
    "trig": {"Abbrev": "TRUE", "Graphs": '"block"'},
    "nt": {"Abbrev": "FALSE", "Graphs": '"none"'},
    "nquads": {"Abbrev": "FALSE", "Graphs": '"label"'},
}


def execute(job):
    return replay(job["cfg"], job["events"])


def nontrivial(job, trace):
    return bool(trace["ev"])


def vclass(job, trace, at):
    e = job["events"][at - 1]
    return e["op"] + "|" + e.get("fmt", "") + "|" + e.get("family", "")


def match_finding(findings, job, trace, verdict, at):
    e = trace["ev"][at - 1]
    text = e.get("text", "")
    for f in findings:
        c = f.get("class")
        if not c or e.get("fmt") not in c["formats"] or not any(verdict.startswith(x) for x in c["clauses"]):
            continue
        if c["predicate"] == "text_regex" and re.search(c["regex"], text):
            return f
        if c["predicate"] == "msg_regex" and any(re.search(c["regex"], r.get("msg", "")) for r in e.get("routes", [])):
            return f
    return None


def plans(fmt, num, seed, stmts=3, tokens=30, small=False):
    """behaviours of the writer machine TurtleSpelling.tla, [and of RdfXmlSpelling.tla for RDF/XML: node elements typed or not, rdf:about / rdf:ID / rdf:nodeID / anonymous, property attributes, rdf:type attributes, nested / literal / typed-literal / empty / rdf:resource / rdf:nodeID property elements, parseType Resource / Collection / Literal, rdf:li, rdf:ID reification, xml:lang and xml:base scoping; rendered with random prefixes, local and re-bound xmlns declarations, default namespace, entities, CDATA, character references] exported by TLC in simulation mode"""
    d = tlc.scratch("rvf-gen-")
    try:
        cfg = os.path.join(d, "gen.cfg")
        consts = {"NNs": "3", "Locals": tlc.tla_set(["x", "y"]), "NLit": "4", "ShortLits": "{1, 2}", "Pfx": tlc.tla_set(["", "p", "q"]),
                  "MaxStmts": str(stmts), "MaxDepth": "2", "MaxTokens": str(tokens)}
        if small:      # few IRIs and literals: labelled blank nodes recur across statements and graph blocks
            # two namespaces, one prefix label, one local name: the same p:x recurs before and after a re-binding of p
            consts.update({"NNs": "2", "Locals": tlc.tla_set(["x"]), "NLit": "1", "ShortLits": "{1}", "Pfx": tlc.tla_set(["p"])})
        consts.update(GEN[fmt])
        tlc.write_cfg(cfg, spec="Spec", constants=consts, constraints=["Export"])
        r, items = tlc.export_json("TurtleSpelling", cfg, timeout=900, extra=["-simulate", "num=%d" % num, "-depth", "120", "-seed", str(seed)])
        seen, out = set(), []
        for it in items:
            key = repr(it["doc"])
            nb = {x["v"] for q in it["quads"] for x in q.values() if x["k"] == "bnode"}
            if len(nb) > 6:          # the isomorphism oracle is an n! search
                continue
            if key not in seen:
                seen.add(key)
                out.append(it)
        return r, out
    finally:
        shutil.rmtree(d, ignore_errors=True)


def xml_plans(num, seed, tokens=9, workers=8):
    """behaviours of the RDF/XML writer machine RdfXmlSpelling.tla (simulation mode, several seeds in parallel)"""
    from concurrent.futures import ThreadPoolExecutor

    def one(k):
        d = tlc.scratch("rvf-gen-")
        try:
            cfg = os.path.join(d, "gen.cfg")
            consts = {"NNs": "3", "Locals": tlc.tla_set(["x", "y"]), "NLit": "3", "NDt": "2", "Langs": tlc.tla_set(["en", "fr"]), "MaxTop": "2", "MaxDepth": "5", "MaxTokens": str(tokens)}
            tlc.write_cfg(cfg, spec="Spec", constants=consts, constraints=["Export"], invariants=["WellFormedMeaning", "LangOnlyOnPlain", "LiDense", "NoDanglingCell"])
            return tlc.export_json("RdfXmlSpelling", cfg, timeout=900, extra=["-simulate", "num=%d" % max(1, num // workers), "-depth", "80", "-seed", str(seed * 100 + k)])
        finally:
            shutil.rmtree(d, ignore_errors=True)
    with ThreadPoolExecutor(workers) as ex:
        res = list(ex.map(one, range(workers)))
    seen, out = set(), []
    for r, items in res:
        for it in items:
            key = repr(it["doc"])
            nb = {x["v"] for q in it["quads"] for x in q.values() if x["k"] == "bnode"}
            if len(nb) > 6 or key in seen:
                continue
            seen.add(key)
            out.append(it)
    return res[0][0], out


def jsonld_plans(num, seed, tokens=8, workers=8):
    """behaviours of the JSON-LD writer machine JsonLdSpelling.tla (simulation mode, several seeds in parallel)"""
    from concurrent.futures import ThreadPoolExecutor

    def one(k):
        d = tlc.scratch("rvf-gen-")
        try:
            cfg = os.path.join(d, "gen.cfg")
            consts = {"NNs": "3", "Locals": tlc.tla_set(["x", "y"]), "NLit": "3", "Pfx": tlc.tla_set(["p", "q"]), "Langs": tlc.tla_set(["en", "de"]), "MaxNodes": "2", "MaxDepth": "4", "MaxTokens": str(tokens)}
            tlc.write_cfg(cfg, spec="Spec", constants=consts, constraints=["Export"], invariants=["WellFormedMeaning", "NoDanglingCell"])
            return tlc.export_json("JsonLdSpelling", cfg, timeout=900, extra=["-simulate", "num=%d" % max(1, num // workers), "-depth", "60", "-seed", str(seed * 100 + k)])
        finally:
            shutil.rmtree(d, ignore_errors=True)
    with ThreadPoolExecutor(workers) as ex:
        res = list(ex.map(one, range(workers)))
    seen, out = set(), []
    for r, items in res:
        for it in items:
            key = repr(it["doc"])
            nb = {x["v"] for q in it["quads"] for x in q.values() if x["k"] == "bnode"}
            if len(nb) > 6 or key in seen:
                continue
            seen.add(key)
            out.append(it)
    return res[0][0], out


def _iri(ns, l):
    return {"k": "iri", "ns": ns, "l": l}


def _node(t, how, pfx=None):
    sp = {"how": how}
    if pfx is not None:
        sp["pfx"] = pfx
    return {"t": "node", "term": t, "sp": sp}


def scenarios(fmt):
    """token sequences composed so that particular author choices meet (the simulation seldom lines them up): the same prefixed name
    before and after its prefix is re-bound (each combination of @prefix / PREFIX), the same relative reference before and after the
    base is replaced (@base / BASE), both inside and outside TriG blocks, the empty prefix, a blank node label across graph blocks"""
    docs = []
    dot = {"t": "."}
    for kw1 in ("@prefix", "PREFIX"):
        for kw2 in ("@prefix", "PREFIX"):
            for pfx in ("p", ""):
                docs.append([{"t": "prefix", "kw": kw1, "pfx": pfx, "ns": 1}, _node(_iri(1, "x"), "pname", pfx), _node(_iri(1, "y"), "pname", pfx), _node(_iri(1, "x"), "pname", pfx), dot,
                             {"t": "prefix", "kw": kw2, "pfx": pfx, "ns": 2}, _node(_iri(2, "x"), "pname", pfx), _node(_iri(2, "y"), "pname", pfx), _node(_iri(2, "x"), "pname", pfx), dot,
                             {"t": "prefix", "kw": kw1, "pfx": pfx, "ns": 1}, _node(_iri(1, "x"), "pname", pfx), _node(_iri(2, "y"), "abs"), _node(_iri(1, "y"), "pname", pfx), dot])
    for kw1 in ("@base", "BASE"):
        for kw2 in ("@base", "BASE"):
            docs.append([{"t": "base", "kw": kw1, "ns": 1}, _node(_iri(1, "x"), "rel"), _node(_iri(1, "y"), "rel"), _node(_iri(1, "x"), "rel"), dot,
                         {"t": "base", "kw": kw2, "ns": 2}, _node(_iri(2, "x"), "rel"), _node(_iri(2, "y"), "rel"), _node(_iri(2, "x"), "rel"), dot,
                         _node(_iri(1, "x"), "abs"), _node(_iri(2, "y"), "rel"), _node(_iri(2, "x"), "rel"), dot])
    # two prefixes for one namespace, one prefix re-bound while the other stays
    docs.append([{"t": "prefix", "kw": "@prefix", "pfx": "p", "ns": 1}, {"t": "prefix", "kw": "PREFIX", "pfx": "q", "ns": 1}, _node(_iri(1, "x"), "pname", "p"), _node(_iri(1, "y"), "pname", "q"), _node(_iri(1, "x"), "pname", "q"), dot,
                 {"t": "prefix", "kw": "PREFIX", "pfx": "p", "ns": 3}, _node(_iri(3, "x"), "pname", "p"), _node(_iri(1, "y"), "pname", "q"), _node(_iri(3, "y"), "pname", "p"), dot])
    if fmt == "trig":
        b1 = {"t": "node", "term": {"k": "bnode", "v": "b1"}, "sp": {"how": "label"}}
        extra = []
        for d in docs[:6]:
            # the same statements, the middle one inside a named graph block
            i = [k for k, t in enumerate(d) if t["t"] == "."]
            g = {"t": "gopen", "kw": True, "named": True, "term": _iri(3, "y"), "sp": {"how": "abs"}}
            j = i[0] + 2        # after the first statement and the following directive
            extra.append(d[:j] + [g] + d[j:i[1] + 1] + [{"t": "gclose"}] + d[i[1] + 1:])
        docs += extra
        # one label in the default graph, in two named blocks and as a graph name
        docs.append([b1, _node(_iri(1, "x"), "abs"), b1, dot,
                     {"t": "gopen", "kw": False, "named": True, "term": _iri(1, "y"), "sp": {"how": "abs"}}, b1, _node(_iri(1, "x"), "abs"), _node(_iri(1, "y"), "abs"), dot, {"t": "gclose"},
                     {"t": "gopen", "kw": True, "named": True, "term": {"k": "bnode", "v": "b1"}, "sp": {"how": "label"}}, _node(_iri(1, "x"), "abs"), _node(_iri(1, "x"), "abs"), b1, dot, {"t": "gclose"}])
    return docs


def targets(fmt, docs):
    """the meaning of composed token sequences, computed by TLC steering the writer machine along them"""
    import json
    d = tlc.scratch("rvf-tgt-")
    try:
        tf = os.path.join(d, "targets.json")
        json.dump(docs, open(tf, "w"))
        cfg = os.path.join(d, "gen.cfg")
        consts = {"NNs": "3", "Locals": tlc.tla_set(["x", "y"]), "NLit": "4", "ShortLits": "{1, 2}", "Pfx": tlc.tla_set(["", "p", "q"]), "MaxStmts": "8", "MaxDepth": "2", "MaxTokens": "80"}
        consts.update(GEN[fmt])
        tlc.write_cfg(cfg, spec="Spec2", constants=consts, constraints=["Export2"])
        r, items = tlc.export_json("TurtleSpellingTargets", cfg, timeout=600, env={"TARGETS_FILE": tf})
        got = {it["id"] for it in items}
        missing = [i + 1 for i in range(len(docs)) if i + 1 not in got]
        if missing:
            raise tlc.MachineryError("composed documents %s are not behaviours of the writer machine (%s)" % (missing[:5], fmt))
        return r, items
    finally:
        shutil.rmtree(d, ignore_errors=True)


def run(out, tier, seed):
    quick = tier == "quick"
    out.rule = ("documents: behaviours of the writer machine TurtleSpelling.tla (directives re-binding prefixes and base midway, absolute / relative / prefixed IRIs legal in the environment in force, 'a', four quotings, "
                "numeric / boolean shorthand, ';' ',' lists, nested / empty [] and () as subject, object and member, TriG blocks with and without GRAPH, N-Quads labels) exported by TLC in simulation mode, each rendered with 2 seeds "
                "(white space, comments, \\u / \\U / ECHAR escapes, PN_LOCAL escapes, keyword case, optional trailing ';' and '.') and handed to rdflib as str, bytes, BytesIO, StringIO, path, pathlib.Path and open file; "
                "rdflib's N-Triples / N-Quads output for the C03 / C06 shapes decoded by the strict grammar NTriplesGrammar.tla; XML / JSON outputs read by the stdlib parsers")
    out.assumptions += ["literals with a datatype are compared after rdflib's normalising constructor (lexical normalisation belongs to C07 / C09)",
                        "JSON-LD: the writer machine JsonLdSpelling.tla covers contexts (prefixes, @vocab, @base, @language, term definitions with @type / @language / @container, embedded contexts), node objects, value objects, native values, lists and named graphs; @reverse, @index, @nest, @included, scoped contexts on terms / types and remote contexts only through the hand-enumerated documents or not at all",
                        "RDF/XML names are NCNames of XML 1.0 fourth edition (what expat reads); parseType=Literal content is text only"]
    out.mc("TurtleSpelling", "MC_TurtleSpelling.cfg")
    out.mc("RdfXmlSpelling", "MC_RdfXmlSpelling.cfg")
    out.mc("JsonLdSpelling", "MC_JsonLdSpelling.cfg")
    rng = random.Random(seed)
    jobs = []
    n = 250 if quick else 3000
    for fmt in ("turtle", "trig", "nt", "nquads"):
        r, ps = plans(fmt, n, seed * 7 + len(fmt), stmts=3 if fmt in ("turtle", "trig") else 4, tokens=30 if fmt in ("turtle", "trig") else 16)
        out.states += r.generated
        out.extra["plans_" + fmt] = len(ps)
        if quick:
            ps = ps[:260]
        if fmt in ("trig", "nquads", "turtle"):
            r, ps2 = plans(fmt, n // 2, seed * 11 + len(fmt), stmts=4, tokens=24 if fmt != "nquads" else 16, small=True)
            out.extra["plans_small_" + fmt] = len(ps2)
            ps = ps + (ps2[:120] if quick else ps2)
        for pi, p in enumerate(ps):
            for v in range(2):
                routes = ROUTES if (pi + v) % 5 == 0 else ["str", ROUTES[1 + (pi + v) % (len(ROUTES) - 1)]]
                jobs.append({"cfg": {}, "events": [{"op": "spell_plan", "fmt": fmt, "plan": p, "seed": seed * 1000003 + pi * 2 + v, "routes": routes, "family": "machine"}]})
    for fmt in ("turtle", "trig"):
        r, items = targets(fmt, scenarios(fmt))
        out.states += r.distinct
        out.extra["composed_" + fmt] = len(items)
        for pi, p in enumerate(items):
            for v in range(3):
                jobs.append({"cfg": {}, "events": [{"op": "spell_plan", "fmt": fmt, "plan": p, "seed": seed * 7919 + pi * 3 + v, "routes": ROUTES if v == 0 else ["str", "bytes"], "family": "composed"}]})
    # RDF/XML: behaviours of the writer machine RdfXmlSpelling.tla, rendered by xml_spell.py
    r, xps = xml_plans(320 if quick else 4000, seed + 1)
    out.states += r.generated
    out.extra["plans_xml"] = len(xps)
    for pi, p in enumerate(xps):
        for v in range(2):
            routes = ROUTES if (pi + v) % 5 == 0 else ["str", ROUTES[1 + (pi + v) % (len(ROUTES) - 1)]]
            jobs.append({"cfg": {}, "events": [{"op": "spell_plan", "fmt": "xml", "plan": p, "seed": seed * 1000033 + pi * 2 + v, "routes": routes, "family": "xml-machine"}]})
    # JSON-LD: behaviours of the writer machine JsonLdSpelling.tla, rendered by jsonld_spell.py
    r, jps = jsonld_plans(280 if quick else 4000, seed + 2)
    out.states += r.generated
    out.extra["plans_jsonld"] = len(jps)
    for pi, p in enumerate(jps):
        for v in range(2):
            routes = ROUTES if (pi + v) % 5 == 0 else ["str", ROUTES[1 + (pi + v) % (len(ROUTES) - 1)]]
            jobs.append({"cfg": {}, "events": [{"op": "spell_plan", "fmt": "json-ld", "plan": p, "seed": seed * 1000081 + pi * 2 + v, "routes": routes, "family": "jsonld-machine"}]})
    from ..spell_docs import all_docs
    for fmt, name, text, quads in all_docs():
        enc = "utf-16" if name == "utf-16" else "utf-8"
        routes = [r for r in ROUTES if enc == "utf-8" or r not in ("str", "stringio")]
        jobs.append({"cfg": {}, "events": [{"op": "spell_text", "fmt": fmt, "text": text, "expected": quads, "routes": routes, "family": "doc:" + name, "encoding": enc}]})
    # rdflib's own N-Triples / N-Quads output against the strict grammar
    cases = list(shapes.literal_graphs(2, variant=seed)) + list(shapes.typed_literal_graphs()) + list(shapes.iri_graphs()) + list(shapes.list_graphs())[:6]
    if quick:
        cases = [c for i, c in enumerate(cases) if i % 2 == seed % 2 or not c[0].startswith("lit:")]
    for name, triples, xmlok in cases:
        q = [list(t) + [{"k": "default"}] for t in triples]
        jobs.append({"cfg": {}, "events": [{"op": "ntout", "fmt": "nt", "quads_in": q, "family": name.split(":")[0]}]})
        g = shapes.I(shapes.EX + "g") if len(name) % 2 else shapes.Bn("gb")
        jobs.append({"cfg": {}, "events": [{"op": "ntout", "fmt": "nquads", "quads_in": [list(t) + [g] for t in triples], "family": name.split(":")[0]}]})
        for fmt in ("xml", "pretty-xml", "trix", "json-ld"):
            if xmlok or fmt == "json-ld":
                jobs.append({"cfg": {}, "events": [{"op": "wf", "fmt": fmt, "quads_in": q, "family": name.split(":")[0]}]})
    # serializer options that end up as markup: a base / xml_base with characters that are markup in an attribute value (a query string with &)
    bq = [[shapes.I("http://ex.example/a?x=1&y=2#s"), shapes.P1, shapes.L("v"), {"k": "default"}], [shapes.S1, shapes.P2, shapes.I("http://ex.example/a?x=1&y=2"), {"k": "default"}]]
    for b in ("http://ex.example/a?x=1&y=2", "http://ex.example/a?x='1'", "http://ex.example/dir/"):
        for fmt in ("xml", "pretty-xml", "trix", "json-ld"):
            for kw in ({"base": b}, {"xml_base": b}) if fmt in ("xml", "pretty-xml") else ({"base": b},):
                jobs.append({"cfg": {}, "events": [{"op": "wf", "fmt": fmt, "quads_in": bq, "family": "opt:" + ",".join(kw), "ser_kw": kw}]})
    # blank nodes whose identifiers were chosen by the user (or kept from a document): legal labels beyond ASCII, labels that differ in one
    # accent, digits first, dots and hyphens inside; each is one node in the output and none is merged with another
    def KB(v):
        return {"k": "bnode", "v": v, "keep": True}
    for li, labels in enumerate((["café", "cafè"], ["名前", "住所", "名"], ["1a", "a1", "a.b", "a-b"], ["x·y", "x_y", "xy"], ["Ａ", "A", "a"], ["b", "B", "ß"])):
        tr = [[KB(a), shapes.P1, KB(b)] for a in labels for b in labels if a != b] + [[KB(a), shapes.P2, shapes.L(str(i))] for i, a in enumerate(labels)]
        jobs.append({"cfg": {}, "events": [{"op": "ntout", "fmt": "nt", "quads_in": [t + [{"k": "default"}] for t in tr], "family": "bnode-ids"}]})
        jobs.append({"cfg": {}, "events": [{"op": "ntout", "fmt": "nquads", "quads_in": [t + [KB(labels[0])] for t in tr] + [t + [shapes.I(shapes.EX + "g")] for t in tr[:2]], "family": "bnode-ids"}]})
    out.extra["jobs"] = len(jobs)
    out.conform(__name__, TRACE, jobs, nontrivial=nontrivial, chunk=150, par=16, heap="2g")
