"""C11 — property paths denote the relation SPARQL defines, for every binding of the ends."""
from __future__ import annotations

import itertools
import os
import random
import shutil

from .. import tlc
from ..sparql_replay import replay

PROP = "C11"
TRACE = "TraceQuery"


def execute(job):
    return replay(job["cfg"], job["events"])


def nontrivial(job, trace):
    return any(e["op"] == "path" for e in job["events"]) and len(job["events"][0]["quads"]) > 0


def gen(depth, max_edges, nodes=("n1", "n2", "n3")):
    d = tlc.scratch("rvf-gen-")
    try:
        cfg = os.path.join(d, "gen.cfg")
        tlc.write_cfg(cfg, spec="Spec", constants={"Preds": tlc.tla_set(["p1", "p2"]), "Nodes": tlc.tla_set(list(nodes)), "MaxEdges": str(max_edges),
                                                  "PathDepth": str(depth), "ExportMode": "TRUE"}, constraints=["Export"])
        return tlc.export_json("MCSparqlPaths", cfg, timeout=1800)
    finally:
        shutil.rmtree(d, ignore_errors=True)


def term(n, vocab):
    if vocab == "falsy" and n == "n3":
        return {"k": "num", "v": 0}
    if vocab == "falsy" and n == "absent":
        return {"k": "str", "v": ""}
    if vocab == "lit" and n == "n3":
        return {"k": "str", "v": "lit3"}
    return {"k": "iri", "v": n}


def conv_path(p, vocab):
    o = p["op"]
    if o == "iri":
        return {"op": "iri", "iri": {"k": "iri", "v": p["iri"]}}
    if o in ("inv", "star", "plus", "opt"):
        return {"op": o, "arg": conv_path(p["arg"], vocab)}
    if o in ("seq", "alt"):
        return {"op": o, "args": [conv_path(x, vocab) for x in p["args"]]}
    if o == "neg":
        return {"op": "neg", "fwd": [{"k": "iri", "v": x} for x in p["fwd"]], "inv": [{"k": "iri", "v": x} for x in p["inv"]]}
    raise ValueError(o)


ENDS = [([], []), (["n1"], []), ([], ["n1"]), (["n1"], ["n2"]), (["n2"], ["n2"]), (["absent"], []), ([], ["absent"]), (["absent"], ["absent"]),
        (["n3"], []), ([], ["n3"]), (["n2"], ["n3"]), (["n3"], ["n1"])]
VIAS = ["triples", "sparql", "subjects", "objects"]


def make_job(path, graph, idx, vocab, ends=None, vias=None):
    if vocab in ("falsy", "lit") and any(t[0] == "n3" for t in graph):
        vocab = "plain"         # a literal cannot be a subject
    quads = [[term(t[0], vocab), {"k": "iri", "v": t[1]}, term(t[2], vocab), "D"] for t in graph]
    evs = [{"op": "data", "quads": quads, "graphs": []}]
    p = conv_path(path, vocab)
    for j, (s, o) in enumerate(ends or ENDS):
        if vocab != "plain" and (s == ["n3"]):
            continue
        for via in (vias or [VIAS[(idx + j) % 4]]):
            if via == "subjects" and (not o or s):
                via = "triples"
            if via == "objects" and (not s or o):
                via = "sparql"
            evs.append({"op": "path", "p": p, "s": [term(x, vocab) for x in s], "o": [term(x, vocab) for x in o], "via": via})
    return {"cfg": {"facade": "graph", "store": ["Memory", "SimpleMemory"][idx % 2]}, "events": evs}


NAMED = {
    "cycle3": [("n1", "p1", "n2"), ("n2", "p1", "n3"), ("n3", "p1", "n1")],
    "cycle2_tail": [("n1", "p1", "n2"), ("n2", "p1", "n1"), ("n2", "p1", "n3")],
    "selfloop": [("n1", "p1", "n1"), ("n1", "p1", "n2"), ("n2", "p2", "n3")],
    "diamond": [("n1", "p1", "n2"), ("n1", "p1", "n3"), ("n2", "p1", "n4"), ("n3", "p1", "n4")],
    "mixed": [("n1", "p1", "n2"), ("n2", "p2", "n3"), ("n3", "p1", "n1"), ("n1", "p2", "n1")],
    "chain4": [("n1", "p1", "n2"), ("n2", "p1", "n3"), ("n3", "p1", "n4"), ("n4", "p2", "n1")],
    "two_comp": [("n1", "p1", "n2"), ("n3", "p1", "n4"), ("n4", "p1", "n3")],
    # n3 only ever an object: with the "lit" / "falsy" vocabularies it is a literal, reached in the middle of sequences
    "leaf3": [("n1", "p1", "n3"), ("n1", "p2", "n2"), ("n2", "p1", "n3"), ("n2", "p2", "n1")],
    "leaf3b": [("n1", "p1", "n2"), ("n2", "p1", "n3"), ("n1", "p2", "n3"), ("n2", "p2", "n2")],
}


def run(out, tier, seed):
    quick = tier == "quick"
    out.rule = ("cases (path, graph) exported by TLC from MCSparqlPaths.tla: every path expression of nesting depth <= 1 (26) over every graph with <= 2 edges on 3 nodes x 2 predicates (172), "
                "a sample (all in thorough) of depth-2 paths over named graph families (3-cycle, 2-cycle with tail, self-loop, diamond, mixed predicates, two components); each with 12 bindings of the ends "
                "(unbound, present, absent, equal, falsy literal) through Graph.triples / subjects / objects and SPARQL SELECT; non-trivial = non-empty graph; distinct = distinct (path, graph, vocabulary)")
    out.assumptions += ["through SPARQL, sequence and alternative paths are bags; answers are compared as sets and duplicate-freeness is required only when the outermost operator is *, + or ?",
                        "fixed-length {n,m} forms are not in SPARQL 1.1 nor in rdflib"]
    out.mc("MCSparqlPaths", "MC_SparqlPaths.cfg")
    rng = random.Random(seed)
    r, cases = gen(1, 2)
    out.states += r.distinct; out.transitions += r.generated
    jobs = []
    for i, c in enumerate(cases):
        if quick and i % 3 != seed % 3 and len(c["graph"]) < 2:
            continue
        jobs.append(make_job(c["path"], [tuple(t) for t in c["graph"]], i, ["plain", "falsy", "lit"][i % 3]))
    r2, cases2 = gen(2, 0)
    out.states += r2.distinct; out.transitions += r2.generated
    paths2 = [c["path"] for c in cases2]
    out.extra["cases_depth1"] = len(cases)
    out.extra["paths_depth2"] = len(paths2)
    sel = paths2 if not quick else rng.sample(paths2, 250)
    for i, p in enumerate(sel):
        for gi, (name, g) in enumerate(NAMED.items()):
            if quick and (i + gi) % 3 and not name.startswith("leaf"):
                continue
            jobs.append(make_job(p, g, i + gi, ["plain", "lit", "falsy"][(i + gi) % 3] if name.startswith("leaf") else "plain",
                                 ends=[ENDS[(i + gi + k) % len(ENDS)] for k in range(4)] if quick else None))
    # sequences / alternatives over data that is spread across the members of a ReadOnlyGraphAggregate
    for i, p in enumerate([q for q in paths2 if q["op"] in ("seq", "alt", "plus", "star")][:: (7 if quick else 1)]):
        for gi, (name, g) in enumerate(NAMED.items()):
            if (i + gi) % (4 if quick else 1) == 0:
                jobs.append(make_job(p, g, i + gi, "plain", vias=["aggregate"], ends=[([], []), (["n1"], []), ([], ["n3"]), (["n1"], ["n3"])]))
    # a path asked of one named graph of a dataset (4-tuple with the graph or its name, or context=), the other graphs holding other edges
    for i, p in enumerate(paths2[:: (9 if quick else 2)]):
        for gi, (name, g) in enumerate(NAMED.items()):
            if (i + gi) % (5 if quick else 2) == 0:
                jobs.append(make_job(p, g, i + gi, "plain", vias=[["dataset_quad", "dataset_ctx", "cg_quad"][(i + gi) % 3]], ends=[([], []), (["n1"], []), ([], ["n3"]), (["n1"], ["n3"])]))
    # every directly nested pair of modifiers (p?)+, (p*)?, ^(p+)* ... through every route, on every named family
    mods = ["star", "plus", "opt"]
    for m1 in mods:
        for m2 in mods:
            for pr in ("p1", "p2"):
                for inv in (False, True):
                    base = {"op": "iri", "iri": pr}
                    inner = {"op": m1, "arg": {"op": "inv", "arg": base} if inv else base}
                    pth = {"op": m2, "arg": inner}
                    for gi, (name, g) in enumerate(NAMED.items()):
                        jobs.append(make_job(pth, g, gi, "plain", vias=["sparql", "triples"] if not inv else ["sparql"],
                                             ends=ENDS[:8] + [(["n4"], []), ([], ["n4"])]))
    out.exhaustive = not quick
    # histories: the same path asked again after the graph was edited in place, size unchanged (one triple replaced) - the relation a path
    # denotes is a function of the graph as it is now
    I2 = lambda x: {"op": "iri", "iri": x}
    HP = [{"op": "plus", "arg": I2("p1")}, {"op": "star", "arg": I2("p1")}, {"op": "seq", "args": [I2("p2"), {"op": "plus", "arg": I2("p1")}]}, {"op": "inv", "arg": {"op": "plus", "arg": I2("p1")}},
          {"op": "plus", "arg": {"op": "alt", "args": [I2("p1"), I2("p2")]}}, {"op": "opt", "arg": I2("p1")}]
    EDITS = [("chain4", ("n3", "p1", "n4"), ("n3", "p1", "n1")), ("diamond", ("n2", "p1", "n4"), ("n4", "p1", "n2")), ("two_comp", ("n1", "p1", "n2"), ("n2", "p1", "n3")),
             ("cycle3", ("n3", "p1", "n1"), ("n3", "p1", "n4")), ("mixed", ("n2", "p2", "n3"), ("n2", "p1", "n3"))]
    E1 = [(["n1"], []), (["n2"], []), ([], ["n4"]), ([], [])]
    for hi, (gname, rem, add) in enumerate(EDITS):
        g1 = list(NAMED[gname])
        g2 = [t for t in g1 if t != rem] + [add]
        for pi, pth in enumerate(HP):
            for via in (["triples", "sparql"] if quick else VIAS):
                j1, j2, j3 = make_job(pth, g1, hi + pi, "plain", ends=E1, vias=[via]), make_job(pth, g2, hi + pi, "plain", ends=E1, vias=[via]), make_job(pth, g1, hi + pi, "plain", ends=E1[:3], vias=[via])
                evs = j1["events"] + [dict(j2["events"][0], inplace=True)] + j2["events"][1:] + [dict(j3["events"][0], inplace=True)] + j3["events"][1:]
                jobs.append({"cfg": {"facade": "graph", "store": "Memory"}, "events": evs})
    out.conform(__name__, TRACE, jobs, nontrivial=nontrivial, chunk=300)
