"""C06 — quad syntaxes round-trip a Dataset: each triple returns to the graph it was in."""
from __future__ import annotations

import itertools
import random

from .. import shapes
from ..shapes import Bn, I, L, S1, S2, P1, P2, EX
from ..doc_replay import replay

PROP = "C06"
TRACE = "TraceDocs"
FORMATS = ["nquads", "trig", "trix", "json-ld", "hext", "patch"]
D = {"k": "default"}
G1, G2 = I(EX + "g1"), I("http://other.example/graphs/g2")
GB = Bn("gb")


def execute(job):
    return replay(job["cfg"], job["events"])


def nontrivial(job, trace):
    return True


def vclass(job, trace, at):
    e = job["events"][0]
    return e.get("fmt", "patch") + "|" + e.get("shape", "")


def match_finding(findings, job, trace, verdict, at):
    e = trace["ev"][0]
    for f in findings:
        c = f.get("class")
        if not c or e.get("fmt", "patch") not in c["formats"] or verdict not in c["clauses"]:
            continue
        qs = e.get("before") or []
        if c["predicate"] == "bnode_graph_name" and any(q[3]["k"] == "bnode" for q in qs):
            return f
        if c["predicate"] == "patch_empty_target" and e["op"] == "patch" and not e["d2"]:
            return f
        if c["predicate"] == "bnode_cycle_ds":
            from .. import classes
            if classes.bnode_cycle([q[:3] for q in qs]):
                return f
    return None


T = [[S1, P1, L("v")], [S1, P2, S2], [S2, P1, L("w", lang="en")], [Bn("x"), P1, L("1", dt=shapes.XSD + "integer")], [S1, P2, Bn("x")]]
GRAPHS = [D, G1, G2, GB]


def distributions(quick):
    """every distribution of <= 3 triples over {default, IRI-named, IRI-named', bnode-named}, incl. the same triple in several graphs and a blank node shared across graphs"""
    out = []
    trip = T[:4] if quick else T[:5]        # thorough: five triples over the five placements (3125 distributions)
    for assign in itertools.product(range(len(GRAPHS) + 1), repeat=len(trip)):
        qs = [t + [GRAPHS[a]] for t, a in zip(trip, assign) if a < len(GRAPHS)]
        if qs:
            out.append(("dist:" + "".join(map(str, assign)), qs))
    # same triple in several graphs; blank node shared across graphs
    out.append(("shared-triple", [T[0] + [D], T[0] + [G1], T[0] + [GB]]))
    out.append(("shared-bnode", [T[3] + [G1], T[4] + [G2], [Bn("x"), P2, Bn("y"), D]]))
    out.append(("bnode-graph-only", [T[0] + [GB], T[3] + [GB]]))
    out.append(("two-bnode-graphs", [T[0] + [GB], T[1] + [Bn("gc")]]))
    # rdf:Lists inside named graphs (the forms ( ... ), @list, parseType=Collection): every cell stays in the graph of its list
    for gname, g in (("iri", G1), ("bnode", GB), ("default", D)):
        h = Bn("l0")
        for mname, members in (("res", [I(EX + "m1"), I(EX + "m2")]), ("lit", [L("a"), L("1", dt=shapes.XSD + "integer")]), ("mixed", [I(EX + "m1"), L("a"), Bn("x")])):
            qs = [[S1, P1, h, g]] + [t + [g] for t in shapes.mklist(members, h, "l")]
            out.append(("list-in-%s-graph:%s" % (gname, mname), qs))
            out.append(("list-in-%s-graph:%s+other" % (gname, mname), qs + [T[0] + [D], T[1] + [G2]]))
    out.append(("two-lists-two-graphs", [[S1, P1, Bn("l0"), G1]] + [t + [G1] for t in shapes.mklist([I(EX + "m1")], Bn("l0"), "l")]
                + [[S1, P1, Bn("k0"), G2]] + [t + [G2] for t in shapes.mklist([I(EX + "m1"), I(EX + "m2")], Bn("k0"), "k")]))
    out.append(("graph-name-also-node", [[G1, P1, L("about g1"), D], T[0] + [G1]]))
    out.append(("bnode-graph-name-also-node", [[GB, P1, L("about gb"), D], T[0] + [GB]]))
    out.append(("bnode-graph-name-object-once", [[S1, P1, GB, D], T[0] + [GB]]))
    out.append(("bnode-graph-name-object-once+more", [[S1, P1, GB, D], T[1] + [D], T[0] + [GB], T[3] + [GB]]))
    out.append(("bnode-graph-name-object-in-named", [[S1, P1, GB, G1], T[0] + [GB]]))
    out.append(("hostile-literals", [[S1, P1, L('q"\\\n\t'), G1], [S1, P1, L("\U0001F600", lang="en"), D], [S1, P2, L("<&>", dt=EX + "dt"), G2]]))
    out.append(("dot-literals", [[S1, P1, L("wait . what"), G1], [S1, P1, L("x ."), GB], [S1, P2, L(" . "), G2], [S1, P2, L("Dr . No"), D], [S2, P1, L(" ."), G1], [S2, P2, L("a <urn:g> ."), G2]]))
    out.append(("empty-default", [T[0] + [G1], T[1] + [G2]]))
    # one statement whose object is a "leaf" blank node (object of that statement only, never a subject), asserted in several graphs:
    # the node the graphs share is still one node afterwards
    LF = Bn("leaf")
    for nm, gs in (("D+G1", [D, G1]), ("G1+G2", [G1, G2]), ("D+GB", [D, GB]), ("D+G1+G2", [D, G1, G2])):
        out.append(("shared-leaf-bnode:" + nm, [[S1, P2, LF, g] for g in gs]))
        out.append(("shared-leaf-bnode+more:" + nm, [[S1, P2, LF, g] for g in gs] + [T[0] + [gs[0]], [S2, P2, Bn("leaf2"), gs[-1]]]))
    return out


# prefixes that read like keywords of the Turtle family (GRAPH, PREFIX, BASE, a, true, false), bound next to the empty prefix, with graph
# names, subjects and objects in their namespaces
KW_NS = "http://example.org/graphs/"
KW_PREFIXES = ["graph", "GRAPH", "Graph", "prefix", "PREFIX", "base", "BASE", "a", "true", "false", "graphs"]


def keyword_prefix_datasets():
    out = []
    for kw in KW_PREFIXES:
        qs = [[S1, P1, L("v"), I(KW_NS + "g1")], [I(KW_NS + "s"), P1, I(KW_NS + "o"), D], [I(KW_NS + "s"), I(KW_NS + "p"), L("w"), I(KW_NS + "g1")], T[0] + [G1]]
        out.append(("kw-prefix:" + kw, qs, [[kw, KW_NS], ["", EX]]))
        out.append(("kw-prefix-only:" + kw, qs, [[kw, KW_NS]]))
    return out


def run(out, tier, seed):
    quick = tier == "quick"
    out.rule = ("datasets: every distribution of 3 (4 in thorough) triples over {default, two IRI-named, one bnode-named graph, absent} plus shared triples, blank nodes shared across graphs, graph names that are also nodes, "
                "hostile literals; x {nquads, trig, trix, json-ld, hext, patch(add)}; RDF Patch diffs for every ordered pair of a 40-dataset sample incl. the empty dataset on either side; TLC validates dataset isomorphism with one "
                "bijection across all graphs (graph names included) / equality with the target for patches")
    out.assumptions += ["an empty named graph has no representation in these syntaxes; only non-empty graphs are compared", "RDF Patch names blank nodes by label; patch results are compared by equality"]
    out.mc("MCGraphIso", "MC_GraphIso.cfg")
    rng = random.Random(seed)
    ds = distributions(quick)
    out.extra["datasets"] = len(ds)
    jobs = []
    for di, (name, qs) in enumerate(ds):
        for fi, fmt in enumerate(FORMATS):
            jobs.append({"cfg": {}, "events": [{"op": "roundtrip_ds", "fmt": fmt, "shape": name, "before": qs, "default_union": bool((di + fi) % 2)}]})
    for name, qs, pf in keyword_prefix_datasets():
        for fmt in FORMATS:
            jobs.append({"cfg": {}, "events": [{"op": "roundtrip_ds", "fmt": fmt, "shape": name, "before": qs, "prefixes": pf, "default_union": False}]})
    sample = [qs for _, qs in rng.sample(ds, 14 if quick else 110)] + [[]]
    for a in sample:
        for b in sample:
            if all(q[3]["k"] != "bnode" or True for q in a + b):
                jobs.append({"cfg": {}, "events": [{"op": "patch", "shape": "patch", "d1": [list(q) for q in a], "d2": [list(q) for q in b]}]})
    # single-quad edits that keep every graph's size: a literal changed on a blank-node subject, a blank-node object swapped for another,
    # a ground triple changed, a triple moved between graphs - in the default graph, an IRI-named and a blank-node-named graph
    base = [[Bn("x"), P1, L("old"), D], [S1, P1, Bn("x"), D], [S1, P2, S2, D], [S1, P2, S2, G1], [Bn("y"), P1, L("v"), G1], [S2, P1, Bn("y"), G1],
            [S1, P1, Bn("y"), GB], [Bn("x"), P2, Bn("y"), GB], [S2, P2, L("g"), GB]]
    def edited(i, new):
        return [list(new) if j == i else list(q) for j, q in enumerate(base)]
    pairs = [edited(0, [Bn("x"), P1, L("new"), D]), edited(1, [S1, P1, Bn("y"), D]), edited(2, [S1, P2, S1, D]), edited(4, [Bn("y"), P1, L("w"), G1]), edited(5, [S2, P1, Bn("x"), G1]),
             edited(6, [S1, P1, Bn("x"), GB]), edited(7, [Bn("y"), P2, Bn("x"), GB]), edited(8, [S2, P2, L("h"), GB]), edited(3, [S1, P2, S2, G2]), edited(0, [Bn("x"), P1, L("old"), G1]),
             edited(4, [Bn("z"), P1, L("v"), G1])]
    for b in pairs:
        jobs.append({"cfg": {}, "events": [{"op": "patch", "shape": "patch-edit", "d1": [list(q) for q in base], "d2": b}]})
        jobs.append({"cfg": {}, "events": [{"op": "patch", "shape": "patch-edit", "d1": b, "d2": [list(q) for q in base]}]})
    out.exhaustive = True
    out.conform(__name__, TRACE, jobs, nontrivial=nontrivial, chunk=400, par=16, heap="2g")
