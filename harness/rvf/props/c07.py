"""C07 — RDF terms obey identity laws: equality, hashing, ordering, pickling, n3 text."""
from __future__ import annotations

import itertools
import random

from .. import shapes
from ..terms_replay import replay

PROP = "C07"
TRACE = "TraceTerms"
XSD = shapes.XSD


def execute(job):
    return replay(job["cfg"], job["events"])


def nontrivial(job, trace):
    return True


def vclass(job, trace, at):
    e = job["events"][at - 1]
    return e["op"] + "|" + e.get("how", "") + "|" + (e.get("a", {}).get("k", "") + ("/" + e["a"].get("dt", "")[-10:] if e.get("a", {}).get("dt") else ""))


def match_finding(findings, job, trace, verdict, at):
    e = trace["ev"][at - 1]
    for f in findings:
        c = f.get("class")
        if not c or not any(verdict.startswith(x) for x in c["clauses"]):
            continue
        if c["predicate"] == "backslash_u_via" and e["op"] == "via" and e["how"] in c["formats"] and e["a"]["k"] == "lit":
            import re
            if re.search(r"\\[uU]", e["a"]["v"]):
                return f
        if c["predicate"] == "decimal_nonfinite_via" and e["op"] == "via" and e["how"] in c["formats"] and e["a"]["k"] == "lit" and e["a"]["dt"].endswith("#decimal") \
                and e["a"]["v"].lstrip("+-").lower() in ("infinity", "inf", "nan", "snan"):
            return f
        if c["predicate"] == "non_normalised_via" and e["op"] == "via" and e["how"] in c["formats"] and e["a"]["k"] == "lit" and e["a"]["dt"]:
            from rdflib import Literal, URIRef
            a = e["a"]
            if str(Literal(a["v"], datatype=URIRef(a["dt"]))) != a["v"]:
                return f
    return None


def lit(v, dt="", lang=""):
    return {"k": "lit", "v": v, "dt": dt, "lang_raw": lang}


def pool(variant, maxlen):
    T = []
    for s in ("a", "b", "a b", "urn:x:a", "urn:x:B", "http://ex.example/a#b", "é", ""):
        if s:
            T.append({"k": "iri", "v": s})
        T.append({"k": "bnode", "v": s or "b0"})
        T.append({"k": "var", "v": (s or "v0").replace(" ", "_").replace(":", "_").replace("/", "_").replace("#", "_").replace(".", "_")})
    T += [lit("a"), lit("a", lang="en"), lit("a", lang="EN"), lit("a", lang="en-US"), lit("a", lang="en-us"), lit("a", lang="fr"), lit("a", dt=XSD + "string"),
          lit("urn:x:a"), lit("b"), lit(""), lit("", lang="en"), lit("", dt=XSD + "string")]
    typed = [("1", "integer"), ("01", "integer"), ("+1", "integer"), ("1.0", "decimal"), ("1.00", "decimal"), ("1", "decimal"), ("1.0E0", "double"), ("1", "double"), ("NaN", "double"), ("NaN", "decimal"), ("sNaN", "decimal"), ("Infinity", "decimal"),
             ("INF", "double"), ("-INF", "double"), ("NaN", "float"), ("true", "boolean"), ("1", "boolean"), ("false", "boolean"), ("abc", "integer"), ("", "integer"), ("2020-01-01", "date"),
             ("2020-01-01T00:00:00", "dateTime"), ("2020-01-01T00:00:00Z", "dateTime"), ("2020-01-01T00:00:00+00:00", "dateTime"), ("2020-13-45", "date"), ("P1D", "duration"), ("PT24H", "duration"),
             ("AQID", "base64Binary"), ("0a", "hexBinary"), ("0A", "hexBinary"), ("x", "anyURI")]
    T += [lit(v, dt=XSD + d) for v, d in typed]
    # ill-typed numeric literals whose text contains the letters of inf / nan
    T += [lit("banana", dt=XSD + "double"), lit("finance", dt=XSD + "decimal"), lit("infinite", dt=XSD + "float"), lit("Infinity war", dt=XSD + "double"), lit("nan", dt=XSD + "integer")]
    # multi-line literals ending in / containing quotes (the long-quote n3 form)
    T += [lit('a\nb"'), lit('line one\nline two"', lang="en"), lit('a\nb"', dt="http://ex.example/dt"), lit('a\nb""'), lit('\n"'), lit('a\nb"""'), lit("a\nb\\"), lit('"\n'), lit("a\nb'"),
          lit("''" + "'\n"), lit('a\r"'), lit('a\n\\"'), lit('a\n\\\\"'), lit('\n\\"""'), lit('x\\"y'), lit('a\n"\\'),
          # a backslash followed by u / U and hex digits: not an escape, but it looks like one
          # a backslash followed by a letter that names a control character in an escape (t b n r f): two characters, not one
          lit("C:\\temp\\new"), lit("\\frac{1}{2}"), lit("^\\bword\\b$", lang="en"), lit("\\r\\n", dt="http://ex.example/dt"), lit("a\\tb"), lit("\\\\t"), lit("\\'"), lit("tab\there\\t"),
          lit("\\u0041"), lit("\\U0001F600"), lit("a\\u00e9b\n"), lit("\\\\u0041"), lit("\\u00"), lit("\\x41")]
    T += [{"k": "iri", "v": u} for u in ("http://example.org/a?", "http://example.org/a;", "http://example.org/a?#frag", "HTTP://EXAMPLE.org/A", "http://example.org/a/./b/../c", "http://example.org/a#",
                                         "http://schema.org/name", "https://schema.org/name", "http://ex.example/T", "svn+ssh://h/p", "z39.50s://h/p", "mailto:a@b.example")]
    # IRIs with white space other than the space / control characters; a variable whose name starts with the sigil
    T += [{"k": "iri", "v": u} for u in ("http://ex.example/a\tb", "http://ex.example/a\nb", "http://ex.example/a\rb", "http://ex.example/a\x01b")]
    T += [{"k": "var", "v": "?x"}, {"k": "var", "v": "$x"}]
    # IRIs that cannot be written between < and > (they build with a warning and are terms like any other)
    T += [{"k": "iri", "v": u} for u in ("http://ex.example/my file.txt", "http://ex.example/a<b", 'http://ex.example/a"b', "http://ex.example/a{b}", "http://ex.example/a|b", "http://ex.example/a\\b",
                                         "http://ex.example/a^b", "http://ex.example/a`b", "http://ex.example/a>b")]
    T += [lit("v", dt="http://schema.org/Text"), lit("v", dt="https://schema.org/Text"), lit("v", dt="http://ex.example/T")]
    T += [lit("v", dt="http://ex.example/dt"), lit("v", dt="http://ex.example/DT"), lit("<b>x</b>", dt="http://www.w3.org/1999/02/22-rdf-syntax-ns#XMLLiteral")]
    classes = ["plain", "dquote", "squote", "backslash", "LF", "CR", "TAB", "nonASCII", "nonBMP", "space", "gt"]
    for i, cs in enumerate(shapes.class_strings(maxlen, classes)):
        if cs:
            text = shapes.spell(cs, variant)
            T.append([lit(text), lit(text, lang="en"), lit(text, dt="http://ex.example/dt")][i % 3])
    return T


BAD_IRI_CHARS = ' <>"{}|\\^`\t\n\r\x01'
VIA = ["pickle0", "pickle1", "pickle2", "pickle3", "pickle4", "pickle5", "copy", "deepcopy", "ctor", "from_n3", "from_n3_nsm", "turtle", "sparql_values", "sparql_base", "sparql_prepared"]


def normalised(t):
    from rdflib import Literal, URIRef
    if t["k"] != "lit" or not t.get("dt"):
        return True
    return str(Literal(t["v"], datatype=URIRef(t["dt"]))) == t["v"]


def n3_ok(t, how="from_n3"):
    """terms whose n3() text is legal input for the text routes.  Parsers normalise lexical forms by design
    (rdflib.NORMALIZE_LITERALS) and scope blank-node labels to the document (C12), so non-normalised literals and, for the
    document parsers, blank nodes are not sent through them."""
    # from_n3 and the Turtle parser normalise lexical forms by design (rdflib.NORMALIZE_LITERALS); the SPARQL parser keeps them as written
    if not normalised(t) and not how.startswith("sparql"):
        return False
    if t["k"] == "bnode" and how in ("turtle", "ntriples", "sparql_values", "sparql_base", "sparql_prepared"):
        return False
    if t["k"] == "var":
        return how in ("from_n3", "from_n3_nsm")      # a variable is no term of a Turtle document or a VALUES block
    if t["k"] == "iri":
        if any(c in t["v"] for c in BAD_IRI_CHARS) and ":" in t["v"]:
            return how in ("from_n3", "turtle", "sparql_values")      # n3() declines these (no text: nothing to judge); a text it did produce must read back as the same IRI
        return " " not in t["v"] and t["v"] != "" and ":" in t["v"]
    if t["k"] == "bnode":
        return t["v"].isalnum()
    return True


def run(out, tier, seed):
    quick = tier == "quick"
    out.rule = ("terms: a pool of ~120 (every kind; the same string as IRI / blank node / variable / literal; language tags differing in case; plain vs xsd:string; valid, non-normalised and invalid lexical forms over "
                "14 datatypes; NaN / INF; naive vs aware dateTimes; custom datatypes; literals over character-class strings incl. quotes, backslash, CR/LF/TAB, non-BMP); all ordered pairs for ==, !=, hash, set / dict / graph collapse and "
                "<, >; sampled triples for transitivity; sorts of random sublists (twice, and of a shuffled copy); 11 round-trip routes (pickle protocols 0-5, copy, deepcopy, from_n3, Turtle, SPARQL VALUES)")
    out.assumptions += ["ordering among literals is only required not to raise and to be reproducible", "text routes are applied to terms whose n3() is legal input (absolute IRIs, alphanumeric blank node labels)"]
    rng = random.Random(seed)
    T = pool(seed, 1 if quick else 2)
    out.extra["pool"] = len(T)
    jobs = []
    pairs = list(itertools.product(range(len(T)), repeat=2))
    if quick:
        pairs = [p for i, p in enumerate(pairs) if i % 3 == seed % 3 or p[0] == p[1]]
    for i, j in pairs:
        jobs.append({"cfg": {}, "events": [{"op": "eq", "a": T[i], "b": T[j]}]})
        jobs.append({"cfg": {}, "events": [{"op": "lt", "a": T[i], "b": T[j]}]})
    for _ in range(300 if quick else 3000):
        a, b, c = rng.choice(T), rng.choice(T), rng.choice(T)
        jobs.append({"cfg": {}, "events": [{"op": "trans", "a": a, "b": b, "c": c}]})
    for i in range(200 if quick else 2000):
        xs = rng.sample(T, rng.randint(2, 12))
        jobs.append({"cfg": {}, "events": [{"op": "sort", "xs": xs, "seed": i}]})
    for t in T:
        for h in VIA:
            if h == "ctor" and t["k"] == "var" and t["v"].startswith("?"):
                continue        # Variable(name) takes a leading "?" for the sigil by documented design: not a copy for such a name
            if h.startswith(("pickle", "copy", "deepcopy", "ctor")) or n3_ok(t, h):
                jobs.append({"cfg": {}, "events": [{"op": "via", "how": h, "a": t}]})
    # the store's NodePickler, shared between terms: every ordered pair of pool terms that spell the same string
    by = {}
    for t in T:
        by.setdefault(t["v"], []).append(t)
    for v, ts in by.items():
        for a in ts:
            for b in ts:
                if a is not b:
                    jobs.append({"cfg": {}, "events": [{"op": "via", "how": "nodepickler", "first": a, "a": b}]})
    for t in T[:: (3 if quick else 1)]:
        jobs.append({"cfg": {}, "events": [{"op": "via", "how": "nodepickler", "first": t, "a": t}]})
    out.conform(__name__, TRACE, jobs, nontrivial=nontrivial, chunk=150, par=16, heap="2g")
