"""C04 — SPARQL graph patterns evaluate to the solution multiset the algebra defines."""
from __future__ import annotations

import json
import random

from .. import qgen
from ..sparql_replay import replay

PROP = "C04"
TRACE = "TraceQuery"


def execute(job):
    return replay(job["cfg"], job["events"])


def nontrivial(job, trace):
    return len(job["events"][0]["quads"]) > 0 and any(e["op"] == "query" for e in job["events"])


def uses_graph(g):
    return '"t": "graph"' in json.dumps(g)


FIXED_GRAPHS = [
    [],
    [[qgen.I("n1"), qgen.I("p"), qgen.N(1)], [qgen.I("n1"), qgen.I("q"), qgen.I("n1")], [qgen.I("n2"), qgen.I("p"), qgen.N(2)], [qgen.I("n2"), qgen.I("q"), qgen.N(1)]],
    [[qgen.I("n1"), qgen.I("p"), qgen.I("n2")], [qgen.I("n2"), qgen.I("q"), qgen.I("n3")], [qgen.I("n2"), qgen.I("p"), qgen.I("n1")], [qgen.I("n3"), qgen.I("q"), qgen.N(3)],
     [qgen.I("n1"), qgen.I("p"), qgen.N(1)], [qgen.I("n1"), qgen.I("q"), qgen.N(1)]],
]


def gen_noleak(rng, ds):
    """random queries stay outside the known scope-leak class (KF-C04-pushdown); the systematic pool keeps its witnesses"""
    for _ in range(50):
        w = qgen.rand_group(rng, rng.randint(1, 3), dataset=ds)
        if not qgen.scope_leak(w):
            return w
    return qgen.grp(qgen.bgp((qgen.V("x"), qgen.I("p"), qgen.V("y"))))


def run(out, tier, seed):
    quick = tier == "quick"
    out.rule = ("queries: systematic enumeration {A op B} over operand pools (5 x 6 BGPs sharing variables in every way) x operators Join, OPTIONAL, OPTIONAL+FILTER (10 filters), UNION, MINUS, "
                "EXISTS / NOT EXISTS, nested MINUS and FILTER scopes, sub-SELECT, BIND (arithmetic, IF, COALESCE, error-valued || and &&), VALUES (UNDEF, duplicates), GRAPH ?g / <iri> / empty / missing graph; "
                "plus seeded random queries of nesting depth <= 3; forms SELECT *, SELECT vars [DISTINCT], ASK, CONSTRUCT; data: fixed and seeded random graphs (<= 6 triples) and 3-graph datasets, "
                "Graph and Dataset facades, default-graph-as-union on and off; each answer validated by TLC as a multiset against Sparql.tla; non-trivial = non-empty data; distinct = distinct (query, data, config)")
    out.assumptions += ["EXISTS patterns are limited to BGP/Join/OPTIONAL/UNION/FILTER/GRAPH where substitution semantics is uncontroversial (DESIGN Appendix B)",
                        "numbers are xsd:integer, strings simple literals; no SERVICE, no property functions",
                        "the query space is enumerated by a Python grammar enumerator, not by TLC (recursive AST sets are infeasible as TLC initial-state sets beyond depth 1); TLC decides every case"]
    out.mc("MCSparql", "MC_SparqlAlg.cfg")
    out.mc("MCSparql", "MC_SparqlBgp.cfg")
    rng = random.Random(seed)
    wheres = qgen.systematic()
    out.extra["systematic_queries"] = len(wheres)
    out.extra["systematic_in_known_scope_leak_class"] = sum(1 for w in wheres if qgen.scope_leak(w))
    jobs = []
    per = 12
    ndata = 6 if quick else 20
    for di in range(ndata):
        for i in range(0, len(wheres), per):
            chunk = wheres[i:i + per]
            ds = any(uses_graph(w) for w in chunk)
            if ds:
                data = qgen.random_dataset(rng)
                # Dataset and (every third round) ConjunctiveGraph, whose default context has an identifier of its own
                cfg = {"facade": "cg" if (i // per + di) % 3 == 2 else "dataset", "union_default": bool((i // per + di) % 2)}
            else:
                quads = [t + ["D"] for t in (FIXED_GRAPHS[di] if di < len(FIXED_GRAPHS) else qgen.random_graph(rng))]
                data = {"op": "data", "quads": quads, "graphs": []}
                cfg = {"facade": "graph"}
            for j, w in enumerate(chunk):
                form = ["select", "select", "ask", "selectv"][(i + j + di) % 4]
                if form == "select":
                    q = {"form": "select", "proj": ["*"], "where": w}
                elif form == "ask":
                    q = {"form": "ask", "proj": ["*"], "where": w}
                else:
                    q = {"form": "select", "proj": ["x", "z"], "distinct": bool(j % 2), "where": w}
                jobs.append({"cfg": cfg, "events": [data, {"op": "query", "q": q}]})
    for i in range(500 if quick else 5000):
        ds = i % 3 == 0
        data = qgen.random_dataset(rng) if ds else {"op": "data", "quads": [t + ["D"] for t in qgen.random_graph(rng)], "graphs": []}
        for _ in range(8):
            jobs.append({"cfg": {"facade": ("cg" if i % 9 == 0 else "dataset") if ds else "graph", "union_default": bool(i % 2)},
                         "events": [data, {"op": "query", "q": qgen.as_query(rng, gen_noleak(rng, ds), ds)}]})
    # CONSTRUCT templates with blank nodes over solutions that agree on the template's variables (duplicates, variables the template does not use)
    BN = lambda l: {"k": "bnode", "v": l}
    V_, I_, N_ = qgen.V, qgen.I, qgen.N
    xpy = qgen.bgp((V_("x"), I_("p"), V_("y")))
    tpls = [[[V_("x"), I_("has"), BN("b")], [BN("b"), I_("val"), V_("y")]], [[BN("b"), I_("p"), N_(1)]], [[V_("x"), I_("has"), BN("b")]],
            [[BN("b"), I_("of"), V_("x")], [BN("b"), I_("next"), BN("c")], [BN("c"), I_("val"), V_("z")]], [[V_("x"), I_("p"), V_("y")], [BN("b"), I_("p"), BN("b")]]]
    cw = [qgen.grp(xpy), qgen.grp({"t": "union", "gs": [qgen.grp(xpy), qgen.grp(xpy)]}), qgen.grp(qgen.bgp((V_("x"), I_("p"), V_("y")), (V_("y"), I_("q"), V_("z")))),
          qgen.grp(xpy, {"t": "optional", "g": qgen.grp(qgen.bgp((V_("x"), I_("q"), V_("z"))))}),
          qgen.grp({"t": "subselect", "q": {"form": "select", "proj": ["x"], "distinct": False, "where": qgen.grp(xpy)}}),
          qgen.grp({"t": "values", "vars": ["x"], "rows": [[I_("n1")], [I_("n1")], [I_("n2")]]})]
    for di in range(3 if quick else 12):
        gd = FIXED_GRAPHS[di] if 0 < di < len(FIXED_GRAPHS) else qgen.random_graph(rng)
        data = {"op": "data", "quads": [t + ["D"] for t in gd], "graphs": []}
        for w in cw:
            for tpl in tpls:
                jobs.append({"cfg": {"facade": "graph"}, "events": [data, {"op": "query", "q": {"form": "construct", "proj": ["*"], "template": tpl, "where": w}}]})
    # wide data: operands of a dozen rows (evaluation strategies that switch on operand size), the same subjects in several graphs
    wq = qgen.wide_queries()
    out.extra["wide_queries"] = len(wq)
    stride = 6 if quick else 1
    for di in range(2 if quick else 6):
        gdata = {"op": "data", "quads": [t + ["D"] for t in qgen.wide_graph(rng)], "graphs": []}
        ddata = qgen.wide_dataset(rng)
        for i, w in enumerate(wq):
            if (i + di + seed) % stride:
                continue
            ds = uses_graph(w)
            q = {"form": "select", "proj": ["*"], "where": w}
            jobs.append({"cfg": {"facade": "cg" if i % 4 == 3 else "dataset", "union_default": bool(i % 2)} if ds else {"facade": "graph"}, "events": [ddata if ds else gdata, {"op": "query", "q": q}]})
    out.conform(__name__, TRACE, jobs, nontrivial=nontrivial, chunk=400, par=16)
