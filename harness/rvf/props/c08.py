"""C08 — solution modifiers and aggregates follow SPARQL (DISTINCT, ORDER, slice, GROUP)."""
from __future__ import annotations

import itertools
import random

from .. import qgen
from ..qgen import I, N, S, V, bgp, ec, ev, grp
from ..sparql_replay import replay

PROP = "C08"
TRACE = "TraceQuery"


def execute(job):
    return replay(job["cfg"], job["events"])


def nontrivial(job, trace):
    return len(job["events"][0]["quads"]) > 0


B = {"k": "bnode", "v": "bx"}
DATASETS = [
    # numeric values with duplicates, mixed-kind values under q, a subject without q
    [[I("n1"), I("p"), N(1)], [I("n1"), I("p"), N(3)], [I("n2"), I("p"), N(3)], [I("n3"), I("p"), N(2)], [I("n3"), I("p"), N(0)],
     [I("n1"), I("q"), S("b")], [I("n2"), I("q"), I("n1")], [I("n2"), I("q"), S("a")], [I("n1"), I("q"), B]],
    [[I("n1"), I("p"), N(2)], [I("n2"), I("p"), N(2)], [I("n2"), I("p"), N(-1)], [I("n1"), I("q"), S("x")], [I("n2"), I("q"), S("x")], [I("n3"), I("q"), S("y")]],
    [[I("n1"), I("p"), N(0)], [I("n1"), I("q"), S("")], [I("n2"), I("p"), N(5)]],
    [],
]
WHERES = [
    grp(bgp((V("s"), I("p"), V("v")))),
    grp(bgp((V("s"), I("p"), V("v"))), {"t": "optional", "g": grp(bgp((V("s"), I("q"), V("w"))))}),
    grp(bgp((V("s"), V("pp"), V("w")))),
    grp(bgp((V("s"), I("q"), V("w")))),
    grp(bgp((V("s"), I("nosuch"), V("v")))),
    grp({"t": "union", "gs": [grp(bgp((V("s"), I("p"), V("v")))), grp(bgp((V("s"), I("p"), V("v"))))]}),
]
KEYS = [[("v", False)], [("v", True)], [("w", False)], [("w", True)], [("s", False), ("v", True)], [("s", True), ("v", False)], [("v", True), ("s", False)],
        [("w", False), ("v", False)], [("s", True), ("w", True)], [("v", False), ("w", True)]]


def modifier_queries():
    qs = []
    for w in WHERES:
        for keys in [None] + KEYS:
            for dist in (None, "distinct", "reduced"):
                for proj in (["*"], ["s"], ["v", "w"], ["w"]):
                    for lim, off in ((None, None), (2, None), (None, 1), (1, 1), (0, None), (3, 2), (None, 9), (2, 0)):
                        if dist == "reduced" and off is not None:
                            continue
                        q = {"form": "select", "proj": proj, "where": w}
                        if keys:
                            q["orderby"] = [{"e": ev(k), "desc": d} for k, d in keys]
                        if dist:
                            q[dist] = True
                        if lim is not None:
                            q["limit"] = lim
                        if off is not None:
                            q["offset"] = off
                        qs.append(q)
    return qs


def agg(f, v=None, distinct=False, as_="a", sep=None):
    a = {"f": f, "distinct": distinct, "as": as_}
    a["e"] = ev(v) if v else ev("s")
    if sep is not None:
        a["sep"] = sep
    return a


def aggregate_queries():
    qs = []
    aggs = [agg("count*"), agg("count*", distinct=True), agg("count", "v"), agg("count", "w"), agg("count", "w", True), agg("sum", "v"), agg("sum", "v", True),
            agg("avg", "v"), agg("min", "v"), agg("max", "v"), agg("min", "w"), agg("max", "w"), agg("sample", "v"), agg("sample", "w"),
            agg("group_concat", "w", sep=" "), agg("group_concat", "w", True, sep=";"), agg("sum", "w"), agg("max", "s")]
    for w in WHERES:
        for gb in ([], ["s"], ["w"], ["s", "w"]):
            for a in aggs:
                if a["f"] in ("sum", "avg") and a["e"]["v"] == "w" and WHERES.index(w) in (1,):
                    continue        # SUM/AVG over possibly-unbound operands: rdflib skips UNDEF (documented leniency), not judged
                if a["f"] == "avg" and a["e"]["v"] == "w":
                    continue
                if a["f"] in ("sum", "avg") and a["e"]["v"] not in qgen._pat_vars(w):
                    continue        # never-bound operand: same leniency
                q = {"form": "select", "proj": gb + [a["as"]], "where": w, "groupby": [ev(x) for x in gb], "aggs": [a]}
                qs.append(q)
            # two aggregates, HAVING on a deterministic one
            a1, a2 = agg("count*", as_="c"), agg("max", "v", as_="m")
            for hv in (1, 2):
                qs.append({"form": "select", "proj": gb + ["c", "m"], "where": w, "groupby": [ev(x) for x in gb], "aggs": [a1, a2],
                           "having": {"agg": a1, "op": ">", "n": hv}})
            qs.append({"form": "select", "proj": gb + ["c"], "where": w, "groupby": [ev(x) for x in gb], "aggs": [agg("sum", "v", as_="c")],
                       "having": {"agg": agg("sum", "v", as_="c"), "op": ">=", "n": 3}})
            # the same function over the same expression with and without DISTINCT in one query (either order), also split between SELECT and HAVING
            if "v" in qgen._pat_vars(w):
                for f in ("count", "sum"):
                    for first in (False, True):
                        qs.append({"form": "select", "proj": gb + ["c", "d"], "where": w, "groupby": [ev(x) for x in gb],
                                   "aggs": [agg(f, "v", first, as_="c"), agg(f, "v", not first, as_="d")]})
                qs.append({"form": "select", "proj": gb + ["c"], "where": w, "groupby": [ev(x) for x in gb], "aggs": [agg("sum", "v", as_="c")],
                           "having": {"agg": agg("sum", "v", True, as_="c"), "op": ">=", "n": 3}})
                qs.append({"form": "select", "proj": gb + ["c"], "where": w, "groupby": [ev(x) for x in gb], "aggs": [agg("count", "v", True, as_="c")],
                           "having": {"agg": agg("count", "v", as_="c"), "op": ">", "n": 1}})
    return qs


def expr_queries():
    """aggregates, group keys and sort keys that are expressions which are errors for some solutions; group keys that are not selected"""
    qs = []
    plus1 = lambda v: {"e": "+", "a": ev(v), "b": ec(N(1))}
    w_all = grp(bgp((V("s"), V("pp"), V("w"))))                              # ?w ranges over numbers, strings, IRIs, a blank node
    w_opt = grp(bgp((V("s"), I("p"), V("v"))), {"t": "optional", "g": grp(bgp((V("s"), I("q"), V("w"))))})
    for w, var in ((w_all, "w"), (w_opt, "w"), (w_opt, "v"), (grp(bgp((V("s"), I("p"), V("v")))), "v")):
        e1 = plus1(var)
        for gb in ([], ["s"]):
            for f in ("count", "min", "max", "sample", "sum", "avg"):
                for dist in (False, True):
                    if dist and f in ("min", "max", "sample"):
                        continue
                    a = {"f": f, "distinct": dist, "as": "a", "e": e1}
                    qs.append({"form": "select", "proj": gb + ["a"], "where": w, "groupby": [ev(x) for x in gb], "aggs": [a]})
        # GROUP BY (expr) without AS, isIRI(?x), and a plain key that is not selected
        for key in (e1, {"e": "isiri", "a": ev(var)}, ev(var), ev("s")):
            for a in (agg("count*"), agg("count", "s", True), agg("max", "s")):
                qs.append({"form": "select", "proj": ["a"], "where": w, "groupby": [key], "aggs": [a]})
                for desc in (False, True):
                    if key["e"] == "var":
                        # ORDER BY the group key, selected or not, and by the aggregate's alias
                        qs.append({"form": "select", "proj": ["a"], "where": w, "groupby": [key], "aggs": [a], "orderby": [{"e": key, "desc": desc}]})
                        qs.append({"form": "select", "proj": [key["v"], "a"], "where": w, "groupby": [key], "aggs": [a], "orderby": [{"e": key, "desc": desc}]})
                        qs.append({"form": "select", "proj": [key["v"], "a"], "where": w, "groupby": [key], "aggs": [a], "orderby": [{"e": ev("a"), "desc": desc}, {"e": key, "desc": not desc}]})
        # HAVING that only tests group keys (no aggregate in it), the key selected or not
        for hv in ({"e": "!=", "a": ev("s"), "b": ec(I("n1"))}, {"e": "isiri", "a": ev("s")}, {"e": "bound", "v": "s"}, {"e": "=", "a": ev("s"), "b": ev("s")}):
            for proj in (["a"], ["s", "a"]):
                for a in (agg("count*"), agg("max", var)):
                    qs.append({"form": "select", "proj": proj, "where": w, "groupby": [ev("s")], "aggs": [a], "having": {"e": hv}})
        # ORDER BY an expression that is an error for some solutions
        for desc in (False, True):
            for lim in (None, 2):
                q = {"form": "select", "proj": ["*"], "where": w, "orderby": [{"e": e1, "desc": desc}, {"e": ev("s"), "desc": False}]}
                if lim:
                    q["limit"] = lim
                qs.append(q)
                qs.append(dict(q, proj=["s", var]))
    return qs


# different terms with one lexical form (and true repetitions of one term) in a group
SAME_LEX = [[I("n1"), I("q"), S("1")], [I("n1"), I("q"), N(1)], [I("n1"), I("q"), {"k": "lit", "v": "1", "lang": "en"}], [I("n1"), I("p"), N(1)], [I("n2"), I("q"), S("chat")],
            [I("n2"), I("q"), {"k": "lit", "v": "chat", "lang": "en"}], [I("n2"), I("q"), {"k": "lit", "v": "chat", "lang": "fr"}], [I("n2"), I("p"), S("chat")], [I("n3"), I("q"), S("x")], [I("n3"), I("p"), S("x")]]


def bnode_pattern_queries():
    """blank nodes in the pattern (variables that are never projected) under DISTINCT / REDUCED / LIMIT / COUNT: several matches per projected row"""
    H = lambda n: {"k": "var", "v": n, "hidden": True}
    qs = []
    pats = [bgp((V("s"), I("p"), H("b1"))), bgp((V("s"), V("pp"), H("b1"))), bgp((H("b1"), I("p"), V("v"))), bgp((V("s"), I("p"), H("b1")), (V("s"), I("q"), H("b2"))),
            bgp((H("b1"), V("pp"), H("b2"))), bgp((V("s"), I("p"), H("b1")), (H("b1"), I("q"), V("w")))]
    for pt in pats:
        w = grp(pt)
        for proj in (["*"], ["s"], ["s", "pp"], ["v"]):
            for dist in (None, "distinct", "reduced"):
                for lim in (None, 2):
                    q = {"form": "select", "proj": proj, "where": w}
                    if dist:
                        q[dist] = True
                    if lim and dist != "reduced":
                        q["limit"] = lim
                    qs.append(q)
        qs.append({"form": "select", "proj": ["a"], "where": grp({"t": "subselect", "q": {"form": "select", "proj": ["s"], "distinct": True, "where": w}}), "groupby": [], "aggs": [agg("count*")]})
        qs.append({"form": "select", "proj": ["a"], "where": w, "groupby": [], "aggs": [agg("count", "s", True)]})
    return qs


def same_lex_queries():
    qs = []
    w = grp(bgp((V("s"), V("pp"), V("w"))))
    for gb in ([], ["s"]):
        for dist in (False, True):
            for sep in (" ", ";", ""):
                qs.append({"form": "select", "proj": gb + ["a"], "where": w, "groupby": [ev(x) for x in gb], "aggs": [agg("group_concat", "w", dist, sep=sep)]})
            for f in ("count", "sample", "min", "max"):
                qs.append({"form": "select", "proj": gb + ["a"], "where": w, "groupby": [ev(x) for x in gb], "aggs": [agg(f, "w", dist)]})
    for dist in ("distinct", None):
        q = {"form": "select", "proj": ["w"], "where": w}
        if dist:
            q[dist] = True
        qs.append(q)
    return qs


def D(n, d=1):
    return {"k": "dec", "n": n, "d": d}


# the same number written as different terms under the first sort key: the second key has to decide
MIXED_DATA = [
    [[I("n1"), I("p"), N(1)], [I("n2"), I("p"), D(1)], [I("n3"), I("p"), N(1)], [I("n4"), I("p"), D(2)], [I("n5"), I("p"), N(2)], [I("n6"), I("p"), D(1, 2)],
     [I("n1"), I("q"), S("c")], [I("n2"), I("q"), S("a")], [I("n3"), I("q"), S("b")], [I("n4"), I("q"), S("a")], [I("n5"), I("q"), S("b")]],
    [[I("n3"), I("p"), D(1)], [I("n2"), I("p"), N(1)], [I("n1"), I("p"), D(1)], [I("n1"), I("q"), S("x")], [I("n2"), I("q"), S("y")], [I("n3"), I("q"), S("z")]],
]


def mixed_queries():
    qs = []
    w1 = grp(bgp((V("s"), I("p"), V("v"))))
    w2 = grp(bgp((V("s"), I("p"), V("v"))), {"t": "optional", "g": grp(bgp((V("s"), I("q"), V("w"))))})
    for w in (w1, w2):
        for keys in ([("v", False), ("s", False)], [("v", False), ("s", True)], [("v", True), ("s", False)], [("v", True), ("s", True)], [("v", False), ("w", False)],
                     [("v", False), ("w", True)], [("v", True), ("w", True), ("s", False)]):
            if any(k == "w" for k, _ in keys) and w is w1:
                continue
            for lim in (None, 2, 3):
                q = {"form": "select", "proj": ["*"], "where": w, "orderby": [{"e": ev(k), "desc": d} for k, d in keys]}
                if lim:
                    q["limit"] = lim
                qs.append(q)
    return qs


def run(out, tier, seed):
    quick = tier == "quick"
    out.rule = ("queries: every combination of {no modifier, DISTINCT, REDUCED} x {no order, 10 ORDER BY key lists (ASC/DESC, 1-2 keys, unbound / mixed-kind keys)} x 4 projections x "
                "8 LIMIT/OFFSET settings over 6 WHERE patterns (duplicates, OPTIONAL-unbound, mixed kinds, empty); aggregate queries {implicit group, GROUP BY 1-2 keys incl. unbound keys} x "
                "18 aggregates (COUNT(*)/COUNT/SUM/AVG/MIN/MAX/SAMPLE/GROUP_CONCAT, DISTINCT forms, non-numeric SUM) and HAVING; over 4 data graphs incl. the empty one; "
                "TLC validates each answer with predicates (OrderedOK, SliceOK, ReducedOK, AggOK) where SPARQL leaves freedom; non-trivial = non-empty data")
    out.assumptions += ["order among literals of different families and among blank nodes is not constrained (partial key order)", "AVG checked exactly on integers (exact rationals)",
                        "GROUP_CONCAT judged when all values are strings, any order", "the query space is enumerated by a Python enumerator; TLC decides every case"]
    out.mc("MCSparql", "MC_SparqlAlg.cfg")
    rng = random.Random(seed)
    mq, aq = modifier_queries(), aggregate_queries()
    out.extra["modifier_queries"] = len(mq)
    out.extra["aggregate_queries"] = len(aq)
    jobs = []
    for di, d in enumerate(DATASETS):
        data = {"op": "data", "quads": [t + ["D"] for t in d], "graphs": []}
        for qi, q in enumerate(mq):
            if quick and (qi + di) % 4 != seed % 4:
                continue
            jobs.append({"cfg": {"facade": "graph"}, "events": [data, {"op": "query", "q": q}]})
        for qi, q in enumerate(aq):
            if quick and (qi + di) % 2 != seed % 2:
                continue
            jobs.append({"cfg": {"facade": "graph"}, "events": [data, {"op": "query", "q": q}]})
    xq = expr_queries()
    out.extra["expression_queries"] = len(xq)
    for di, d in enumerate(DATASETS[:3]):
        data = {"op": "data", "quads": [t + ["D"] for t in d], "graphs": []}
        for qi, q in enumerate(xq):
            if quick and (qi + di) % 2 != seed % 2:
                continue
            jobs.append({"cfg": {"facade": "graph"}, "events": [data, {"op": "query", "q": q}]})
    for di, d in enumerate(DATASETS[:3]):
        data = {"op": "data", "quads": [t + ["D"] for t in d], "graphs": []}
        for q in bnode_pattern_queries():
            jobs.append({"cfg": {"facade": "graph"}, "events": [data, {"op": "query", "q": q}]})
    data = {"op": "data", "quads": [t + ["D"] for t in SAME_LEX], "graphs": []}
    for q in same_lex_queries():
        jobs.append({"cfg": {"facade": "graph"}, "events": [data, {"op": "query", "q": q}]})
    for d in MIXED_DATA:
        for order in (0, 1):
            data = {"op": "data", "quads": [t + ["D"] for t in (d if order == 0 else list(reversed(d)))], "graphs": []}
            for q in mixed_queries():
                jobs.append({"cfg": {"facade": "graph"}, "events": [data, {"op": "query", "q": q}]})
    out.exhaustive = not quick
    out.conform(__name__, TRACE, jobs, nontrivial=nontrivial, chunk=400, par=16)
