"""C15 — query answers do not depend on how the query is written, prepared or stored."""
from __future__ import annotations

import copy
import json
import random

from .. import qgen
from ..qgen import I, N, V, bgp, grp
from ..sparql_replay import replay

PROP = "C15"
TRACE = "TraceQuery"


def execute(job):
    return replay(job["cfg"], job["events"])


def nontrivial(job, trace):
    return any(e["op"] in ("query", "run", "run_interleaved") for e in job["events"])


# ---------------------------------------------------------------- semantics-preserving rewrites
def rename_vars(x, m):
    if isinstance(x, dict):
        y = {k: rename_vars(v, m) for k, v in x.items()}
        if x.get("k") == "var" or x.get("e") in ("var", "bound"):
            y["v"] = m.get(x["v"], x["v"])
        if x.get("t") == "bind":
            y["v"] = m.get(x["v"], x["v"])
        if x.get("t") == "values":
            y["vars"] = [m.get(v, v) for v in x["vars"]]
        if "proj" in x and x["proj"] != ["*"]:
            y["proj"] = [m.get(v, v) for v in x["proj"]]
        return y
    if isinstance(x, list):
        return [rename_vars(v, m) for v in x]
    return x


def rewrites(q, rng):
    out = []
    w = q["where"]
    # permute the triple patterns of every BGP
    q1 = copy.deepcopy(q)
    changed = False
    def perm(g):
        nonlocal changed
        for e in g["elts"]:
            if e["t"] == "bgp" and len(e["tps"]) > 1:
                e["tps"] = list(reversed(e["tps"])); changed = True
            for k in ("g",):
                if k in e and isinstance(e[k], dict) and "elts" in e[k]:
                    perm(e[k])
            if e["t"] == "union":
                for x in e["gs"]:
                    perm(x)
    perm(q1["where"])
    if changed:
        out.append(("bgp-permuted", q1))
    # swap the operands of every UNION
    q2 = copy.deepcopy(q)
    ch2 = False
    def swap(g):
        nonlocal ch2
        for e in g["elts"]:
            if e["t"] == "union":
                e["gs"] = list(reversed(e["gs"])); ch2 = True
                for x in e["gs"]:
                    swap(x)
            elif "g" in e and isinstance(e["g"], dict) and "elts" in e["g"]:
                swap(e["g"])
    swap(q2["where"])
    if ch2:
        out.append(("union-swapped", q2))
    # swap the operands of a join: two leading joined elements (bgp / group / union / values) commute
    els = w["elts"]
    if len(els) >= 2 and els[0]["t"] in ("bgp", "group", "union", "values") and els[1]["t"] in ("bgp", "group", "union", "values"):
        q3 = copy.deepcopy(q)
        q3["where"]["elts"][0], q3["where"]["elts"][1] = q3["where"]["elts"][1], q3["where"]["elts"][0]
        out.append(("join-swapped", q3))
    # wrap the leading BGP in its own group: { A } . B  ==  A . B
    if els and els[0]["t"] == "bgp" and len(els) >= 2:
        q5 = copy.deepcopy(q)
        q5["where"]["elts"][0] = {"t": "group", "g": {"elts": [q5["where"]["elts"][0]]}}
        out.append(("group-wrapped", q5))
    # consistent renaming of variables
    names = sorted({v for v in json.dumps(q).split('"') if v in ("x", "y", "z", "w", "u", "k", "r")})
    m = {v: "v_" + v for v in names}
    out.append(("renamed", rename_vars(copy.deepcopy(q), m)))
    return out


def run(out, tier, seed):
    quick = tier == "quick"
    out.rule = ("(a) every query of the C04 systematic pool (outside the known scope-leak class) and each of its rewrites (BGP permuted, UNION operands swapped, join operands swapped, "
                "leading BGP wrapped in a group, variables renamed, IRIs spelt with PREFIX) judged against the same semantics; (b) initBindings for outermost-BGP variables vs VALUES; "
                "(c) prepared-query histories: prepare q1 q2, run on G1, mutate, run again, run q2, run on G2, two result iterators of one prepared query consumed alternately, with and without initBindings; "
                "(d) the same data behind Memory, SimpleMemory, AuditableStore and a ReadOnlyGraphAggregate; every run validated by TLC; non-trivial = every case with a query")
    out.assumptions += ["a prepared query has no state in the specification: run i must equal a fresh evaluation on the graph at that moment",
                        "initBindings are compared with a VALUES row only for variables the outermost BGP binds"]
    out.mc("MCSparql", "MC_SparqlAlg.cfg")
    rng = random.Random(seed)
    wheres = [w for w in qgen.systematic() if not qgen.scope_leak(w) and '"graph"' not in json.dumps(w)]
    rng.shuffle(wheres)
    special = [w for w in wheres if '"subselect"' in json.dumps(w) and ('"optional"' in json.dumps(w) or '"union"' in json.dumps(w))]
    # (the pool keeps growing: families that a seeded change once needed are kept in the quick sample by name, not by luck of the shuffle)
    def block_after(w, kinds=("minus", "values", "union", "group")):
        ts = [e["t"] for e in w["elts"]]
        return any(ts[i] in kinds and "bgp" in ts[i + 1:] for i in range(len(ts)))
    after = [w for w in wheres if block_after(w)]
    sel = (special[:150 if quick else 600] + after[:80 if quick else 400] + wheres)[:560 if quick else 2400]
    jobs = []
    G1 = [[I("n1"), I("p"), N(1)], [I("n1"), I("q"), I("n1")], [I("n2"), I("p"), N(2)], [I("n2"), I("q"), N(1)], [I("n1"), I("p"), I("n2")], [I("n2"), I("q"), I("n3")]]
    stores = [("graph", "Memory"), ("graph", "SimpleMemory"), ("graph", "Auditable"), ("aggregate", "Memory"), ("graph_shared", "Memory"), ("graph_shared", "Auditable")]
    nrew = 0
    # IRIs whose local part has characters a prefixed name must escape: written out in full and as x:... with PN_LOCAL_ESC
    REN = {"n1": "n.1", "n2": "n,2", "n3": "n~3", "p": "p(x)", "q": "q;a=b"}

    def ren(x):
        if isinstance(x, dict):
            if x.get("k") == "iri" and x.get("v") in REN:
                return dict(x, v=REN[x["v"]])
            return {k: ren(v) for k, v in x.items()}
        return [ren(v) for v in x] if isinstance(x, list) else x
    for i, w in enumerate(sel[:: (12 if quick else 3)]):
        data = {"op": "data", "quads": [ren(t) + ["D"] for t in G1], "graphs": []}
        for pf in (False, "esc"):
            jobs.append({"cfg": {"facade": "graph", "store": "Memory"}, "events": [data, {"op": "query", "q": ren({"form": "select", "proj": ["*"], "where": w}), "prefixed": pf, "rewrite": "pn-local-esc"}]})
    for i, w in enumerate(sel):
        data = {"op": "data", "quads": [t + ["D"] for t in (G1 if i % 2 == 0 else qgen.random_graph(rng))], "graphs": []}
        q = {"form": "select", "proj": ["*"], "where": w}
        variants = [("original", q)] + rewrites(q, rng)
        for vi, (name, qv) in enumerate(variants):
            fac, st = stores[(i + vi) % len(stores)]
            jobs.append({"cfg": {"facade": fac, "store": st}, "events": [data, {"op": "query", "q": qv, "prefixed": [False, True, "base-rel", "two"][(i + vi) % 4], "rewrite": name}]})
            nrew += name != "original"
        # (b) initBindings on outermost-BGP variables
        first = w["elts"][0]
        if first["t"] == "bgp":
            vs = sorted({x["v"] for tp in first["tps"] for x in tp if x.get("k") == "var"})
            if vs:
                v = vs[i % len(vs)]
                for val in (I("n1"), N(1), I("n2")):
                    jobs.append({"cfg": {"facade": "graph", "store": stores[i % 3][1]},
                                 "events": [data, {"op": "query", "q": q, "init": {"vars": [v], "rows": [[val]]}}]})
    # trailing VALUES vs initBindings on a variable of the outermost BGP that an OPTIONAL's FILTER uses
    optf = [w for w in wheres if len(w["elts"]) == 2 and w["elts"][1]["t"] == "optional" and any(e["t"] == "filter" for e in w["elts"][1]["g"]["elts"])
            and w["elts"][0]["t"] == "bgp"]
    for i, w in enumerate(optf):
        vs = sorted({x["v"] for tp in w["elts"][0]["tps"] for x in tp if x.get("k") == "var"})
        for v in vs:
            for val in (N(1), N(2), I("n1"), I("n2")):
                for gi, gdata in enumerate((G1, qgen.random_graph(rng))):
                    data = {"op": "data", "quads": [t + ["D"] for t in gdata], "graphs": []}
                    q = {"form": "select", "proj": ["*"], "where": w}
                    jobs.append({"cfg": {"facade": "graph", "store": "Memory"}, "events": [data, {"op": "query", "q": q, "init": {"vars": [v], "rows": [[val]]}}]})
                    jobs.append({"cfg": {"facade": "graph", "store": "Memory"}, "events": [data, {"op": "query", "q": dict(q, postvalues={"vars": [v], "rows": [[val]]})}]})
                    jobs.append({"cfg": {"facade": "graph", "store": "SimpleMemory"},
                                 "events": [data, {"op": "prepare", "id": "q", "q": dict(q, postvalues={"vars": [v], "rows": [[val]]})}, {"op": "run", "id": "q"}, {"op": "run", "id": "q"}]})
    # initBindings for a variable that a later BGP binds, next to a sub-select / nested group / UNION that does not mention it
    # (joined before or after that BGP): the pre-bound value has to survive the join with the other operand's solutions
    for i, (yb, yv) in enumerate([(bgp((V("x"), I("p"), V("y"))), "y"), (bgp((V("y"), I("q"), V("x"))), "y"), (bgp((V("x"), V("y"), V("o"))), "y")]):
        others = [{"t": "subselect", "q": {"form": "select", "proj": ["x"], "distinct": False, "where": grp(bgp((V("x"), I("q"), V("z"))))}},
                  {"t": "subselect", "q": {"form": "select", "proj": ["x"], "distinct": True, "where": grp(bgp((V("x"), I("p"), V("z"))))}},
                  {"t": "group", "g": grp(bgp((V("x"), I("q"), V("z"))))},
                  {"t": "union", "gs": [grp(bgp((V("x"), I("q"), V("z")))), grp(bgp((V("x"), I("p"), V("w"))))]},
                  {"t": "values", "vars": ["x"], "rows": [[I("n1")], [I("n2")], [I("n1")]]}]
        for oi, other in enumerate(others):
            for w in (grp(other, yb), grp(yb, other), grp(other, yb, {"t": "optional", "g": grp(bgp((V("x"), I("q"), V("k"))))})):
                for val in ((I("p"), I("q")) if yb["tps"][0][1].get("k") == "var" else (N(1), N(2), I("n1"), I("n2"), I("n3"))):
                    for gi, gdata in enumerate((G1, qgen.random_graph(rng), qgen.wide_graph(rng, 8, 12))):
                        data = {"op": "data", "quads": [t + ["D"] for t in gdata], "graphs": []}
                        q = {"form": "select", "proj": ["*"], "where": w}
                        st = stores[(i + oi + gi) % 3][1]
                        jobs.append({"cfg": {"facade": "graph", "store": st}, "events": [data, {"op": "query", "q": q, "init": {"vars": [yv], "rows": [[val]]}}]})
                        if gi == 0:
                            jobs.append({"cfg": {"facade": "graph", "store": st}, "events": [data, {"op": "prepare", "id": "q", "q": q}, {"op": "run", "id": "q"},
                                                                                             {"op": "run", "id": "q", "init": {"vars": [yv], "rows": [[val]]}}, {"op": "run", "id": "q"}]})
    # the same query text whose prefix is declared only through initNs, evaluated in one process under two different namespaces
    for i, w in enumerate(sel[:60 if quick else 400]):
        data = {"op": "data", "quads": [t + ["D"] for t in (G1 if i % 2 == 0 else qgen.random_graph(rng))], "graphs": []}
        q = {"form": "select", "proj": ["*"], "where": w}
        order = [("alt", "main"), ("main", "alt", "main")][i % 2]
        jobs.append({"cfg": {"facade": "graph", "store": stores[i % 3][1]}, "events": [data] + [{"op": "query", "q": q, "initns": ns} for ns in order]})
    out.extra["rewrites"] = nrew
    # (c) prepared-query histories
    for i in range(200 if quick else 1500):
        w1, w2 = rng.choice(sel), rng.choice(sel)
        q1 = {"form": "select", "proj": ["*"], "where": w1}
        q2 = {"form": rng.choice(["select", "ask"]), "proj": ["*"], "where": w2}
        d1 = {"op": "data", "quads": [t + ["D"] for t in G1], "graphs": []}
        d1b = {"op": "data", "quads": [t + ["D"] for t in G1[:3] + qgen.random_graph(rng, 3)], "graphs": []}
        d2 = {"op": "data", "quads": [t + ["D"] for t in qgen.random_graph(rng)], "graphs": []}
        w1 = next((w for w in [w1] + sel if w["elts"][0]["t"] == "bgp" and any(x.get("k") == "var" for tp in w["elts"][0]["tps"] for x in tp)), w1)
        q1 = {"form": "select", "proj": ["*"], "where": w1}
        vs1 = sorted({x["v"] for tp in w1["elts"][0]["tps"] for x in tp if x.get("k") == "var"})
        init = {"vars": [vs1[i % len(vs1)]], "rows": [[rng.choice([I("n1"), I("n2"), N(1)])]]}
        evs = [d1, {"op": "prepare", "id": "q1", "q": q1}, {"op": "prepare", "id": "q2", "q": q2},
               {"op": "run", "id": "q1"}, {"op": "run", "id": "q1"}, d1b, {"op": "run", "id": "q1"}, {"op": "run", "id": "q2", "form": q2["form"]},
               {"op": "run", "id": "q1", "init": init}, {"op": "run", "id": "q1"}, d2, {"op": "run", "id": "q1"},
               {"op": "run_interleaved", "id": "q1"}, {"op": "run_interleaved", "id": "q1", "init": init}, {"op": "run", "id": "q2", "form": q2["form"]}, d1, {"op": "run", "id": "q1"}]
        jobs.append({"cfg": {"facade": "graph", "store": stores[i % 3][1]}, "events": evs})
    out.conform(__name__, TRACE, jobs, nontrivial=nontrivial, chunk=300, par=16)
