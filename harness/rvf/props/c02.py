"""C02 — Dataset keeps named graphs isolated; the union view is the union of its graphs."""
from __future__ import annotations

import random

from .. import tlc
from ..store_replay import replay
from .c01 import universe_consts

PROP = "C02"
TRACE = "TraceStore"
MUT = {"add", "addN", "addN_view", "remove", "graph", "remove_graph"}


def execute(job):
    return replay(job["cfg"], job["events"])


def nontrivial(job, trace):
    return any(e["op"] in MUT for e in job["events"])


def decorate(h, i):
    """choose, per history, how each op reaches the store: through a view or through the dataset, graph given as object or id"""
    out = []
    for j, e in enumerate(h):
        e = dict(e)
        k = (i + j) % 4
        if e["op"] in ("add", "remove") and e.get("g") != "*":
            e["via"] = "ds" if k in (0, 1) else "view"
            e["how"] = "obj" if k in (0, 2) else "id"
        if e["op"] == "remove_graph":
            e["how"] = "id" if k % 2 else "obj"
        if e["op"] == "addN" and k in (1, 3) and (i + j) % 3:
            # the same quads through the bulk interface of the view of one of the graphs they name (or of another graph)
            names = sorted({q[3] for q in e["qs"]})
            e["op"], e["g"], e["how"] = "addN_view", (names[(i + j) % len(names)] if (i + j) % 5 else "g1"), ("batch" if k == 3 else ("direct" if ((i + j) // 4) % 2 else "equal_id"))
        out.append(e)
    return out


def random_history(rng, U, names, n, dataset=True):
    S, P, O = U
    evs = []
    for _ in range(n):
        r = rng.random()
        g = rng.choice(names)
        t = [rng.choice(S), rng.choice(P), rng.choice(O)]
        if r < 0.45:
            evs.append({"op": "add", "g": g, "t": t})
        elif r < 0.65:
            pat = [x if rng.random() < 0.55 else "_" for x in t]
            evs.append({"op": "remove", "g": g if rng.random() < 0.75 else "*", "pat": pat})
        elif r < 0.75:
            qs = [[rng.choice(S), rng.choice(P), rng.choice(O), rng.choice(names)] for _ in range(rng.randint(1, 3))]
            evs.append({"op": "addN", "qs": [list(x) for x in sorted({tuple(q) for q in qs})]})
        elif dataset and r < 0.85:
            evs.append({"op": "graph", "g": rng.choice([x for x in names if x != "D"])})
        elif dataset:
            evs.append({"op": "remove_graph", "g": g})
        else:
            evs.append({"op": "add", "g": g, "t": t})
    return evs


def run(out, tier, seed):
    quick = tier == "quick"
    out.rule = ("histories: every TLC-exported behaviour of TripleStore.tla (dataset alphabet: add/addN/remove/remove-everywhere/graph/remove_graph over "
                "default, IRI-named and bnode-named graphs) up to the depth bound, plus seeded long histories; replayed through Dataset (default_union on/off) "
                "and ConjunctiveGraph, mutations routed through the dataset API and through independently obtained views; non-trivial = has a mutating op; "
                "distinct = distinct (configuration, decorated history)")
    out.assumptions += ["graphs() may or may not list a graph that was only implicitly created and is now empty (the statement does not say); explicitly created graphs, non-empty graphs and the default graph must be listed",
                        "with default_union the dataset-level view of the default graph is the union by definition"]
    out.mc("TripleStore", "MC_TripleStore_quick.cfg" if quick else "MC_TripleStore.cfg")
    out.mc("MemoryStore", "MC_MemoryStore_ds.cfg")
    S, P, O = ["s1"], ["p1"], ["o1", "o2"]
    names = ["D", "g1", "b1"]
    base = {"S": S, "P": P, "O": O, "names": names}
    depth = 2 if quick else 3
    ops_ds = ["add", "addN", "remove", "remove_all", "graph", "remove_graph"] if quick else ["add", "remove", "remove_all", "graph", "remove_graph"]
    r, hs = tlc.gen_histories("TripleStore", universe_consts(S, P, O, names, ops_ds, depth))
    out.states += r.distinct
    out.transitions += r.generated
    r2, hs_cg = tlc.gen_histories("TripleStore", universe_consts(S, P, O, names, ["add", "addN", "remove", "remove_all"], 2))
    out.states += r2.distinct
    out.transitions += r2.generated
    out.extra["exhaustive_histories"] = {"depth": depth, "dataset": len(hs), "conjunctive": len(hs_cg), "universe": [S, P, O], "names": names}
    jobs = []
    for i, h in enumerate(hs):
        for du in ((False, True) if (not quick or True) else (bool(i % 2),)):
            jobs.append({"cfg": dict(base, facade="dataset", default_union=du, vocab=["plain", "falsy"][i % 2]), "events": decorate(h, i)})
    for i, h in enumerate(hs_cg):
        jobs.append({"cfg": dict(base, facade="cg", default_union=True, vocab="plain"), "events": decorate(h, i)})
    out.exhaustive = True
    rng = random.Random(seed)
    U3 = (["s1", "s2"], ["p1", "p2"], ["o1", "o2", "o3"])
    names4 = ["D", "g1", "g2", "b1"]
    for i in range(500 if quick else 5000):
        fac = ["dataset", "dataset", "cg"][i % 3]
        evs = random_history(rng, U3, names4, rng.randint(6, 25 if quick else 45), dataset=fac == "dataset")
        jobs.append({"cfg": dict(S=U3[0], P=U3[1], O=U3[2], names=names4, facade=fac, default_union=(fac == "cg" or i % 2 == 0),
                                 vocab=["plain", "falsy", "hostile", "typed"][i % 4], obs="all" if i % 5 == 0 else "last"), "events": decorate(evs, i)})
    # property paths as predicates of patterns asked of the dataset itself: nodes that are subjects and objects, edges spread over the graphs
    I_ = lambda x: {"op": "iri", "iri": x}
    PATHS = [{"op": "seq", "args": [I_("p1"), I_("p2")]}, {"op": "seq", "args": [I_("p1"), I_("p1")]}, {"op": "alt", "args": [I_("p1"), I_("p2")]}, {"op": "inv", "arg": I_("p1")},
             {"op": "plus", "arg": I_("p1")}, {"op": "star", "arg": I_("p2")}, {"op": "opt", "arg": I_("p1")}, {"op": "neg", "fwd": ["p1"], "inv": []},
             {"op": "seq", "args": [{"op": "inv", "arg": I_("p1")}, I_("p2")]}, {"op": "plus", "arg": {"op": "alt", "args": [I_("p1"), I_("p2")]}}]
    UN = (["n1", "n2", "n3"], ["p1", "p2"], ["n1", "n2", "n3"])
    for i in range(120 if quick else 1500):
        fac = ["dataset", "dataset", "cg"][i % 3]
        evs = random_history(rng, UN, ["D", "g1", "b1"], rng.randint(5, 14), dataset=fac == "dataset")
        jobs.append({"cfg": dict(S=UN[0], P=UN[1], O=UN[2], names=["D", "g1", "b1"], facade=fac, default_union=(fac == "cg" or i % 2 == 0), vocab="plain", obs="last",
                                 paths=[PATHS[(i + k) % len(PATHS)] for k in range(4)]), "events": decorate(evs, i)})
    out.conform(__name__, TRACE, jobs, nontrivial=nontrivial, chunk=600)
    # graph views of one dataset under the Graph-level API (a -= on one view must not reach into the other graphs): TraceGraphAlgebra.tla
    from . import g04
    g04.add_jobs(out, tier, seed, stores=["shared", "shared_default", "mixed", "mixed_hidden"], label="graph-api-views")
