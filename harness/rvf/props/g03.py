"""G03 (growth; also run by C01's thorough tier) — the repository's own tests, run with the Memory-store hooks on,
produce traces that TraceMemory.tla accepts: after every add / remove of every store instance the store's len() and the
context's len() equal what the history implies."""
from __future__ import annotations

import collections
import glob
import json
import os
import shutil
import subprocess

from .. import tlc

PROP = "G03"
TRACE = "TraceMemory"
REPO = os.environ.get("RVF_REPO", "/repo")
TARGETS = ["test/test_graph", "test/test_dataset", "test/test_conjunctivegraph", "test/test_store", "test/test_sparql", "test/test_misc", "test/test_parsers",
           "test/test_serializers", "test/test_namespace", "test/test_trig.py", "test/test_n3.py", "test/test_issues", "test/test_extras", "test/test_path.py", "test/test_util.py"]


def execute(job):
    return {"cfg": job["cfg"], "ev": job["events"]}


def nontrivial(job, trace):
    return len(job["events"]) >= 2


def vclass(job, trace, at):
    return job["events"][at - 1]["op"] + "|" + job["cfg"].get("target", "")


def record(targets, max_events=400):
    """run the repository's tests with the hooks on; return one job per store instance"""
    d = tlc.scratch("rvf-vtrace-")
    jobs = []
    try:
        procs = []
        for i, t in enumerate(targets):
            if not os.path.exists(os.path.join(REPO, t)):
                continue
            td = os.path.join(d, "t%d" % i)
            os.mkdir(td)
            env = dict(os.environ, RDFLIB_VERIF="1", RDFLIB_VERIF_TRACE=td, PYTHONDONTWRITEBYTECODE="1")
            procs.append((t, td, subprocess.Popen(["/venv/bin/python", "-B", "-m", "pytest", "-q", "-p", "no:cacheprovider", "--timeout=600", "-x" if False else "-q", t],
                                                  cwd=REPO, env=env, stdout=subprocess.DEVNULL, stderr=subprocess.DEVNULL)))
        for t, td, p in procs:
            p.wait()
            by = collections.defaultdict(list)
            for f in glob.glob(os.path.join(td, "*.ndjson")):
                for line in open(f):
                    try:
                        r = json.loads(line)
                    except ValueError:
                        continue
                    by[(r["pid"], r["sid"])].append(r)
            for key, evs in by.items():
                evs.sort(key=lambda r: r["seq"])
                evs = [{k: v for k, v in r.items() if k not in ("pid", "sid", "seq")} for r in evs[:max_events]]
                jobs.append({"cfg": {"target": t}, "events": evs})
    finally:
        shutil.rmtree(d, ignore_errors=True)
    return jobs


def add_jobs(out, quick):
    jobs = record(TARGETS[:6] if quick else TARGETS)
    out.extra["recorded_store_traces"] = len(jobs)
    out.extra["recorded_events"] = sum(len(j["events"]) for j in jobs)
    out.conform(__name__, TRACE, jobs, nontrivial=nontrivial, chunk=600, par=16, heap="2g", label="repo-tests")


def run(out, tier, seed):
    out.rule = ("every Memory store instance created while the repository's own tests run (test_graph, test_dataset, test_conjunctivegraph, test_store, test_sparql, test_misc, test_parsers, ... with RDFLIB_VERIF=1): "
                "its add / remove events, terms interned, up to 60 triples / 400 events per store; TLC recomputes the quad set from the history and compares len(store) and len(store, context) after every event")
    out.assumptions += ["stores that hold quoted (formula) statements, receive add() without a context, or grow past 60 triples are traced only up to that point"]
    add_jobs(out, tier == "quick")
