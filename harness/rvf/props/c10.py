"""C10 — SPARQL Update changes the dataset exactly as the Update semantics prescribe."""
from __future__ import annotations

import itertools
import random

from ..qgen import I, N, S, V, bgp, ec, ev, grp
from ..update_replay import replay

PROP = "C10"
TRACE = "TraceUpdate"
BN = lambda l: {"k": "bnode", "v": l}


def execute(job):
    return replay(job["cfg"], job["events"])


def nontrivial(job, trace):
    return any(e["op"] == "update" for e in job["events"])


T = [[I("n1"), I("p"), N(1)], [I("n2"), I("p"), N(2)], [I("n1"), I("q"), I("n2")], [I("n3"), I("p"), N(3)]]


def datasets():
    """distributions of triples over D, g1, g2 (incl. shared triples, empty graphs)"""
    out = []
    for a, b, c in itertools.product(range(4), repeat=3):
        out.append([T[0] + [["D", "g1", "g2", "D"][a]], T[1] + [["D", "g1", "g2", "g1"][b]], T[2] + [["D", "g1", "g2", "g2"][c]]] + ([T[0] + ["g1"]] if a == 3 else []) + ([T[3] + ["D"]] if b == 3 else []))
    out.append([T[0] + ["D"], T[1] + ["D"], T[3] + ["D"]])
    for g in ("D", "g1"):      # one subject with consecutive values: an increment's insertion is another solution's deletion
        out.append([[I("n1"), I("p"), N(1), g], [I("n1"), I("p"), N(2), g], [I("n1"), I("p"), N(3), g]])
        out.append([[I("n1"), I("p"), N(2), g], [I("n1"), I("p"), N(1), g], [I("n2"), I("p"), N(2), g]])
    # chains a -> b -> c -> d under one predicate, stored front to back and back to front
    chain = [[I("n1"), I("p"), I("n2")], [I("n2"), I("p"), I("n3")], [I("n3"), I("p"), I("n4")], [I("n4"), I("p"), I("n5")]]
    for g in ("D", "g1"):
        out.append([t + [g] for t in chain])
        out.append([t + [g] for t in reversed(chain)])
        out.append([t + [g] for t in chain[:2]] + [[I("n3"), I("p"), I("n1"), g]])
    # a chain with a shared middle: deleting for one solution removes what another solution matched
    for g in ("D", "g1"):
        out.append([[I("n1"), I("p"), I("n2"), g], [I("n2"), I("q"), I("n3"), g], [I("n3"), I("p"), I("n2"), g]])
    # blank nodes in the store that carry the labels the requests write (_:x, _:m): request labels are fresh nodes all the same
    out.append([[BN("x"), I("p"), N(1), "D"], [I("n1"), I("q"), BN("x"), "g1"], [BN("m"), I("p"), N(2), "D"]])
    out.append([[BN("x"), I("p"), N(1), "g1"], [BN("m"), I("val"), N(1), "D"], [I("n1"), I("p"), N(1), "D"]])
    out.append([])
    return out


def mod(where, dele=(), ins=(), with_="", using=(), usingnamed=()):
    return {"u": "modify", "with": with_, "del": [list(q) for q in dele], "ins": [list(q) for q in ins], "using": list(using), "usingnamed": list(usingnamed), "where": where}


SPO = bgp((V("s"), I("p"), V("o")))


def requests():
    rs = []
    Q = lambda t, g="": list(t) + [g if isinstance(g, dict) else {"k": "g", "v": g}]
    # data operations
    for g in ("", "g1", "g3"):
        rs.append([{"u": "insertdata", "quads": [Q(T[3], g), Q(T[0], g)]}])
        rs.append([{"u": "deletedata", "quads": [Q(T[0], g), Q(T[3], g)]}])
    rs.append([{"u": "insertdata", "quads": [Q(T[3], ""), Q(T[3], "g1"), Q((I("n9"), I("p"), BN("x")), ""), Q((BN("x"), I("q"), N(9)), "g1")]}])
    # the same graph named by two GRAPH blocks of one request (and the default part written twice)
    T9 = [I("n9"), I("p"), N(9)]
    rs.append([{"u": "insertdata", "split": True, "quads": [Q(T[3], "g1"), Q(T[0], "g2"), Q(T9, "g1")]}])
    rs.append([{"u": "insertdata", "split": True, "quads": [Q(T[3], ""), Q(T[0], "g1"), Q(T9, "")]}])
    rs.append([{"u": "deletedata", "split": True, "quads": [Q(T[0], "g1"), Q(T[1], "g2"), Q(T[1], "g1"), Q(T[2], "g1")]}])
    rs.append([dict(mod(grp(SPO), dele=[Q((V("s"), I("p"), V("o")), "g1"), Q((V("s"), I("p"), V("o")), "g2"), Q((V("s"), I("q"), V("o")), "g1")],
                        ins=[Q((V("s"), I("r"), V("o")), "g1"), Q((V("s"), I("r"), V("o")), ""), Q((V("o"), I("r"), V("s")), "g1")]), split=True)])
    # delete where
    # ... whose pattern has no variable: it deletes only if ALL of it is there
    rs.append([{"u": "deletewhere", "quads": [Q(T[0]), Q(T[3])]}])
    rs.append([{"u": "deletewhere", "quads": [Q(T[0]), Q(T[1], "g1")]}])
    rs.append([{"u": "deletewhere", "quads": [Q(T[0], "g1"), Q(T[1], "g1"), Q(T[2], "g2")]}])
    rs.append([{"u": "deletewhere", "quads": [Q(T[0])]}])
    rs.append([{"u": "deletewhere", "quads": [Q((V("s"), I("p"), V("o")))]}])
    rs.append([{"u": "deletewhere", "quads": [Q((V("s"), I("p"), V("o")), "g1")]}])
    rs.append([{"u": "deletewhere", "quads": [Q((V("s"), I("p"), V("o")), V("g"))]}])
    rs.append([{"u": "deletewhere", "quads": [Q((V("s"), I("p"), V("o"))), Q((V("s"), I("q"), V("x")))]}])
    rs.append([{"u": "deletewhere", "quads": [Q((V("x"), I("p"), V("y"))), Q((V("y"), I("q"), V("z")))]}])
    rs.append([{"u": "deletewhere", "quads": [Q((V("x"), I("p"), V("y")), "g1"), Q((V("y"), I("q"), V("z")), "g1")]}])
    # GRAPH ?v in a template whose ?v is unbound for some solutions, bound to a literal or bound to an IRI from the data
    optw = grp(SPO, {"t": "optional", "g": grp(bgp((V("s"), I("q"), V("w"))))})
    rs.append([mod(optw, ins=[Q((V("s"), I("r"), V("o")), V("w"))])])
    rs.append([mod(optw, dele=[Q((V("s"), I("p"), V("o")), V("w")), Q((V("s"), I("p"), V("o")))], ins=[Q((V("s"), I("r"), V("o")), V("w")), Q((V("s"), I("r2"), V("o")))])])
    rs.append([mod(grp(SPO), ins=[Q((V("s"), I("r"), V("o")), V("o"))])])
    rs.append([mod(grp(SPO), ins=[Q((V("s"), I("r"), V("o")), V("nope"))])])
    rs.append([mod(grp(SPO), dele=[Q((V("s"), I("p"), V("o")), V("o"))], ins=[Q((V("o"), I("r"), V("s")), V("s"))])])
    # DELETE without INSERT whose WHERE looks (EXISTS / NOT EXISTS / OPTIONAL) at triples the template removes for another solution
    xpy = bgp((V("x"), I("p"), V("y")))
    for inner in (bgp((V("y"), I("p"), V("z"))), bgp((V("z"), I("p"), V("x"))), bgp((V("y"), I("q"), V("z")))):
        for k in ("exists", "notexists"):
            rs.append([mod(grp(xpy, {"t": "filter", "e": {"e": k, "g": grp(inner)}}), dele=[Q((V("x"), I("p"), V("y")))])])
            rs.append([mod(grp(xpy, {"t": "filter", "e": {"e": k, "g": grp(inner)}}), with_="g1", dele=[Q((V("x"), I("p"), V("y")))])])
        rs.append([mod(grp(xpy, {"t": "optional", "g": grp(inner)}), dele=[Q((V("x"), I("p"), V("y"))), Q((V("y"), I("p"), V("z")))])])
    # modify: one solution's insertion is another solution's deletion
    inc = grp(SPO, {"t": "bind", "e": {"e": "+", "a": ev("o"), "b": ec(N(1))}, "v": "n"})
    rs.append([mod(inc, dele=[Q((V("s"), I("p"), V("o")))], ins=[Q((V("s"), I("p"), V("n")))])])
    rs.append([mod(inc, dele=[Q((V("s"), I("p"), V("n")))], ins=[Q((V("s"), I("p"), V("o")))])])
    rs.append([mod(grp(SPO), dele=[Q((V("s"), I("p"), V("o")))], ins=[Q((V("s"), I("p"), N(2)))])])
    rs.append([mod(grp(SPO), dele=[Q((V("s"), I("p"), N(2)))], ins=[Q((V("s"), I("r"), V("o")))])])
    rs.append([mod(grp(SPO), dele=[Q((V("s"), I("p"), V("o")))], ins=[Q((V("o"), I("p"), V("s"))), Q((V("s"), I("r"), V("zz")))])])   # illegal / unbound skipped
    # template blank nodes: fresh per solution, shared between default and GRAPH parts
    rs.append([mod(grp(SPO), ins=[Q((V("s"), I("has"), BN("m"))), Q((BN("m"), I("val"), V("o")))])])
    rs.append([mod(grp(SPO), ins=[Q((V("s"), I("has"), BN("m"))), Q((BN("m"), I("val"), V("o")), "g1")])])
    # WITH / USING / USING NAMED / GRAPH in templates and patterns
    gq = grp({"t": "graph", "name": V("g"), "g": grp(SPO)})
    rs.append([mod(grp(SPO), with_="g1", dele=[Q((V("s"), I("p"), V("o")))], ins=[Q((V("s"), I("r"), V("o")))])])
    rs.append([mod(grp(SPO), with_="g1", ins=[Q((V("s"), I("r"), V("o"))), Q((V("s"), I("r2"), V("o")), "g2")])])
    rs.append([mod(grp(SPO), with_="g1", using=["g2"], dele=[Q((V("s"), I("p"), V("o")))], ins=[Q((V("s"), I("r"), V("o")))])])
    rs.append([mod(grp(SPO), using=["g1", "g2"], ins=[Q((V("s"), I("r"), V("o")))])])
    rs.append([mod(gq, usingnamed=["g1"], ins=[Q((V("s"), I("r"), V("o")))])])
    rs.append([mod(gq, with_="g2", usingnamed=["g1"], ins=[Q((V("s"), I("r"), V("o")))])])
    rs.append([mod(gq, dele=[Q((V("s"), I("p"), V("o")), V("g"))], ins=[Q((V("s"), I("r"), V("g")))])])
    rs.append([mod(gq, ins=[Q((V("s"), I("p"), V("o")), "g3")])])
    rs.append([mod(grp(SPO, {"t": "filter", "e": {"e": "notexists", "g": grp({"t": "graph", "name": I("g1"), "g": grp(SPO)})}}), ins=[Q((V("s"), I("p"), V("o")), "g1")])])
    # graph management
    for t in ("DEFAULT", "NAMED", "ALL", "g1", "g9"):
        for k in ("clear", "drop"):
            rs.append([{"u": k, "target": t, "silent": True}])
    for k in ("add", "move", "copy"):
        for f, t in (("DEFAULT", "g1"), ("g1", "DEFAULT"), ("g1", "g2"), ("g1", "g1"), ("DEFAULT", "DEFAULT"), ("g1", "g3"), ("g9", "g1")):
            rs.append([{"u": k, "from": f, "to": t, "silent": True}])
    # two operations in one request: the second reads what the first wrote
    rs.append([{"u": "insertdata", "quads": [Q(T[3], "")]}, mod(grp(SPO), dele=[Q((V("s"), I("p"), V("o")))], ins=[Q((V("s"), I("q2"), V("o")))])])
    rs.append([mod(grp(SPO), ins=[Q((V("s"), I("p"), V("o")), "g3")]), {"u": "copy", "from": "g3", "to": "g1", "silent": True}, {"u": "drop", "target": "g3", "silent": True}])
    rs.append([{"u": "move", "from": "g1", "to": "DEFAULT", "silent": True}, {"u": "deletewhere", "quads": [Q((V("s"), I("p"), V("o")))]}])
    return rs


def only_default(req):
    import json
    s = json.dumps(req)
    if any(x in s for x in ('"g1"', '"g2"', '"g3"', '"g9"', '"graph"', '"NAMED"', '"ALL"')):
        return False
    for u in req:
        for key in ("quads", "del", "ins"):
            for q in u.get(key, []):
                if q[3] != {"k": "g", "v": ""}:
                    return False
        if u.get("using") or u.get("usingnamed") or u.get("with"):
            return False
    return True


def run(out, tier, seed):
    quick = tier == "quick"
    out.rule = ("requests: 70 shapes - INSERT/DELETE DATA (default + GRAPH parts, blank nodes), DELETE WHERE (default, GRAPH <g>, GRAPH ?g), DELETE/INSERT/WHERE whose insertions collide with other "
                "solutions' deletions, unbound / illegal template triples, template blank nodes shared between default and GRAPH parts, WITH, USING, USING NAMED, GRAPH ?g in templates, CLEAR/DROP x "
                "{DEFAULT, NAMED, ALL, <g>, <missing>}, ADD/MOVE/COPY incl. source = target and missing graphs, multi-operation requests; datasets: all 64 distributions of 3 triples over {default, g1, g2} "
                "plus variants; through Dataset and ConjunctiveGraph (default-graph-is-union on/off) and Graph; non-trivial = every case; distinct = distinct (request, dataset, config)")
    out.assumptions += ["LOAD / CREATE not exercised (network; rdflib raises by design)", "whether an emptied graph still exists is not compared, only the quads",
                        "SILENT is always given for graph management on possibly-missing graphs (signalling failure is a SHOULD)"]
    out.mc("MCSparql", "MC_SparqlAlg.cfg")
    out.mc("MCSparqlUpdate", "MC_SparqlUpdate.cfg")
    rs = requests()
    ds = datasets()
    out.extra["request_shapes"] = len(rs)
    out.extra["datasets"] = len(ds)
    jobs = []
    rng = random.Random(seed)
    for ri, r in enumerate(rs):
        for di, d in enumerate(ds):
            if quick and (ri * 7 + di) % 2 != seed % 2 and di < 64:
                continue
            data = {"op": "data", "quads": d, "graphs": ["g1", "g2"]}
            cfgs = [{"facade": "dataset", "union_default": False}, {"facade": "dataset", "union_default": True}, {"facade": "cg", "union_default": True}, {"facade": "cg", "union_default": False}]
            jobs.append({"cfg": cfgs[(ri + di) % 4], "events": [data, {"op": "update", "ops": r, "prologues": len(r) > 1 and (ri + di) % 2 == 0}]})
            if only_default(r) and (ri + di) % 3 == 0:
                jobs.append({"cfg": {"facade": "graph"}, "events": [{"op": "data", "quads": [q for q in d if q[3] == "D"], "graphs": []}, {"op": "update", "ops": r}]})
    # through a plain Graph: graph management aimed at other graphs (SILENT) leaves the graph as it is; DEFAULT empties it
    for di, d in enumerate(ds[::7]):
        dq = [q for q in d if q[3] == "D"]
        for k in ("clear", "drop"):
            for t in ("NAMED", "g1", "g9", "DEFAULT"):
                jobs.append({"cfg": {"facade": "graph"}, "events": [{"op": "data", "quads": dq, "graphs": []}, {"op": "update", "ops": [{"u": k, "target": t, "silent": True}]}]})
                jobs.append({"cfg": {"facade": "graph"}, "events": [{"op": "data", "quads": dq, "graphs": []},
                                                                    {"op": "update", "ops": [{"u": "insertdata", "quads": [T[3] + [{"k": "g", "v": ""}]]}, {"u": k, "target": t, "silent": True}]}]})
    out.exhaustive = not quick
    out.conform(__name__, TRACE, jobs, nontrivial=nontrivial, chunk=300, par=16)
