"""C12 — parsing only adds, and blank nodes of separate documents never merge."""
from __future__ import annotations

import itertools
import random

from ..shapes import Bn, I, L, S1, S2, P1, P2, EX
from .. import docwriters
from ..doc_replay import replay

PROP = "C12"
TRACE = "TraceDocs"
D = {"k": "default"}
G1 = I(EX + "g1")
TRIPLE_FMTS = ["nt", "turtle", "n3", "xml", "json-ld", "hext"]
QUAD_FMTS = ["nquads", "trig", "trix", "json-ld", "hext"]


def execute(job):
    return replay(job["cfg"], job["events"])


def nontrivial(job, trace):
    return True


def vclass(job, trace, at):
    e = trace["ev"][at - 1]
    return e.get("fmt", "") + "|" + job["events"][0]["kind"] + "|" + e.get("docname", "")


def match_finding(findings, job, trace, verdict, at):
    e = trace["ev"][at - 1]
    kind = job["events"][0]["kind"]
    for f in findings:
        c = f.get("class")
        if not c or e.get("fmt") not in c["formats"] or verdict not in c["clauses"]:
            continue
        if c["predicate"] == "doc_has_bnode" and any(x["k"] == "bnode" for q in e["doc"] for x in q):
            return f
        if c["predicate"] == "nquads_into_dataset_default" and kind.startswith("dataset") and any(q[3]["k"] == "default" for q in e["before"]):
            return f
    return None


GENID = "N0123456789abcdef0123456789abcdef"
DOCS = {
    "d-x": [[S1, P1, Bn("x"), D], [Bn("x"), P2, L("a"), D]],
    "d-xy": [[Bn("x"), P1, Bn("y"), D], [Bn("y"), P2, L("b", lang="en"), D]],
    "d-loop": [[Bn("x"), P1, Bn("x"), D]],
    "d-ground": [[S1, P1, S2, D], [S1, P2, L("1", dt="http://www.w3.org/2001/XMLSchema#integer"), D]],
    "d-genid": [[S1, P1, Bn(GENID), D], [Bn(GENID), P2, L("g"), D]],
    "d-anon": [[S1, P1, Bn("anon"), D], [Bn("anon"), P2, L("a"), D]],
}
# the same abstract document as d-x, spelt with an anonymous node where the syntax has one
ANON_TEXT = {"turtle": '<%s> <%s> [ <%s> "a" ] .\n' % (S1["v"], P1["v"], P2["v"]), "n3": '<%s> <%s> [ <%s> "a" ] .\n' % (S1["v"], P1["v"], P2["v"]),
             "trig": '<%s> <%s> [ <%s> "a" ] .\n' % (S1["v"], P1["v"], P2["v"]),
             "xml": '<rdf:RDF xmlns:rdf="http://www.w3.org/1999/02/22-rdf-syntax-ns#"><rdf:Description rdf:about="%s"><p1 xmlns="%s" rdf:parseType="Resource"><p2 xmlns="%s">a</p2></p1></rdf:Description></rdf:RDF>' % (S1["v"], EX, EX),
             "json-ld": '{"@id": "%s", "%s": {"%s": "a"}}' % (S1["v"], P1["v"], P2["v"])}
G2, G3 = I(EX + "g2"), I(EX + "g3")


def text_of(fm, dn, doc):
    if dn == "d-anon" and fm in ANON_TEXT:
        return ANON_TEXT[fm]
    return docwriters.write(fm, doc)


QDOCS = {
    "q-two-graphs": [[S1, P1, Bn("x"), D], [Bn("x"), P2, L("in g1"), G1]],
    "q-named-only": [[S2, P1, Bn("x"), G1], [Bn("x"), P1, S2, G1]],
    "q-bnode-graph": [[S1, P1, L("v"), Bn("g")], [Bn("g"), P2, L("about the graph"), D]],
}


def run(out, tier, seed):
    quick = tier == "quick"
    out.rule = ("sequences of 1-3 parse calls into one sink: documents {one label, two labels, self-loop, ground, a label spelt like an rdflib-generated id} in {nt, turtle, n3, xml, json-ld, hext} and quad documents "
                "{same label in default and named graph, named only, bnode-named graph} in {nquads, trig, trix, json-ld, hext}; sinks Graph / Dataset (default_union on, off) / ConjunctiveGraph with pre-existing content "
                "in the default and a named graph incl. a blank node labelled like the documents' labels; after every call TLC checks that nothing was removed and that the sink is the old content plus the document "
                "with its labels mapped one-to-one to fresh blank nodes")
    out.assumptions += ["documents are written by one canonical writer per syntax (alternative spellings are C05's subject)"]
    out.mc("MCGraphIso", "MC_GraphIso.cfg")
    rng = random.Random(seed)
    jobs = []
    content = [[S1, P1, Bn("x"), D], [Bn("x"), P2, L("old"), D], [S2, P2, L("in g1"), G1], [S2, P1, Bn(GENID), G1]]
    sinks = ["graph", "dataset", "dataset_union", "cg"]
    names = list(DOCS)
    seqs = list(itertools.product(names, repeat=2)) + [(a,) for a in names] + (list(itertools.product(names, repeat=3)) if not quick else [])
    for si, seq in enumerate(seqs):
        for ki, kind in enumerate(sinks):
            for pre in (False, True):
                fmts = [TRIPLE_FMTS[(si + ki + j * 2 + pre) % len(TRIPLE_FMTS)] for j in range(len(seq))]
                evs = [{"op": "sink", "kind": kind, "content": [list(map(dict, q)) for q in content if kind != "graph" or q[3]["k"] == "default"] if pre else []}]
                for dn, fm in zip(seq, fmts):
                    evs.append({"op": "parse", "fmt": fm, "docname": dn, "doc": DOCS[dn], "text": text_of(fm, dn, DOCS[dn])})
                jobs.append({"cfg": {}, "events": evs})
    # same document in every syntax, twice
    for dn in names:
        for fm in TRIPLE_FMTS:
            for kind in sinks:
                evs = [{"op": "sink", "kind": kind, "content": []}] + [{"op": "parse", "fmt": fm, "docname": dn, "doc": DOCS[dn], "text": text_of(fm, dn, DOCS[dn])}] * 2
                jobs.append({"cfg": {}, "events": [dict(e) for e in evs]})
    # the same document (and a pair of documents) loaded twice by every route that gives the document an identity - a path, a file object
    # with a public id, publicID= - and with the global random generator re-seeded between the loads
    HOWS = ["publicID", "path", "file", "data"]
    for di, dn in enumerate(names):
        for fi, fm in enumerate(TRIPLE_FMTS + QUAD_FMTS):
            for hi, how in enumerate(HOWS):
                if quick and (di + fi + hi) % 2:
                    continue
                kind = sinks[1 + (di + fi + hi) % 3] if fm in QUAD_FMTS else sinks[(di + fi + hi) % 4]
                other = names[(di + 1) % len(names)]
                doc, doc2 = DOCS[dn], DOCS[other]
                if fm == "trix":
                    # TriX has no default graph (an unnamed <graph> is an anonymous graph): use a named one instead
                    doc = [q[:3] + [I(EX + "g0") if q[3]["k"] == "default" else q[3]] for q in doc]
                    doc2 = [q[:3] + [I(EX + "g0") if q[3]["k"] == "default" else q[3]] for q in doc2]
                text = docwriters.write(fm, doc) if fm in QUAD_FMTS else text_of(fm, dn, doc)
                text2 = docwriters.write(fm, doc2) if fm in QUAD_FMTS else text_of(fm, other, doc2)
                mk = lambda d, t, n: {"op": "parse", "fmt": fm, "docname": n, "doc": d, "text": t, "how": how, "reseed": 7 if (di + hi) % 2 == 0 else 0}
                jobs.append({"cfg": {}, "events": [{"op": "sink", "kind": kind, "content": []}, mk(doc, text, dn), mk(doc, text, dn), mk(doc2, text2, other), mk(doc, text, dn)]})
    # SPARQL LOAD: the document into the graph that carries its name, loaded again (a refresh) and next to another document
    for di, dn in enumerate(names):
        for fm in ("turtle", "nt", "xml"):
            for kind in sinks:
                other = names[(di + 1) % len(names)]
                mk = lambda d, t, n: {"op": "parse", "fmt": fm, "docname": n, "doc": d, "text": t, "how": "sparql_load"}
                jobs.append({"cfg": {}, "events": [{"op": "sink", "kind": kind, "content": []}, mk(DOCS[dn], text_of(fm, dn, DOCS[dn]), dn), mk(DOCS[dn], text_of(fm, dn, DOCS[dn]), dn),
                                                   mk(DOCS[other], text_of(fm, other, DOCS[other]), other), mk(DOCS[dn], text_of(fm, dn, DOCS[dn]), dn)]})
    qnames = list(QDOCS)
    for a, b in itertools.product(qnames + names[:2], repeat=2):
        for fi, fm in enumerate(QUAD_FMTS):
            for kind in sinks[1:]:
                for pre in (False, True):
                    evs = [{"op": "sink", "kind": kind, "content": [list(map(dict, q)) for q in content] if pre else []}]
                    for dn in (a, b):
                        doc = QDOCS.get(dn) or DOCS[dn]
                        if fm == "trix":
                            # TriX has no default graph (an unnamed <graph> is an anonymous graph): use a named one instead
                            doc = [q[:3] + [I(EX + "g0") if q[3]["k"] == "default" else q[3]] for q in doc]
                        evs.append({"op": "parse", "fmt": fm, "docname": dn, "doc": doc, "text": docwriters.write(fm, doc)})
                    jobs.append({"cfg": {}, "events": evs})
    # parsing through a named-graph view of a dataset whose default graph is not empty: the document goes into that graph,
    # nothing else changes; two documents with the same labels into two views stay apart
    def into(doc, g):
        return [q[:3] + [g] for q in doc]
    for kind in sinks[1:]:
        for fm in TRIPLE_FMTS:
            for dn in ("d-x", "d-ground", "d-anon", "d-genid"):
                for views in ((G2,), (G1,), (G2, G3), (G2, None), (None, G2)):
                    evs = [{"op": "sink", "kind": kind, "content": [list(map(dict, q)) for q in content]}]
                    for g in views:
                        ev = {"op": "parse", "fmt": fm, "docname": dn, "doc": into(DOCS[dn], g) if g else DOCS[dn], "text": text_of(fm, dn, DOCS[dn])}
                        if g:
                            ev["into"] = g["v"]
                        evs.append(ev)
                    jobs.append({"cfg": {}, "events": evs})
        for fm in QUAD_FMTS:
            for dn in ("q-two-graphs", "q-named-only", "d-ground"):
                doc = QDOCS.get(dn) or DOCS[dn]
                if fm == "trix":
                    doc = [q[:3] + [I(EX + "g0") if q[3]["k"] == "default" else q[3]] for q in doc]
                for g in (G2, G1):
                    evs = [{"op": "sink", "kind": kind, "content": [list(map(dict, q)) for q in content]},
                           {"op": "parse", "fmt": fm, "docname": dn, "doc": doc, "text": docwriters.write(fm, doc), "into": g["v"], "addonly": True}]
                    jobs.append({"cfg": {}, "events": evs})
    out.exhaustive = not quick
    out.conform(__name__, TRACE, jobs, nontrivial=nontrivial, chunk=400, par=16, heap="2g")
