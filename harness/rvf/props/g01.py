"""G01 (growth, not a listed property) — rdflib.container behaves like the 1-based list it represents."""
from __future__ import annotations

import os
import random
import shutil

from .. import tlc
from ..cont_replay import replay

PROP = "G01"
TRACE = "TraceContainer"


def execute(job):
    return replay(job["cfg"], job["events"])


def nontrivial(job, trace):
    return any(e["op"] in ("append", "append_multiple", "new") for e in job["events"])


def vclass(job, trace, at):
    e = job["events"][at - 1]
    return e["op"] + "|" + job["cfg"].get("vocab", "") + "|" + job["cfg"].get("kind", "")


def match_finding(findings, job, trace, verdict, at):
    e = trace["ev"][at - 1]
    for f in findings:
        c = f.get("class")
        if c and any(verdict.startswith(x) for x in c["clauses"]) and e["op"] in c["ops"] and (not c.get("vocab") or job["cfg"].get("vocab") in c["vocab"]):
            return f
    return None


def gen(depth, kind):
    d = tlc.scratch("rvf-gen-")
    try:
        cfg = os.path.join(d, "gen.cfg")
        tlc.write_cfg(cfg, spec="Spec", constants={"Members": tlc.tla_set(["o1", "o2"]), "MaxLen": "3", "Depth": str(depth), "Kind": '"%s"' % kind}, constraints=["Export"])
        return tlc.export_json("Container", cfg, timeout=900)
    finally:
        shutil.rmtree(d, ignore_errors=True)


def run(out, tier, seed):
    quick = tier == "quick"
    out.rule = ("every history of length 3 of Container.tla's alphabet (append, append_multiple, c[i]=x, del c[i], add_at_position for Seq, clear, c[i], index; all indices 0..MaxLen+1) from 3 start lists, "
                "plus seeded histories of 5-25 calls; x Bag / Seq / Alt x plain / falsy / hostile / bnodey members; after every call: rdf:_n triples, type triple, len, items()")
    out.mc("Container", "MC_Container.cfg")
    rng = random.Random(seed)
    jobs = []
    vocabs = ["plain", "falsy", "hostile", "bnodey"]
    n = 0
    for kind in ("Seq", "Bag"):
        r, hs = gen(3 if not quick else 2, kind)
        out.states += r.distinct
        out.extra["histories_" + kind] = len(hs)
        for h in hs:
            for start in ([], ["o1"], ["o1", "o2", "o1"]):
                n += 1
                if quick and n % 3:
                    continue
                evs = [{"op": "new", "items": start}] + [dict(e) for e in h] + [{"op": "items"}, {"op": "len"}]
                jobs.append({"cfg": {"kind": kind, "vocab": vocabs[n % 4], "node": ["bnode", "iri"][n % 2]}, "events": evs})
    M = ["o1", "o2", "o3"]
    for i in range(300 if quick else 4000):
        kind = rng.choice(["Seq", "Bag", "Alt"])
        evs = [{"op": "new", "items": [rng.choice(M) for _ in range(rng.randint(0, 3))]}]
        for _ in range(rng.randint(5, 25)):
            r = rng.random()
            i_ = rng.randint(0, 6)
            x = rng.choice(M)
            if r < 0.2:
                evs.append({"op": "append", "x": x})
            elif r < 0.28:
                evs.append({"op": "append_multiple", "xs": [rng.choice(M) for _ in range(rng.randint(0, 3))]})
            elif r < 0.4:
                evs.append({"op": "setitem", "i": i_, "x": x})
            elif r < 0.55:
                evs.append({"op": "delitem", "i": i_})
            elif r < 0.65 and kind == "Seq":
                evs.append({"op": "add_at_position", "i": i_, "x": x})
            elif r < 0.68:
                evs.append({"op": "clear"})
            elif r < 0.8:
                evs.append({"op": "getitem", "i": i_})
            elif r < 0.9:
                evs.append({"op": "index", "x": x})
            elif r < 0.95 and kind == "Alt":
                evs.append({"op": "anyone"})
            else:
                evs.append({"op": "items"})
        jobs.append({"cfg": {"kind": kind, "vocab": rng.choice(vocabs), "node": rng.choice(["bnode", "iri"])}, "events": evs})
    out.conform(__name__, TRACE, jobs, nontrivial=nontrivial, chunk=400, par=16, heap="2g")
