"""C17 — prefix bindings stay a consistent two-way map and compact IRIs expand back."""
from __future__ import annotations

import os
import random
import shutil

from .. import tlc
from ..ns_replay import replay

PROP = "C17"
TRACE = "TraceNamespaces"

NSS = [["a", "/"], ["a", "/", "x", "/"], ["b", "#"]]
IRIS = [["a", "/", "f"], ["a", "/", "x", "/", "g"], ["a", "/", "x"], ["b", "#", "q"]]
# (the last two are namespaces rdflib itself binds by default in some configurations: the user may have given them a prefix of their own)
NSS_R = ["urn:a/", "urn:a/x/", "urn:a/x#", "urn:b#", "urn:a/x/b", "http://c.example/v", "http://www.w3.org/1999/02/22-rdf-syntax-ns#", "http://xmlns.com/foaf/0.1/"]
IRIS_R = ["http://www.w3.org/1999/02/22-rdf-syntax-ns#type", "http://xmlns.com/foaf/0.1/name", "urn:a/foo", "urn:a/x/bar", "urn:a/x#baz", "urn:a/x", "urn:b#q", "urn:a/x/bq", "http://c.example/vocab", "urn:a/x/", "urn:a/x/b1x", "http://c.example/v2"]


def execute(job):
    return replay(job["cfg"], job["events"])


def nontrivial(job, trace):
    ops = [e["op"] for e in job["events"]]
    return "bind" in ops and any(o != "bind" for o in ops)


def gen(depth, simulate=None, seed=0):
    d = tlc.scratch("rvf-gen-")
    try:
        cfg = os.path.join(d, "gen.cfg")
        tlc.write_cfg(cfg, spec="Spec", constants={"UserPrefixes": tlc.tla_set(["", "a", "b"]), "Nss": "<- MCNss", "Iris": "<- MCIris",
                                                  "SepChars": tlc.tla_set(["/", "#"]), "InvalidateOnBind": "TRUE", "KeepBothBound": "TRUE", "Depth": str(depth)},
                      constraints=["Export"])
        extra = ["-simulate", simulate, "-seed", str(seed)] if simulate else None
        return tlc.export_json("MCNamespaces", cfg, timeout=1200, extra=extra)
    finally:
        shutil.rmtree(d, ignore_errors=True)


def random_history(rng, n):
    evs = []
    for _ in range(n):
        r = rng.random()
        if r < 0.45:
            # ("ns", "ns1", "default1": names that rdflib's own numbering of colliding and generated prefixes produces)
            evs.append({"op": "bind", "p": rng.choice(["", "a", "b", "a", "c", "ns", "ns", "ns1", "default1"]), "n": rng.choice(NSS_R),
                        "override": rng.random() < 0.6, "replace": rng.random() < 0.35, "via": "self" if rng.random() < 0.7 else "second"})
        elif r < 0.6:
            evs.append({"op": "cq", "iri": rng.choice(IRIS_R), "generate": rng.random() < 0.5})
        elif r < 0.7:
            evs.append({"op": "qname", "iri": rng.choice(IRIS_R)})
        elif r < 0.78:
            evs.append({"op": "curie", "iri": rng.choice(IRIS_R), "generate": rng.random() < 0.5})
        elif r < 0.84:
            evs.append({"op": "n3", "iri": rng.choice(IRIS_R)})
        elif r < 0.88:
            evs.append({"op": "cq_strict", "iri": rng.choice(IRIS_R + ["urn:a/x/b1x", "http://c.example/v2"] * 3)})
        elif r < 0.93:
            evs.append({"op": "expand", "p": rng.choice(["", "a", "b", "ns1", "a1", "default1"]), "l": "zz"})
        elif r < 0.97:
            evs.append({"op": "serialize", "fmt": rng.choice(["turtle", "xml", "n3", "longturtle"])})
        elif r < 0.985:
            evs.append({"op": "reset"})
        else:
            evs.append({"op": "parse", "prefixes": [[rng.choice(["a", "b", "d", "ns", "ns"]), rng.choice(NSS_R)] for _ in range(rng.randint(1, 2))],
                        "via": rng.choice(["self", "second"]), "fmt": rng.choice(["turtle", "trig", "n3"])})
    return evs


def run(out, tier, seed):
    quick = tier == "quick"
    out.rule = ("every TLC-exported history of Namespaces.tla (bind with all override/replace flag combinations over prefixes {'',a,b} and nested namespaces, "
                "interleaved with compute_qname(generate on/off)) up to the depth bound; TLC-simulated longer behaviours of the same spec; seeded histories "
                "that add qname/curie/n3/compute_qname_strict/expand_curie/serialize/parse; on Memory and SimpleMemory stores, bind_namespaces none/core; "
                "non-trivial = at least one bind and one other call")
    out.assumptions += ["which prefix a bind ends up using (numbered fall-backs, generated nsN) is left free; only consistency, frame and expansion are judged",
                        "compute_qname on an IRI that cannot be split may raise (no claim)"]
    out.mc("MCNamespaces", "MC_Namespaces.cfg")
    out.mc("MCNamespaces", "MC_Namespaces_aswritten.cfg", expect="Inv_QnameBound")
    out.mc("MCNamespaces", "MC_Namespaces_aswritten2.cfg", expect="Inv_Bijection")
    jobs = []
    depth = 2 if quick else 3
    r, hs = gen(depth)
    out.states += r.distinct; out.transitions += r.generated
    base = {"nss": NSS, "iris": IRIS}
    for i, h in enumerate(hs):
        for st in ("Memory", "SimpleMemory"):
            jobs.append({"cfg": dict(base, store=st, bind_namespaces="none"), "events": h})
    r2, hs2 = gen(7, simulate="num=%d" % (150 if quick else 3000), seed=seed + 1)
    out.states += r2.distinct; out.transitions += r2.generated
    seen = set()
    for h in hs2:
        key = tlc.json.dumps(h)
        if key in seen:
            continue
        seen.add(key)
        jobs.append({"cfg": dict(base, store="Memory", bind_namespaces="none"), "events": h})
    out.extra["exhaustive_histories"] = {"depth": depth, "count": len(hs), "simulated_depth7": len(seen)}
    out.exhaustive = True
    rng = random.Random(seed)
    for i in range(1500 if quick else 20000):
        jobs.append({"cfg": {"nss": NSS_R, "iris": IRIS_R, "prefixes": ["", "a", "b", "c", "d"], "store": ["Memory", "SimpleMemory"][i % 2],
                             "bind_namespaces": ["none", "none", "core"][i % 3]}, "events": random_history(rng, rng.randint(3, 14))})
    # focused exhaustive family: strict / non-strict qnames of an IRI under a namespace without trailing delimiter, against re-binds
    import itertools
    alpha = [{"op": "bind", "p": p, "n": n, "override": ov, "replace": False} for p in ("a", "c") for n in ("urn:a/x/b", "urn:a/x/") for ov in (True, False)]
    alpha += [{"op": "cq_strict", "iri": "urn:a/x/b1x"}, {"op": "cq", "iri": "urn:a/x/b1x", "generate": True}]
    depth4 = list(itertools.product(alpha, repeat=4))
    if quick:
        depth4 = [h for i, h in enumerate(depth4) if i % 3 == seed % 3]
    for h in depth4:
        if sum(1 for e in h if e["op"] != "bind") >= 1 and h[0]["op"] == "bind":
            jobs.append({"cfg": {"nss": ["urn:a/x/b", "urn:a/x/"], "iris": ["urn:a/x/b1x"], "prefixes": ["a", "c"], "store": "Memory", "bind_namespaces": "none"},
                         "events": [dict(e) for e in h]})
    # directed: an answer is remembered by one kind of call, the prefix is then removed or re-pointed (through this manager, through a second
    # manager of the same store, by a parse), and every kind of call is asked again - with and without generate
    reads = [{"op": "cq", "generate": True}, {"op": "cq", "generate": False}, {"op": "qname"}, {"op": "curie", "generate": True}, {"op": "curie", "generate": False}, {"op": "n3"}, {"op": "cq_strict"}]
    rebinds = [[{"op": "bind", "p": "a", "n": "urn:b#", "override": True, "replace": True, "via": "second"}], [{"op": "bind", "p": "a", "n": "urn:b#", "override": True, "replace": True, "via": "self"}],
               [{"op": "bind", "p": "c", "n": "urn:a/", "override": True, "replace": True, "via": "second"}], [{"op": "parse", "prefixes": [["a", "urn:b#"]], "via": "second", "fmt": "turtle"}],
               [{"op": "bind", "p": "a", "n": "urn:a/x/", "override": True, "replace": True, "via": "second"}, {"op": "bind", "p": "a", "n": "urn:b#", "override": True, "replace": True, "via": "second"}]]
    for r1 in reads:
        for rb in rebinds:
            for r2 in reads:
                for iri in ("urn:a/foo", "urn:a/x/bar"):
                    h = [{"op": "bind", "p": "a", "n": "urn:a/", "override": True, "replace": False, "via": "self"}, dict(r1, iri=iri)] + [dict(e) for e in rb] + [dict(r2, iri=iri), dict(r2, iri="urn:b#q")]
                    jobs.append({"cfg": {"nss": NSS_R, "iris": IRIS_R, "prefixes": ["", "a", "b", "c", "d"], "store": "Memory", "bind_namespaces": "none"}, "events": h})
    # sibling namespaces under one parent whose tails occur inside other local names (obo-style: .../obo/ with .../obo/TO_ and .../obo/VO_ bound as well)
    OBO = "http://ex.example/obo/"
    sib = [OBO, OBO + "TO_", OBO + "VO_", OBO + "PATO_0"]
    siris = [OBO + "PATO_0000001", OBO + "ENVO_0000002", OBO + "TO_0000003", OBO + "XTO_4", OBO + "VO_", OBO + "aVO_b"]
    for i in range(60 if quick else 600):
        evs = [{"op": "bind", "p": "obo", "n": OBO, "override": True, "replace": False, "via": "self"}, {"op": "bind", "p": "TO", "n": OBO + "TO_", "override": True, "replace": False, "via": "self"},
               {"op": "bind", "p": "VO", "n": OBO + "VO_", "override": True, "replace": False, "via": "self"}]
        rng.shuffle(evs)
        for _ in range(6):
            rd = dict(rng.choice(reads), iri=rng.choice(siris))
            evs.append(rd)
        jobs.append({"cfg": {"nss": sib, "iris": siris, "prefixes": ["obo", "TO", "VO"], "store": "Memory", "bind_namespaces": "none"}, "events": evs})
    out.conform(__name__, TRACE, jobs, nontrivial=nontrivial, chunk=1500)
