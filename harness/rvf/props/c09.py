"""C09 — Literal <-> Python value mapping is faithful and normalisation is idempotent."""
from __future__ import annotations

import itertools
import random
import re
import struct

from ..xsd_replay import replay, INT_FAMILY

PROP = "C09"
TRACE = "TraceXsd"


def execute(job):
    return replay(job["cfg"], job["events"])


def nontrivial(job, trace):
    return True


def vclass(job, trace, at):
    e = job["events"][at - 1]
    return e["op"] + "|" + (e.get("dt") or e.get("ty") or "") + "|" + e.get("fam", "")


def match_finding(findings, job, trace, verdict, at):
    e = trace["ev"][at - 1]
    j = job["events"][at - 1]
    for f in findings:
        c = f.get("class")
        if not c or not any(verdict.startswith(x) for x in c["clauses"]):
            continue
        if c["predicate"] == "text_regex" and e.get("dt") in c["datatypes"] and re.search(c["regex"], e.get("text", "")):
            return f
    return None


INTS = ["0", "1", "7", "127", "128", "129", "255", "256", "32767", "32768", "32769", "65535", "65536", "2147483647", "2147483648", "2147483649", "4294967295", "4294967296",
        "9223372036854775807", "9223372036854775808", "9223372036854775809", "18446744073709551615", "18446744073709551616", "123456789012345678901234567890"]
INT_NEAR = ["", "-", "+", "++1", "--1", "+-1", "1-", "1+", "1.0", "1.", ".0", "1e3", "1E3", "0x10", "0b1", "0o7", "1L", "1l", "1 000", "1,000", "a", "NaN", "INF", "one", "²", "1٠"]
INT_PY = ["1_000", "1_0", "１２", "١٢", " 1", "1 ", "\t1\n", "+ 1"]          # forms Python's int() takes and XSD does not
BOOLS = ["true", "false", "1", "0", "TRUE", "True", "False", "FALSE", "T", "F", "t", "yes", "no", "2", "00", "01", "10", "tRue", "", "-1", "+1", "0.0", "1.0", "truee", "null"]
DEC_INT = ["", "0", "00", "1", "010", "120", "123456789012345678901234567890"]
DEC_FRAC = [None, "", "0", "00", "5", "50", "05", "500", "000000000000000000001", "123456789012345678901234567890"]
DEC_NEAR = ["1e3", "1E3", "1e-3", "1.5e0", "INF", "-INF", "NaN", "nan", "inf", "Infinity", "sNaN", ".", "+", "-", "-.", "+.", "1..0", "1.0.0", "1,5", "1_0.5", "１.５", "0x1p3", "1/2", "1.5f", "1.5d", "--1.0", "1.0-"]
DBL_MANT = ["0", "1", "1.", "1.5", ".5", "00.50", "12345678901234567890", "0.000001"]
DBL_EXP = ["", "e0", "E0", "e3", "E+3", "e-3", "E-03", "e308", "e400", "e-400", "e", "e+", "E-", "e1.5", "e 3", "ee3", "e3e3"]
DBL_SPECIAL = ["INF", "-INF", "+INF", "NaN", "nan", "NAN", "inf", "-inf", "+inf", "Inf", "Infinity", "-Infinity", "infinity", "-NaN", "+NaN", "0x1p3", "1_0e3", "1f", "1d", "1.5F", "", ".", "e1", "E", "-", "+", "1e", "--1", "1,5", "１e1"]
YEARS = ["2020", "2021", "1900", "2000", "2400", "0001", "0100", "9999", "10000", "-0001", "-2020", "0000", "02020", "202", "12345", "+2020"]
MD = [("01", "01"), ("02", "28"), ("02", "29"), ("02", "30"), ("04", "30"), ("04", "31"), ("12", "31"), ("13", "01"), ("00", "10"), ("01", "00"), ("01", "32"), ("1", "1"), ("001", "01"), ("01", "001")]
TZS = ["", "Z", "z", "+00:00", "-00:00", "+14:00", "-14:00", "+14:01", "-14:01", "+13:59", "+15:00", "+05:30", "-05:30", "+5:30", "+0530", "+05", "-05:60", "+05:3", "Z+01:00", "+05:30Z", "UTC", " Z"]
DATE_NEAR = ["20200101", "2020-01", "2020", "2020/01/01", "2020-01-01T00:00:00", "01-01-2020", "2020-W01-1", "2020-001", "", "2020-01-01-", "2020--01-01", "2020-01-01 "]
HMS = ["00:00:00", "23:59:59", "12:30:45", "09:08:07", "24:00:00", "24:00:01", "24:01:00", "12:60:00", "12:00:60", "23:59:60", "25:00:00", "1:00:00", "12:00", "12", "12:0:0", "120000", "12:00:00:00", "T12:00:00", "-12:00:00", "12.00.00"]
FRAC = ["", ".0", ".5", ".50", ".123456", ".000001", ".999999", ".", ".1234567", ".0000001", ".5.5", ",5"]
SEPS = ["T", "t", " ", "", "TT", "_"]
DUR = ["P1Y", "P1M", "P1D", "PT1H", "PT1M", "PT1S", "PT1.5S", "PT0.000001S", "PT1.50S", "PT1.5000000S", "PT0.50000000000S", "PT0.1234560S", "PT59.999999S", "P1DT0.5S", "PT1.000001S", "PT0.1S", "PT0.10S", "PT100S", "PT3600S", "PT1M0.5S", "P1Y0M", "P0Y1M", "P0DT0H0M0.0S", "P1Y2M", "P1Y2M3D", "P1Y2M3DT4H5M6S", "P1Y2M3DT4H5M6.7S", "P1YT1S", "P1MT1M", "P0D", "PT0S", "P0Y", "P0M", "P00Y", "P01D", "PT36H", "P13M", "PT90M",
       "P400D", "PT0.5S", "P", "PT", "P1YT", "PT1Y", "P1M1Y", "P1S", "P1H", "PT1D", "P1.5D", "P1.5Y", "P1.5M", "PT1.5H", "PT1.5M", "PT1.S", "PT.5S", "PT1.5.5S", "P1W", "P1Y1W", "P-1D", "P+1D", "PT-1S", "P1Y-1M",
       "p1d", "P1d", "pt1s", "P 1D", "1D", "D1", "P1DT", "P1DT1H1S", "P1DT1S1H", "P12345678901234567890D", "PT12345678901234567890S", "P1Y2M3DT", "PT1H2M3S4", "P1D2H", "P1D1D", "PT1S1S", "PD", "PTS", "P1", "PT1", "", "+P1D", "--P1D", "P1DZ", "P2020-01-01"]
HEX = ["", "0a", "0A", "Ff", "0", "0g", "0a0", "0a0b", "xx", "0x0a", "0a 0b", "0a-0b", "ABCDEF0123456789", "０１"]


def lex_jobs(rng, quick):
    J = []

    def add(dt, lex, fam):
        J.append({"cfg": {}, "events": [{"op": "lex", "dt": dt, "lex": lex, "fam": fam}]})
    for dt in sorted(INT_FAMILY):
        for sign, z, d in itertools.product(["", "+", "-"], ["", "0", "00"], INTS):
            add(dt, sign + z + d, "int")
        for s in INT_NEAR:
            add(dt, s, "int-near")
        for s in INT_PY:
            add(dt, s, "int-python-only" if s.strip() == s else "int-whitespace")
    for s in BOOLS:
        add("boolean", s, "boolean")
    for sign, ip, fp in itertools.product(["", "+", "-"], DEC_INT, DEC_FRAC):
        add("decimal", sign + ip + ("" if fp is None else "." + fp), "decimal")
    for s in DEC_NEAR:
        add("decimal", s, "decimal-near")
    for dt in ("double", "float"):
        for sign, m, x in itertools.product(["", "+", "-"], DBL_MANT, DBL_EXP):
            add(dt, sign + m + x, "double")
        for s in DBL_SPECIAL:
            add(dt, s, "double-special")
    for y, (m, d), tz in itertools.product(YEARS, MD, TZS):
        add("date", "%s-%s-%s%s" % (y, m, d, tz), "date")
    for s in DATE_NEAR:
        add("date", s, "date-near")
    for hms, fr, tz in itertools.product(HMS, FRAC, TZS):
        add("time", hms + fr + tz, "time")
    dts_ = list(itertools.product(["2020", "1900", "0001", "9999", "10000", "-0001", "0000"], [("02", "29"), ("12", "31"), ("13", "01"), ("01", "01")], SEPS, HMS, FRAC[:8], TZS[:14]))
    for y, (m, d), sep, hms, fr, tz in (dts_ if not quick else rng.sample(dts_, 4000)):
        add("dateTime", "%s-%s-%s%s%s%s%s" % (y, m, d, sep, hms, fr, tz), "dateTime")
    for s in DATE_NEAR + ["2020-01-01", "2020-01-01T", "T00:00:00", "2020-01-01T00:00", "2020-01-01T00"]:
        add("dateTime", s, "dateTime-near")
    for dt in ("duration", "dayTimeDuration", "yearMonthDuration"):
        for sign, b in itertools.product(["", "-"], DUR):
            add(dt, sign + b, "duration")
    for s in HEX:
        add("hexBinary", s, "hex")
    # string-derived types with a whiteSpace facet, and base64Binary (single spaces between characters are part of its lexical space)
    import base64 as _b64
    for t in ("a", "a b", "a  b", "10\u00a0000", "a\u2003b", "\u00a0a\u00a0", "a\tb", "a\nb", "a\u0085b", "a\u2028b", "\u3000x\u3000", "a \u00a0 b", "", "x\u00a0", "a\rb"):
        add("token", t, "token")
        add("normalizedString", t, "token")
    wrapped76 = _b64.encodebytes(bytes(range(70))).decode().strip().replace("\n", " ")
    for t in ("AQID", "AQID BAUG", "A Q I D", "AQ==", "AQ =", "A Q = =", "AQI=", "AQ=", "A", "AQ-ID", "AQ_D", "AQID=", "=AQI", "AQ==AQID", "AR==", "AQJ=", "", "AQID  BAUG", wrapped76, wrapped76.replace(" ", ""),
              "QUJD REVG R0hJ", "AQ I D BA UG"):
        add("base64Binary", t, "base64")
    # datatypes the spec does not judge: only idempotence / value preservation of normalisation
    for dt, forms in (("gYear", ["2020", "02020", "-0001", "20"]), ("gYearMonth", ["2020-01", "2020-13", "2020-1"]), ("anyURI", ["http://a/", " a ", ""]),
                      ("string", ["a", " a  b ", ""]), ("language", ["en", "EN-us"]), ("dateTimeStamp", ["2020-01-01T00:00:00Z", "2020-01-01T00:00:00"])):
        for s in forms:
            add(dt, s, "unjudged")
    return J


def py_jobs(rng, quick):
    J = []

    def add(ty, args, fam=""):
        J.append({"cfg": {}, "events": [{"op": "py", "ty": ty, "args": args, "fam": fam or ty}]})
    n = 150 if quick else 1500
    for i in [0, 1, -1, 127, 128, 2 ** 31, 2 ** 63, 2 ** 64, -2 ** 63 - 1, 10 ** 30, -10 ** 30] + [rng.randint(-10 ** rng.randint(1, 40), 10 ** rng.randint(1, 40)) for _ in range(n)]:
        add("int", str(i))
    fl = [0.0, -0.0, 1.0, 1.5, -1.5, 1e100, 1e-7, 5e-324, 1.7976931348623157e308, 2.2250738585072014e-308, 0.1, 1 / 3, 1e15, 1e16, 1e17, 1e21, 1e22, 123456789.12345679, 1e-5, 1e-4, 4.35, 100.0, 1e23]
    fl += [struct.unpack("<d", struct.pack("<Q", rng.getrandbits(64)))[0] for _ in range(n)]
    for f in fl:
        if f == f and f not in (float("inf"), float("-inf")):
            add("float", f.hex())
    for s in ("inf", "-inf", "nan"):
        add("float", s, "float-nonfinite")
    ds = ["0", "-0", "1", "1.0", "1.00", "1E+3", "1E-30", "-1.5", "123456789012345678901234567890.123456789", "0E-10", "0E+10", "1E+30", "0.1", "-0.0", "100", "1E+2", "5E-1", "-1E-7"]
    for _ in range(n):
        ds.append("%s%dE%d" % (rng.choice(["", "-"]), rng.randint(0, 10 ** rng.randint(1, 30)), rng.randint(-40, 40)))
    for d in ds:
        add("Decimal", d)
    add("bool", True)
    add("bool", False)
    for s in ["", "x", " 1 ", "true", "1", "é", "a\nb"]:
        add("str", s)
    dates = [(1, 1, 1), (9999, 12, 31), (2020, 2, 29), (2000, 2, 29), (1900, 3, 1), (999, 12, 31), (10, 1, 1), (1000, 1, 1)]
    tzs = [9999, 0, 840, -840, 330, -330, 1, -1, 839, -839, 60]
    dates += [(rng.randint(1, 9999), rng.randint(1, 12), rng.randint(1, 28)) for _ in range(n // 2)]
    for d in dates:
        add("date", list(d))
    times = [(0, 0, 0, 0), (23, 59, 59, 999999), (12, 0, 0, 0), (1, 2, 3, 4), (1, 2, 3, 400000), (0, 0, 0, 1), (0, 0, 59, 0), (0, 59, 0, 0)]
    times += [(rng.randint(0, 23), rng.randint(0, 59), rng.randint(0, 59), rng.choice([0, 0, rng.randint(0, 999999), rng.randint(0, 999) * 1000])) for _ in range(n // 3)]
    for t in times:
        for tz in (tzs if times.index(t) < 8 else [rng.choice(tzs), rng.randint(-840, 840)]):
            add("time", list(t) + [tz])
    for d in dates[:12] + rng.sample(dates, min(len(dates), n // 4)):
        for t in times[:4] + [rng.choice(times)]:
            add("datetime", list(d) + list(t) + [rng.choice(tzs)])
    tds = [(0, 0, 0), (1, 0, 0), (0, 1, 0), (0, 0, 1), (-1, 0, 0), (0, 0, -1), (0, -1, 0), (1, 1, 1), (0, 0, 500000), (999999999, 0, 0), (-999999999, 0, 0), (0, 3600, 0), (0, 60, 0), (0, 86399, 999999), (400, 0, 0), (0, 90, 0), (-1, 1, 0), (1, -1, 0)]
    tds += [(rng.randint(-10000, 10000), rng.randint(0, 86399), rng.choice([0, rng.randint(0, 999999)])) for _ in range(n // 3)]
    tds += [(0, 4, us) for us in range(1, 1000000, 7919 if quick else 997)]                # microsecond sweep at a fixed whole-second part
    tds += [(rng.randint(-999999, 999999), rng.randint(0, 86399), rng.randint(1, 999999)) for _ in range(n // 3)]     # large day counts with microseconds
    for t in tds:
        add("timedelta", list(t))
    # the Duration class refuses years and days that are both negative: negative values carry a year-month part only
    durs = [(1, 0, 0, 0, 0), (0, 1, 0, 0, 0), (1, 2, 3, 0, 0), (1, 2, 3, 4, 5), (-1, 0, 0, 0, 0), (0, -1, 0, 0, 0), (0, 13, 0, 0, 0), (1, 0, 1, 0, 0), (0, 1, 0, 1, 0), (-1, -2, 0, 0, 0), (0, 1, 0, 0, 1), (100, 11, 30, 86399, 999999)]
    durs += [(rng.randint(0, 50), rng.randint(0, 11), rng.randint(0, 40), rng.randint(0, 86399), rng.choice([0, rng.randint(0, 999999)])) for _ in range(n // 4)]
    durs += [(-rng.randint(0, 50), -rng.randint(0, 11), 0, 0, 0) for _ in range(n // 10)]
    for d in durs:
        if d[0] or d[1]:
            add("Duration", list(d))
    # Durations without a year-month part: written as xsd:duration, read back as timedelta - an equal value all the same
    for d in [(0, 0, 1, 0, 0), (0, 0, 0, 3600, 0), (0, 0, 0, 0, 0), (0, 0, 0, 1, 500000), (0, 0, 2, 30, 0), (0, 0, 0, 0, 1)] + [(0, 0, rng.randint(0, 400), rng.randint(0, 86399), rng.choice([0, rng.randint(0, 999999)])) for _ in range(n // 10)]:
        add("Duration", list(d), "Duration-daytime")
    return J


def eq_jobs(rng, quick):
    pool = [("1", "integer"), ("01", "integer"), ("+1", "integer"), ("-0", "integer"), ("0", "integer"), ("1", "int"), ("1", "byte"), ("1", "unsignedLong"), ("2", "integer"), ("1", "decimal"), ("1.0", "decimal"), ("1.00", "decimal"),
            ("01.50", "decimal"), ("1.5", "decimal"), ("-0.0", "decimal"), ("0", "decimal"), ("1", "double"), ("1.0E0", "double"), ("1.5", "double"), ("NaN", "double"), ("INF", "double"), ("-INF", "double"), ("0", "double"), ("-0", "double"),
            ("1", "float"), ("1.5", "float"), ("0.1", "float"), ("0.1", "double"), ("0.1", "decimal"), ("true", "boolean"), ("1", "boolean"), ("false", "boolean"), ("0", "boolean"), ("abc", "integer"), ("abd", "integer"), ("", "integer"),
            ("2020-01-01", "date"), ("2020-01-02", "date"), ("2020-01-01T00:00:00", "dateTime"), ("2020-01-01T00:00:00Z", "dateTime"), ("2020-01-01T00:00:00+00:00", "dateTime"), ("2020-01-01T01:00:00+01:00", "dateTime"),
            ("2020-01-01T00:00:00.0", "dateTime"), ("00:00:00", "time"), ("00:00:00Z", "time"), ("00:00:00.000", "time"), ("P1D", "duration"), ("PT24H", "duration"), ("P1D", "dayTimeDuration"), ("PT86400S", "dayTimeDuration"), ("P1Y", "duration"),
            ("P12M", "duration"), ("P1Y", "yearMonthDuration"), ("P12M", "yearMonthDuration"), ("0a", "hexBinary"), ("0A", "hexBinary"), ("a", "string"), ("b", "string"), ("2020-13-45", "date"), ("128", "byte"), ("300", "byte")]
    pairs = list(itertools.product(pool, repeat=2))
    if quick:
        pairs = [p for i, p in enumerate(pairs) if i % 2 == 0 or p[0] == p[1] or p[0][1] == p[1][1]]
    return [{"cfg": {}, "events": [{"op": "eq", "a": {"lex": a[0], "dt": a[1]}, "b": {"lex": b[0], "dt": b[1]}, "fam": "eq"}]} for a, b in pairs]


# ---- rdf:XMLLiteral / rdf:HTML: the value is the tree ------------------------------------------------------------------
def _xml_trees(rng, depth=0):
    """a forest: text nodes and elements (name, attrs, children); no two adjacent text nodes"""
    out = []
    for _ in range(rng.choice([0, 1, 1, 2, 3] if depth < 2 else [0, 0, 1])):
        if out and out[-1][0] == "e" and rng.random() < 0.4 or (not out and rng.random() < 0.3):
            out.append(("t", rng.choice(["x", "a b", "1 < 2", "é", "A&B", " y "])))
        else:
            attrs = {k: rng.choice(["1", "v w", "a'b", "<"]) for k in rng.sample(["id", "class", "x"], rng.choice([0, 0, 1, 2]))}
            out.append(("e", rng.choice(["a", "b", "em"]), tuple(sorted(attrs.items())), tuple(_xml_trees(rng, depth + 1))))
    return out


def _xml_esc(s, rng, attr=False, q='"'):
    out = []
    for ch in s:
        if ch == "&":
            out.append("&amp;")
        elif ch == "<":
            out.append(rng.choice(["&lt;", "&#60;", "&#x3C;"]))
        elif attr and ch == q:
            out.append("&quot;" if q == '"' else "&apos;")
        elif rng.random() < 0.1:
            out.append("&#%d;" % ord(ch))
        else:
            out.append(ch)
    return "".join(out)


def _xml_render(forest, rng):
    out = []
    for n in forest:
        if n[0] == "t":
            out.append(_xml_esc(n[1], rng))
            continue
        _, name, attrs, kids = n
        attrs = list(attrs)
        rng.shuffle(attrs)
        a = ""
        for k, v in attrs:
            q = rng.choice(['"', "'"])
            a += rng.choice([" ", "  ", "\n"]) + k + "=" + q + _xml_esc(v, rng, True, q) + q
        if not kids and rng.random() < 0.5:
            out.append("<%s%s%s/>" % (name, a, rng.choice(["", " "])))
        else:
            out.append("<%s%s>%s</%s%s>" % (name, a, _xml_render(kids, rng), name, rng.choice(["", " "])))
    return "".join(out)


def _xml_perturb(forest, rng):
    """a different forest, close to the given one (or None)"""
    forest = list(forest)
    if not forest:
        return [("e", "a", (), ())]
    how = rng.choice(["drop_last", "append", "text", "attr", "name", "deep", "swap"])
    i = rng.randrange(len(forest))
    n = forest[i]
    if how == "drop_last":
        return forest[:-1]
    if how == "append":
        return forest + [("e", "b", (), ())]
    if how == "swap" and len(forest) > 1 and forest[0] != forest[-1] and not (forest[0][0] == "t" and forest[-1][0] == "t"):
        forest[0], forest[-1] = forest[-1], forest[0]
        if any(forest[k][0] == "t" and forest[k + 1][0] == "t" for k in range(len(forest) - 1)):
            return None
        return forest
    if n[0] == "t":
        forest[i] = ("t", n[1] + "!")
        return forest
    _, name, attrs, kids = n
    if how == "name":
        forest[i] = ("e", name + "x", attrs, kids)
    elif how == "attr":
        d = dict(attrs)
        if d and rng.random() < 0.6:
            k = rng.choice(sorted(d))
            if rng.random() < 0.5:
                d[k] += "2"
            else:
                del d[k]
        else:
            d["y"] = "1"
        forest[i] = ("e", name, tuple(sorted(d.items())), kids)
    else:
        sub = _xml_perturb(kids, rng)
        if sub is None:
            return None
        if any(sub[k][0] == "t" and sub[k + 1][0] == "t" for k in range(len(sub) - 1)):
            return None
        forest[i] = ("e", name, attrs, tuple(sub))
    return forest


def xml_eq_jobs(rng, n):
    jobs = []
    while len(jobs) < n:
        t1 = _xml_trees(rng)
        if not t1 or all(x[0] == "t" for x in t1) and rng.random() < 0.7:
            continue
        same = rng.random() < 0.4
        t2 = t1 if same else _xml_perturb(t1, rng)
        if t2 is None or (not same and t2 == t1):
            continue
        dt = "XMLLiteral"
        jobs.append({"cfg": {}, "events": [{"op": "eq", "fam": "xmleq", "a": {"lex": _xml_render(t1, rng), "dt": dt}, "b": {"lex": _xml_render(t2, rng), "dt": dt}, "same": same}]})
    return jobs


def run(out, tier, seed):
    quick = tier == "quick"
    out.rule = ("lexical forms assembled from pieces per datatype (sign x leading zeros x facet boundaries for the 13 integer types; integer / fraction parts for decimal; mantissa x exponent and specials for double / float; "
                "year x month-day x time-zone for date; h:m:s x fraction x time-zone for time; their product with 6 separators for dateTime; 80 duration bodies x sign x 3 duration types; hexBinary) plus near-misses "
                "(forms Python accepts and XSD does not: underscores, non-ASCII digits, inf / nan spellings, exponent in decimal, ISO-8601-only forms); Python values: ints, floats from random bit patterns, Decimals with exponents -40..40, "
                "dates / times / datetimes with whole-minute offsets up to +-14:00, timedeltas, Durations, bytes with an explicit binary datatype; eq() on all pairs of a 61-literal pool")
    out.assumptions += ["leading / trailing whitespace in a lexical form is not judged (whiteSpace=collapse is applied by some processors before the lexical check)",
                        "XSD 1.0 / 1.1 differences (+INF, year 0000) are not judged", "seconds with more than 6 fraction digits, years outside 0001-9999 and 24:00:00 are judged for validity only, not for the value",
                        "non-finite Decimals, offsets that are not whole minutes or exceed 14:00, Durations with mixed signs are outside the value spaces and not generated", "bare bytes without a datatype have no documented datatype and are not judged"]
    out.mc("MCXsdLexical", "MC_XsdLexical.cfg")
    rng = random.Random(seed)
    lj = lex_jobs(rng, quick)
    jobs = lj + py_jobs(rng, quick) + eq_jobs(rng, quick)
    jobs += xml_eq_jobs(rng, 600 if quick else 6000)
    # the same observations after a history: datatypes bound to an application type, the forms seen under it, bindings put back
    jobs += [{"cfg": dict(j["cfg"], history="rebind"), "events": j["events"]} for j in lj[::(7 if quick else 2)]]
    out.extra["jobs"] = len(jobs)
    out.conform(__name__, TRACE, jobs, nontrivial=nontrivial, chunk=400, par=16, heap="2g")
