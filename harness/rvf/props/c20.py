"""C20 — a graph backed by a SPARQL endpoint mirrors and updates the endpoint faithfully."""
from __future__ import annotations

import os
import random
import re
import shutil

from .. import tlc
from ..sparqlstore_replay import replay, OBJECTS

PROP = "C20"
TRACE = "TraceSparqlStore"


def execute(job):
    return replay(job["cfg"], job["events"])


def nontrivial(job, trace):
    ops = [e["op"] for e in job["events"]]
    return any(o in ("add", "addN", "update") for o in ops)


def vclass(job, trace, at):
    e = job["events"][at - 1]
    c = job["cfg"]
    return e["op"] + "|" + e.get("g", "") + "|" + e.get("kind", "") + "|ac=%s,dr=%s" % (c["autocommit"], c["dirty_reads"])


def match_finding(findings, job, trace, verdict, at):
    e = trace["ev"][at - 1]
    for f in findings:
        c = f.get("class")
        if not c or not any(verdict.startswith(x) for x in c["clauses"]):
            continue
        if c["predicate"] == "event" and e["op"] in c["ops"] and (not c.get("graphs") or any(q[3] in c["graphs"] for q in e.get("quads", [])) or e.get("g") in c["graphs"]) \
                and (not c.get("raise_regex") or re.search(c["raise_regex"], e.get("raise", ""))) and (not c.get("vocab") or job["cfg"].get("vocab") in c["vocab"]):
            return f
    return None


def gen(autocommit, dirty, depth, triples="MCTriples"):
    d = tlc.scratch("rvf-gen-")
    try:
        cfg = os.path.join(d, "gen.cfg")
        tlc.write_cfg(cfg, spec="Spec", constants={"Names": tlc.tla_set(["D", "g1"]), "Triples": "<- " + triples, "Autocommit": tlc.tla_bool(autocommit), "DirtyReads": tlc.tla_bool(dirty),
                                                  "Depth": str(depth), "Variant": '"ordered"'}, constraints=["Export"])
        return tlc.export_json("MCSparqlStore", cfg, timeout=1800)
    finally:
        shutil.rmtree(d, ignore_errors=True)


S, P, O, G = ["s1", "s2"], ["p1", "p2"], ["o1", "o2"], ["D", "g1", "g2"]


def random_history(rng, n):
    evs = []
    for _ in range(n):
        r = rng.random()
        t = [rng.choice(S), rng.choice(P), rng.choice(O)]
        g = rng.choice(G)
        pat = [x if rng.random() < 0.5 else "_" for x in t]
        if r < 0.22:
            evs.append({"op": "add", "g": g, "t": t})
        elif r < 0.30:
            evs.append({"op": "addN", "quads": [[rng.choice(S), rng.choice(P), rng.choice(O), rng.choice(G)] for _ in range(rng.randint(1, 3))]})
        elif r < 0.42:
            evs.append({"op": "remove", "g": g, "pat": pat})
        elif r < 0.46:
            evs.append({"op": "remove_graph", "g": g})
        elif r < 0.49:
            evs.append({"op": "add_graph", "g": rng.choice(G[1:])})
        elif r < 0.60:
            evs.append({"op": "update", "g": g, "kind": rng.choice(["insertdata", "deletedata", "replace", "replace"]), "t": t, "o2": rng.choice(O),
                        "form": rng.choice(["ground", "bound_upper", "bound_lower", "bound_mixed"])})
        elif r < 0.68:
            evs.append({"op": "commit"})
        elif r < 0.74:
            evs.append({"op": "rollback"})
        elif r < 0.84:
            evs.append({"op": "triples", "g": g, "pat": pat})
        elif r < 0.89:
            evs.append({"op": "query", "g": g, "pat": pat})
        elif r < 0.93:
            evs.append({"op": "len", "g": g})
        elif r < 0.97:
            evs.append({"op": "contains", "g": g, "t": t})
        elif r < 0.985:
            evs.append({"op": "contexts_of", "t": t})
        else:
            evs.append({"op": "contexts"})
    evs.append({"op": "contexts_of", "t": t})
    evs.append({"op": "triples", "g": "D", "pat": ["_", "_", "_"]})
    evs.append({"op": "commit"})
    return evs


def run(out, tier, seed):
    quick = tier == "quick"
    out.rule = ("histories: every history of length 3 (thorough: 4 with one triple) of SparqlStore.tla's alphabet (add, addN, remove with 4 pattern shapes, remove_graph, add_graph, three update forms through a facade graph, commit, rollback, read) "
                "over default + one named graph x autocommit x dirty_reads, exported by TLC, plus seeded histories of 6-30 calls over 3 graphs adding len / contains / contexts / query reads; x 6 object vocabularies "
                "(IRI, plain, quotes / newlines / backslash, language tags, datatypes, empty and falsy) x GET / POST / POST_FORM x XML / JSON; after every call the loopback endpoint's dataset is read directly")
    out.assumptions += ["the endpoint is rdflib's own engine behind an in-process SPARQL 1.1 Protocol shim whose default graph is not named urn:x-rdflib:default (as on a third-party endpoint)",
                        "blank nodes are not sent (unsupported by design)", "contexts() is compared with the endpoint's own list of named graphs (whether an emptied graph still exists is the endpoint's business)"]
    for ac in (True, False):
        for dr in (False, True):
            if ac and dr:
                continue
            out.mc("MCSparqlStore", "MC_SparqlStore_%s_%s.cfg" % (tlc.tla_bool(ac), tlc.tla_bool(dr)))
    out.mc("MCSparqlStore", "MC_SparqlStore_reversed.cfg", expect="Inv_Mirror")
    rng = random.Random(seed)
    jobs = []
    combos = [(m, f) for m in ("GET", "POST", "POST_FORM") for f in ("xml", "json")]
    vocabs = sorted(OBJECTS)
    n = 0
    for ac, dr in ((True, False), (False, False), (False, True)):
        r, hs = gen(ac, dr, 3 if quick else 3)
        out.states += r.distinct
        out.transitions += r.generated
        out.extra["histories_ac%s_dr%s" % (ac, dr)] = len(hs)
        if quick:
            hs = [h for i, h in enumerate(hs) if i % 60 == seed % 60]
        elif len(hs) > 60000:
            hs = [h for i, h in enumerate(hs) if i % 3 == seed % 3]
        for h in hs:
            n += 1
            m, f = combos[n % len(combos)]
            evs = [dict(e, form=["ground", "bound_upper", "bound_lower", "bound_mixed"][(n + i) % 4]) if e.get("op") == "update" else e for i, e in enumerate(h)]
            evs += [{"op": "triples", "g": "D", "pat": ["_", "_", "_"]}, {"op": "triples", "g": "g1", "pat": ["_", "_", "_"]}]
            jobs.append({"cfg": {"autocommit": ac, "dirty_reads": dr, "method": m, "format": f, "vocab": vocabs[n % len(vocabs)]}, "events": evs})
    # a graph announced, the announcement rolled back, announced again (empty or not), committed; removed and announced again
    directed = [[{"op": "add_graph", "g": "g1"}, {"op": "rollback"}, {"op": "add_graph", "g": "g1"}, {"op": "commit"}, {"op": "contexts"}],
                [{"op": "add_graph", "g": "g1"}, {"op": "commit"}, {"op": "remove_graph", "g": "g1"}, {"op": "commit"}, {"op": "add_graph", "g": "g1"}, {"op": "commit"}, {"op": "contexts"}],
                [{"op": "add_graph", "g": "g2"}, {"op": "rollback"}, {"op": "add_graph", "g": "g2"}, {"op": "add", "g": "g2", "t": [S[0], P[0], O[0]]}, {"op": "commit"}, {"op": "remove", "g": "g2", "pat": ["_", "_", "_"]}, {"op": "commit"}, {"op": "contexts"}],
                [{"op": "add_graph", "g": "g1"}, {"op": "add_graph", "g": "g1"}, {"op": "commit"}, {"op": "rollback"}, {"op": "add_graph", "g": "g1"}, {"op": "add_graph", "g": "g2"}, {"op": "rollback"}, {"op": "add_graph", "g": "g2"}, {"op": "commit"}, {"op": "contexts"}]]
    for h in directed:
        for ac, dr in ((True, False), (False, False), (False, True)):
            for m, f in combos[::2]:
                jobs.append({"cfg": {"autocommit": ac, "dirty_reads": dr, "method": m, "format": f, "vocab": "plain"}, "events": [dict(e) for e in h]})
    for i in range(400 if quick else 6000):
        ac = rng.random() < 0.4
        m, f = rng.choice(combos)
        jobs.append({"cfg": {"autocommit": ac, "dirty_reads": (not ac) and rng.random() < 0.4, "method": m, "format": f, "vocab": rng.choice(vocabs), "params": rng.random() < 0.4}, "events": random_history(rng, rng.randint(6, 30))})
    out.extra["jobs"] = len(jobs)
    out.conform(__name__, TRACE, jobs, nontrivial=nontrivial, chunk=300, par=16, heap="2g")
