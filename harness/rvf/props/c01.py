"""C01 — a Graph is exactly the set of triples its history implies, under every pattern."""
from __future__ import annotations

import random

from .. import tlc
from ..store_replay import replay

PROP = "C01"
TRACE = "TraceStore"

MUT = {"add", "addN", "remove", "set", "iadd", "isub", "iadd_ts", "isub_ts"}


def execute(job):
    return replay(job["cfg"], job["events"])


def nontrivial(job, trace):
    return any(e["op"] in MUT for e in job["events"])


def universe_consts(S, P, O, names, ops, depth, iters=0, gen=True):
    return {"S": tlc.tla_set(S), "P": tlc.tla_set(P), "O": tlc.tla_set(O), "Names": tlc.tla_set(names),
            "Ops": tlc.tla_set(ops), "MaxIters": str(iters), "Depth": str(depth), "GenMode": tlc.tla_bool(gen)}


CONFIGS = [
    {"facade": "graph-own", "store": "Memory"},
    {"facade": "graph-own", "store": "SimpleMemory"},
    {"facade": "graph-shared", "store": "Memory"},
]


def random_history(rng, U, names, n, iters=True):
    S, P, O = U
    evs = []
    nit = 0
    for _ in range(n):
        r = rng.random()
        g = rng.choice(names)
        t = [rng.choice(S), rng.choice(P), rng.choice(O)]
        if r < 0.40:
            evs.append({"op": "add", "g": g, "t": t})
        elif r < 0.55:
            pat = [x if rng.random() < 0.55 else "_" for x in t]
            evs.append({"op": "remove", "g": g, "pat": pat})
        elif r < 0.62:
            evs.append({"op": "set", "g": g, "t": t})
        elif r < 0.68:
            qs = [[rng.choice(S), rng.choice(P), rng.choice(O), rng.choice(names)] for _ in range(rng.randint(1, 3))]
            qs = [list(x) for x in {tuple(q) for q in qs}]
            evs.append({"op": "addN", "qs": qs})
        elif r < 0.73 and len(names) > 1:
            h = rng.choice([x for x in names if x != g])
            evs.append({"op": rng.choice(["iadd", "isub"]), "g": g, "h": h})
        elif r < 0.78:
            ts = [[rng.choice(S), rng.choice(P), rng.choice(O)] for _ in range(rng.randint(1, 3))]
            ts = [list(x) for x in {tuple(q) for q in ts}]
            evs.append({"op": rng.choice(["iadd_ts", "isub_ts"]), "g": g, "ts": ts})
        elif r < 0.83 and len(names) > 1:
            h = rng.choice(names)
            evs.append({"op": "binop", "o": rng.choice("+-*^"), "g": g, "h": h})
        elif iters and r < 0.90 and nit < 3:
            nit += 1
            pat = [x if rng.random() < 0.4 else "_" for x in t]
            evs.append({"op": "open", "it": nit, "g": g, "pat": pat})
        elif iters and nit > 0:
            evs.append({"op": "next", "it": rng.randint(1, nit)})
        else:
            evs.append({"op": "add", "g": g, "t": t})
    return evs


def iter_schedule(rng, U, names):
    """adds, then an open generator interleaved with exact removes / adds / next"""
    S, P, O = U
    T = [[s, p, o] for s in S for p in P for o in O]
    evs = [{"op": "add", "g": rng.choice(names), "t": rng.choice(T)} for _ in range(rng.randint(1, 4))]
    nit = 0
    for _ in range(rng.randint(3, 9)):
        r = rng.random()
        if nit == 0 or (r < 0.12 and nit < 2):
            nit += 1
            t = rng.choice(T)
            evs.append({"op": "open", "it": nit, "g": rng.choice(names), "pat": [x if rng.random() < 0.5 else "_" for x in t]})
        elif r < 0.55:
            evs.append({"op": "next", "it": rng.randint(1, nit)})
        elif r < 0.8:
            t = rng.choice(T)
            evs.append({"op": "remove", "g": rng.choice(names), "pat": t if rng.random() < 0.7 else [x if rng.random() < 0.5 else "_" for x in t]})
        else:
            evs.append({"op": "add", "g": rng.choice(names), "t": rng.choice(T)})
    return evs


def run(out, tier, seed):
    quick = tier == "quick"
    out.rule = ("histories: every TLC-exported behaviour of TripleStore.tla up to the depth bound (exhaustive), "
                "iterator schedules exported from the same spec, plus seeded random long histories; each replayed on rdflib under "
                "several store configurations and vocabularies; distinct = distinct (configuration, abstract history); "
                "non-trivial = contains at least one mutating operation")
    out.assumptions += ["terms are abstracted to a small universe; each vocabulary maps it to concrete rdflib terms (plain, falsy, hostile, typed, bnodey)",
                        "BerkeleyDB store not exercised (module not installed)",
                        "schedules are interleavings of calls in one thread"]
    # 1. model checking of the property spec and of the implementation-shaped spec
    out.mc("TripleStore", "MC_TripleStore_quick.cfg" if quick else "MC_TripleStore.cfg")
    out.mc("MemoryStore", "MC_MemoryStore_quick.cfg")
    out.mc("MemoryStore", "MC_MemoryStore_aswritten.cfg", expect="Inv_IterSafe")   # the deviation model must be caught

    S, P, O = ["s1", "s2"], ["p1"], ["o1", "o2"]
    names = ["g1", "g2"]
    base = {"S": S, "P": P, "O": O, "names": names}
    jobs = []
    # 2. exhaustive bounded histories from TLC
    ops = ["add", "addN", "remove", "set", "iadd", "isub", "binop"]
    depth = 2 if quick else 3
    r, hs = tlc.gen_histories("TripleStore", universe_consts(S, P, O, names if quick else ["g1", "g2"], ops if quick else ["add", "remove", "set", "iadd", "isub", "binop"], depth))
    out.states += r.distinct
    out.transitions += r.generated
    out.extra["exhaustive_histories"] = {"depth": depth, "count": len(hs), "universe": [S, P, O], "ops": ops}
    vocabs = ["plain", "falsy"] if quick else ["plain", "falsy", "hostile", "typed"]
    if len(hs) > 40000:
        # depth 3 over this universe is 373 248 histories: a seeded stride keeps the replay within memory (every history is still model-checked)
        stride = len(hs) // 40000 + 1
        hs = hs[seed % stride::stride]
        out.extra["exhaustive_histories"]["replayed"] = len(hs)
    for ci, cfgv in enumerate(CONFIGS):
        for hi, h in enumerate(hs):
            jobs.append({"cfg": dict(base, vocab=vocabs[(hi + ci) % len(vocabs)], **cfgv), "events": h})
    # overlapping universe (same IRI in all three positions)
    r2, hs2 = tlc.gen_histories("TripleStore", universe_consts(["a", "b"], ["a"], ["a", "b"], ["g1"], ["add", "remove", "set"], 3 if quick else 4))
    out.states += r2.distinct
    out.transitions += r2.generated
    if len(hs2) > 30000:
        stride2 = len(hs2) // 30000 + 1
        hs2 = hs2[seed % stride2::stride2]
    for cfgv in CONFIGS:
        for h in hs2:
            jobs.append({"cfg": dict(facade=cfgv["facade"], store=cfgv["store"], S=["a", "b"], P=["a"], O=["a", "b"], names=["g1"], vocab="plain"), "events": h})
    # 3. iterator schedules (default store only)
    #  (a) counterexample-guided: every history on which the as-written model of Memory violates IterSafe
    rw = tlc.run("MemoryStore", "Wit_MemoryStore.cfg", workers=16, timeout=900)
    if rw.error or rw.violated:
        raise tlc.MachineryError("witness export failed: %s\n%s" % (rw.error or rw.violated, rw.out[-1500:]))
    wit = [__import__("json").loads(x) for x in tlc.printed_strings(rw.out)]
    out.states += rw.distinct
    out.transitions += rw.generated
    out.extra["tierI_witness_schedules"] = len(wit)
    for h in wit:
        evs = [({"op": "next", "it": e["it"]} if e["op"] == "next" else e) for e in h]
        jobs.append({"cfg": dict(S=["s1"], P=["p1"], O=["o1", "o2"], names=names, facade="graph-shared", store="Memory", vocab="plain", obs="all"), "events": evs})
    #  (b) directed random schedules over a tiny universe (collisions likely)
    rng0 = random.Random(seed + 1)
    for i in range(1500 if quick else 20000):
        jobs.append({"cfg": dict(S=["s1", "s2"], P=["p1"], O=["o1", "o2"], names=names, facade="graph-shared", store="Memory",
                                 vocab=["plain", "falsy"][i % 2], obs="last"), "events": iter_schedule(rng0, (["s1", "s2"], ["p1"], ["o1", "o2"]), names)})
    out.exhaustive = True
    # 4. seeded long histories
    rng = random.Random(seed)
    nrand = 600 if quick else 6000
    U3 = (["s1", "s2", "s3"], ["p1", "p2"], ["o1", "o2", "o3"])
    for i in range(nrand):
        cfgv = CONFIGS[i % 3]
        vb = ["plain", "falsy", "hostile", "typed", "bnodey"][i % 5]
        evs = random_history(rng, U3, names, rng.randint(8, 30 if quick else 50), iters=cfgv["store"] == "Memory")
        jobs.append({"cfg": dict(S=U3[0], P=U3[1], O=U3[2], names=names, vocab=vb, obs="all" if i % 4 == 0 else "last", **cfgv), "events": evs})
    out.conform(__name__, TRACE, jobs, nontrivial=nontrivial, chunk=800 if quick else 1500)
    # the Graph-level API on top of add / remove / triples (set, += -= + - * ^, BatchAddGraph, projections ...): GraphOps.tla / TraceGraphAlgebra.tla
    from . import g04
    g04.add_jobs(out, tier, seed)
    if not quick:
        # the repository's own tests, run under the Memory-store hooks (rdflib/_verif.py), validated against TraceMemory.tla
        from . import g03
        g03.add_jobs(out, False)
