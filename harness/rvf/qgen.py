"""Bounded-grammar enumeration and seeded generation of SPARQL query ASTs and data (C04 C08 C10 C15).

ASTs follow spec/Sparql.tla.  The enumeration is systematic over operator x operand-pattern pools; the random
generator goes deeper (nesting <= 3, shared / non-well-designed variables on purpose).
"""
from __future__ import annotations

import itertools


def I(x):
    return {"k": "iri", "v": x}


def V(x):
    return {"k": "var", "v": x}


def N(n):
    return {"k": "num", "v": n}


def S(s):
    return {"k": "str", "v": s}


def ev(x):
    return {"e": "var", "v": x}


def ec(t):
    return {"e": "const", "t": t}


def bgp(*tps):
    return {"t": "bgp", "tps": [list(tp) for tp in tps]}


def grp(*elts):
    return {"elts": list(elts)}


NODES = [I("n1"), I("n2"), I("n3")]
PREDS = [I("p"), I("q")]
# Data literals are all numeric: SPARQL leaves `<` between literals of different families to operator extensions
# (17.3.1), so the generators never order a number against a string; strings occur as constants of = / != / sameTerm.
LITS = [N(1), N(2), N(3)]
OBJS = NODES + LITS
CONSTS = OBJS + [S("a")]


def universe():
    return [[s, p, o] for s in NODES for p in PREDS for o in OBJS]


def random_graph(rng, kmax=6):
    U = universe()
    return rng.sample(U, rng.randint(0, kmax))


def random_dataset(rng):
    quads = [t + ["D"] for t in random_graph(rng, 4)]
    for g in ("g1", "g2"):
        quads += [t + [g] for t in random_graph(rng, 3)]
    return {"op": "data", "quads": quads, "graphs": ["g1", "g2", "g3"] if rng.random() < 0.3 else ["g1", "g2"]}


# ---------------------------------------------------------------- systematic pool
A_POOL = [
    bgp((V("x"), I("p"), V("y"))),
    bgp((V("x"), I("p"), V("y")), (V("y"), I("q"), V("z"))),
    bgp((V("x"), V("r"), N(1))),
    bgp((I("n1"), I("p"), V("y"))),
    bgp((V("x"), I("q"), V("x"))),
]
B_POOL = [
    bgp((V("x"), I("q"), V("z"))),
    bgp((V("y"), I("q"), V("z"))),
    bgp((V("u"), I("q"), V("w"))),
    bgp((V("x"), I("p"), V("y"))),
    bgp((V("z"), I("p"), N(2))),
    bgp((V("y"), I("p"), V("x"))),
]
FILTERS = [
    {"e": "=", "a": ev("z"), "b": ec(N(1))},
    {"e": "!=", "a": ev("y"), "b": ev("z")},
    {"e": "<", "a": ev("y"), "b": ev("z")},
    {"e": "bound", "v": "z"},
    {"e": "!", "a": {"e": "bound", "v": "z"}},
    {"e": "||", "a": {"e": "=", "a": ev("y"), "b": ec(N(1))}, "b": {"e": "=", "a": ev("z"), "b": ec(N(2))}},
    {"e": "&&", "a": {"e": "<", "a": ev("y"), "b": ec(N(2))}, "b": {"e": "isiri", "a": ev("x")}},
    {"e": "!", "a": {"e": "||", "a": {"e": "=", "a": ev("y"), "b": ec(N(1))}, "b": {"e": "=", "a": ev("z"), "b": ec(N(2))}}},
    {"e": "sameterm", "a": ev("y"), "b": ev("z")},
    {"e": "isliteral", "a": ev("y")},
    # a bare variable as an operand of || / && / !: unbound, it is an error of that operand only; bound, it has an effective boolean value
    {"e": "||", "a": ev("nope"), "b": {"e": "=", "a": ev("y"), "b": ec(N(1))}},
    {"e": "||", "a": {"e": "=", "a": ev("y"), "b": ec(N(1))}, "b": ev("z")},
    {"e": "!", "a": {"e": "&&", "a": ev("z"), "b": {"e": "=", "a": ev("y"), "b": ec(N(2))}}},
    {"e": "&&", "a": ev("y"), "b": {"e": "!", "a": ev("nope")}},
    # IN / NOT IN with unbound and erroring members
    {"e": "in", "neg": False, "a": ev("y"), "args": [ev("nope"), ec(N(1)), ev("z")]},
    {"e": "in", "neg": True, "a": ev("y"), "args": [ev("z"), ec(N(1))]},
    {"e": "in", "neg": True, "a": ev("y"), "args": [{"e": "+", "a": ev("x"), "b": ec(N(1))}, ec(N(2))]},
    {"e": "in", "neg": False, "a": ev("y"), "args": []},
    {"e": "in", "neg": True, "a": ev("nope"), "args": []},
]


def systematic():
    """{A op B} for every operator and operand pair, plus filter / bind / values / exists / subselect / graph shapes"""
    qs = []
    for a, b in itertools.product(A_POOL, B_POOL):
        qs.append(grp(a, {"t": "group", "g": grp(b)}))
        qs.append(grp(a, {"t": "optional", "g": grp(b)}))
        qs.append(grp(a, {"t": "union", "gs": [grp(a), grp(b)]}) if False else grp({"t": "union", "gs": [grp(a), grp(b)]}))
        qs.append(grp(a, {"t": "minus", "g": grp(b)}))
        qs.append(grp(a, {"t": "filter", "e": {"e": "exists", "g": grp(b)}}))
        qs.append(grp(a, {"t": "filter", "e": {"e": "notexists", "g": grp(b)}}))
        qs.append(grp(a, {"t": "optional", "g": grp(b)}, {"t": "optional", "g": grp(bgp((V("z"), I("p"), V("w"))))}))
        qs.append(grp({"t": "optional", "g": grp(a)}, b))
        qs.append(grp(a, {"t": "group", "g": grp(b, {"t": "minus", "g": grp(bgp((V("x"), I("p"), V("v"))))})}))
        qs.append(grp(a, {"t": "group", "g": grp(b, {"t": "filter", "e": {"e": "bound", "v": "x"}})}))
        qs.append(grp(a, {"t": "subselect", "q": {"form": "select", "proj": ["z"], "distinct": True, "where": grp(b)}}))
        for f in FILTERS:
            qs.append(grp(a, {"t": "optional", "g": grp(b, {"t": "filter", "e": f})}))
    # duplicates matter: sources of repeated solutions followed by every operator
    K_POOL = [bgp((V("x"), I("q"), V("k"))), bgp((V("k"), I("p"), V("w"))), bgp((V("x"), I("p"), V("k")), (V("k"), I("q"), V("w")))]
    for a in A_POOL[:3]:
        dups = [{"t": "union", "gs": [grp(a), grp(a)]}, {"t": "union", "gs": [grp(a), grp(bgp((V("x"), I("q"), V("y"))))]},
                {"t": "values", "vars": ["y"], "rows": [[N(1)], [N(1)], [N(2)], [I("n2")], [I("n2")]]}]
        for d in dups:
            for b in B_POOL[:4]:
                qs.append(grp(d, {"t": "minus", "g": grp(b)}))
                qs.append(grp(d, {"t": "optional", "g": grp(b)}))
                qs.append(grp(d, b))
                qs.append(grp(b, {"t": "minus", "g": grp(d)}))
            qs.append(grp(d, {"t": "filter", "e": FILTERS[0]}))
            qs.append(grp(d, a, {"t": "minus", "g": grp(bgp((V("x"), I("q"), V("zz"))))}))
        # BIND / VALUES introduce a variable that later elements use
        binds = [{"t": "bind", "e": ev("y"), "v": "k"}, {"t": "bind", "e": {"e": "+", "a": ev("y"), "b": ec(N(1))}, "v": "k"},
                 {"t": "bind", "e": {"e": "if", "a": {"e": "isiri", "a": ev("y")}, "b": ev("y"), "c": ev("x")}, "v": "k"},
                 {"t": "values", "vars": ["k"], "rows": [[N(1)], [I("n2")], [{"k": "undef"}]]}]
        for bd in binds:
            for kp in K_POOL:
                qs.append(grp(a, bd, {"t": "optional", "g": grp(kp)}))
                qs.append(grp(a, bd, {"t": "minus", "g": grp(kp)}))
                qs.append(grp(a, bd, kp))
                qs.append(grp(a, bd, {"t": "union", "gs": [grp(kp), grp(bgp((V("x"), I("q"), V("w"))))]}))
                qs.append(grp(a, bd, {"t": "filter", "e": {"e": "exists", "g": grp(kp)}}))
                qs.append(grp(a, {"t": "optional", "g": grp(kp)}, {"t": "bind", "e": {"e": "coalesce", "args": [ev("k"), ec(N(0))]}, "v": "k2"}))
            qs.append(grp(a, bd, {"t": "filter", "e": {"e": "=", "a": ev("k"), "b": ec(N(2))}}))
            qs.append(grp(a, bd, {"t": "optional", "g": grp(bgp((V("x"), I("q"), V("w")), ), {"t": "filter", "e": {"e": "=", "a": ev("w"), "b": ev("k")}})}))
    # joins whose operands are not plain patterns: a DISTINCT sub-select / nested join on one side, OPTIONAL- or UNION-unbound
    # shared variables on the other, in both operand orders
    for a in A_POOL[:3]:
        for b in B_POOL[:4]:
            left = {"t": "group", "g": grp(a, {"t": "optional", "g": grp(b)})}
            leftu = {"t": "group", "g": grp({"t": "union", "gs": [grp(a), grp(b)]})}
            for zv in ("z", "y", "x"):
                sub = {"t": "subselect", "q": {"form": "select", "proj": [zv], "distinct": True, "where": grp(bgp((V("s1"), I("q"), V(zv))))}}
                nest = {"t": "group", "g": grp(bgp((V("s1"), I("q"), V(zv))), {"t": "group", "g": grp(bgp((V("s1"), I("p"), V("o1"))))})}
                for l in (left, leftu):
                    for r in (sub, nest):
                        qs.append(grp(l, r))
                        qs.append(grp(r, l))
    # a variable bound by the outermost BGP and used in the FILTER of an OPTIONAL (for trailing VALUES / initBindings)
    for fe in ({"e": "=", "a": ev("z"), "b": ev("y")}, {"e": "<", "a": ev("y"), "b": ev("z")}, {"e": "!=", "a": ev("z"), "b": ev("y")}):
        qs.append(grp(bgp((V("x"), I("p"), V("y"))), {"t": "optional", "g": grp(bgp((V("x"), I("q"), V("z"))), {"t": "filter", "e": fe})}))
        qs.append(grp(bgp((V("x"), I("p"), V("y"))), {"t": "optional", "g": grp(bgp((V("w"), I("q"), V("z"))), {"t": "filter", "e": fe})}))
    for a in A_POOL + B_POOL:
        for f in FILTERS:
            qs.append(grp(a, {"t": "filter", "e": f}))
            qs.append(grp({"t": "filter", "e": f}, a))
        qs.append(grp(a, {"t": "bind", "e": {"e": "+", "a": ev("y"), "b": ec(N(1))}, "v": "k"}))
        qs.append(grp(a, {"t": "bind", "e": {"e": "+", "a": ev("y"), "b": ec(N(1))}, "v": "k"}, {"t": "filter", "e": {"e": "bound", "v": "k"}}))
        qs.append(grp(a, {"t": "bind", "e": {"e": "if", "a": {"e": "<", "a": ev("y"), "b": ec(N(2))}, "b": ec(S("lo")), "c": ec(S("hi"))}, "v": "k"}))
        qs.append(grp(a, {"t": "bind", "e": {"e": "coalesce", "args": [{"e": "+", "a": ev("y"), "b": ec(N(1))}, ev("z"), ec(N(0))]}, "v": "k"}))
        qs.append(grp(a, {"t": "bind", "e": {"e": "||", "a": {"e": "=", "a": ev("y"), "b": ec(N(1))}, "b": {"e": "=", "a": ev("nope"), "b": ec(N(2))}}, "v": "k"}))
        qs.append(grp(a, {"t": "bind", "e": {"e": "&&", "a": {"e": "=", "a": ev("y"), "b": ec(N(1))}, "b": {"e": "=", "a": ev("nope"), "b": ec(N(2))}}, "v": "k"}))
        qs.append(grp(a, {"t": "values", "vars": ["x"], "rows": [[I("n1")], [I("n2")]]}))
        qs.append(grp(a, {"t": "values", "vars": ["x", "y"], "rows": [[I("n1"), {"k": "undef"}], [{"k": "undef"}, N(1)]]}))
        qs.append(grp({"t": "values", "vars": ["y"], "rows": [[N(1)], [N(1)], [I("n2")]]}, a))
        qs.append(grp({"t": "graph", "name": V("g"), "g": grp(a)}))
        qs.append(grp({"t": "graph", "name": I("g1"), "g": grp(a)}, {"t": "optional", "g": grp({"t": "graph", "name": V("g"), "g": grp(bgp((V("x"), I("q"), V("z"))))})}))
        qs.append(grp(a, {"t": "graph", "name": V("g"), "g": grp(bgp((V("x"), V("r2"), V("o2"))))}))
        qs.append(grp({"t": "graph", "name": I("g3"), "g": grp(a)}))
        qs.append(grp({"t": "graph", "name": I("nosuch"), "g": grp(a)}))
    # both ends of a pattern bound by an earlier one, predicate free: the (s, ?p, o) lookup
    for p1 in (I("p"), I("q"), V("r")):
        qs.append(grp(bgp((V("x"), p1, V("y")), (V("y"), V("r2"), V("x")))))
        qs.append(grp(bgp((V("x"), p1, V("y"))), {"t": "optional", "g": grp(bgp((V("x"), V("r2"), V("y"))))}))
        qs.append(grp(bgp((V("x"), p1, V("y"))), {"t": "filter", "e": {"e": "notexists", "g": grp(bgp((V("y"), V("r2"), V("x"))))}}))
    # IF evaluates only the branch it selects: the other one may be an unbound variable (the idiom IF(BOUND(?z), ?z, "none") after OPTIONAL)
    for a in A_POOL[:3]:
        for b in B_POOL[:3]:
            opt = {"t": "optional", "g": grp(b)}
            qs.append(grp(a, opt, {"t": "bind", "e": {"e": "if", "a": {"e": "bound", "v": "z"}, "b": ev("z"), "c": ec(S("none"))}, "v": "k"}))
            qs.append(grp(a, opt, {"t": "bind", "e": {"e": "if", "a": {"e": "!", "a": {"e": "bound", "v": "z"}}, "b": ec(N(0)), "c": ev("z")}, "v": "k"}))
            qs.append(grp(a, opt, {"t": "filter", "e": {"e": "if", "a": {"e": "bound", "v": "z"}, "b": {"e": "=", "a": ev("z"), "b": ec(N(1))}, "c": {"e": "bound", "v": "x"}}}))
            qs.append(grp(a, opt, {"t": "bind", "e": {"e": "coalesce", "args": [ev("z"), ev("nope"), ev("y")]}, "v": "k"}))
    # patterns written after a MINUS / UNION / nested group / VALUES / FILTER of the same group: the position of a triple block matters
    # for MINUS (what is removed is decided before the later block joins) and must not matter for the others
    C_POOL = [bgp((V("z"), I("p"), V("w"))), bgp((V("x"), I("q"), V("z"))), bgp((V("z"), I("q"), V("x")))]
    for a in A_POOL[:3]:
        for b in B_POOL[:3]:
            for c3 in C_POOL:
                qs.append(grp(a, {"t": "minus", "g": grp(b)}, c3))
                qs.append(grp(a, {"t": "group", "g": grp(a, {"t": "minus", "g": grp(b)})}, c3))
                qs.append(grp(a, {"t": "union", "gs": [grp(b), grp(c3)]}, c3))
                qs.append(grp(a, {"t": "filter", "e": {"e": "notexists", "g": grp(b)}}, c3))
                qs.append(grp({"t": "values", "vars": ["x"], "rows": [[I("n1")], [I("n2")]]}, {"t": "minus", "g": grp(b)}, c3))
    # a data block is a multiset of rows: one that lists a value twice, AFTER the pattern that binds its variable (and after OPTIONAL / UNION)
    for a in A_POOL[:4]:
        for rows, vs in (([[I("n1")], [I("n1")], [I("n2")]], ["x"]), ([[N(1)], [N(1)], [N(2)], [N(1)]], ["y"]), ([[I("n1"), N(1)], [I("n1"), N(1)], [I("n2"), N(2)]], ["x", "y"]),
                         ([[I("n2")], [I("n2")]], ["y"])):
            vb = {"t": "values", "vars": vs, "rows": rows}
            qs.append(grp(a, vb))
            qs.append(grp(a, {"t": "optional", "g": grp(B_POOL[0])}, vb))
            qs.append(grp({"t": "union", "gs": [grp(a), grp(B_POOL[3])]}, vb))
            qs.append(grp(a, {"t": "group", "g": grp(vb)}))
            qs.append(grp(a, {"t": "optional", "g": grp(vb)}))
            qs.append(grp(a, {"t": "filter", "e": {"e": "exists", "g": grp(vb)}}))
            qs.append(grp(a, {"t": "minus", "g": grp(vb)}))
    # chains of three and more joined groups: each part is evaluated on its own, the bindings of the earlier parts are not visible inside a later
    # one (a sub-select that uses a variable it does not project, a nested group whose FILTER looks at a variable bound outside only)
    for a in A_POOL[:3]:
        for b in B_POOL[:3]:
            lasts = [{"t": "subselect", "q": {"form": "select", "proj": ["x"], "where": grp(bgp((V("x"), I("q"), V("y"))))}},
                     {"t": "subselect", "q": {"form": "select", "proj": ["z"], "where": grp(bgp((V("z"), I("p"), V("y")), (V("z"), I("q"), V("x"))))}},
                     {"t": "group", "g": grp(bgp((V("x"), I("q"), V("k"))), {"t": "filter", "e": {"e": "bound", "v": "y"}})},
                     {"t": "group", "g": grp(bgp((V("x"), I("q"), V("k"))), {"t": "filter", "e": {"e": "!", "a": {"e": "bound", "v": "y"}}})},
                     {"t": "group", "g": grp(bgp((V("u"), I("p"), V("k"))), {"t": "filter", "e": {"e": "=", "a": ev("k"), "b": ev("y")}})},
                     {"t": "group", "g": grp(bgp((V("x"), I("p"), V("k"))), {"t": "bind", "e": {"e": "coalesce", "args": [ev("y"), ec(N(0))]}, "v": "c"})}]
            for c3 in lasts:
                ga, gb = {"t": "group", "g": grp(a)}, {"t": "group", "g": grp(b)}
                qs.append(grp(ga, gb, c3))
                qs.append(grp(ga, {"t": "union", "gs": [grp(b), grp(a)]}, c3))
                qs.append(grp(ga, gb, {"t": "group", "g": grp(a)}, c3))
                qs.append(grp(a, gb, c3))
    # a BIND in a group of its own whose expression names a variable that is bound outside that group only: not in scope, the new variable stays unbound
    for a in A_POOL[:3]:
        for be in (ev("y"), {"e": "+", "a": ev("y"), "b": ec(N(1))}, {"e": "coalesce", "args": [ev("y"), ec(S("none"))]}, {"e": "bound", "v": "y"}):
            bd = {"t": "bind", "e": be, "v": "k"}
            qs.append(grp(a, {"t": "group", "g": grp(bd)}))
            qs.append(grp({"t": "group", "g": grp(bd)}, a))
            qs.append(grp(a, {"t": "optional", "g": grp(bd)}))
            qs.append(grp(a, {"t": "group", "g": grp(bgp((V("x"), I("q"), V("z"))), bd)}))
            qs.append(grp(a, {"t": "subselect", "q": {"form": "select", "proj": ["k"], "where": grp(bd)}}))
            qs.append(grp(a, {"t": "union", "gs": [grp(bd), grp(bgp((V("x"), I("q"), V("k"))))]}))
    # MINUS whose left operand has solutions with different domains (UNION branches over different variables, VALUES with UNDEF): whether a
    # solution shares a variable with the right-hand side is decided solution by solution, in either order of the branches / rows
    for b in (bgp((V("y"), I("q"), V("w"))), bgp((V("x"), I("q"), V("w"))), bgp((V("z"), I("p"), V("y")))):
        u1, u2 = grp(bgp((V("x"), I("p"), V("k")))), grp(bgp((V("u"), I("p"), V("y"))))
        u3 = grp(bgp((V("x"), I("q"), V("x2"))))
        for gs in ([u1, u2], [u2, u1], [u3, u2, u1], [u1, u3]):
            qs.append(grp({"t": "union", "gs": gs}, {"t": "minus", "g": grp(b)}))
        for rows in ([[I("n1"), {"k": "undef"}], [{"k": "undef"}, N(1)], [I("n2"), N(2)]], [[{"k": "undef"}, N(1)], [I("n1"), {"k": "undef"}]], [[{"k": "undef"}, {"k": "undef"}], [I("n1"), N(1)], [I("n2"), {"k": "undef"}]]):
            qs.append(grp({"t": "values", "vars": ["x", "y"], "rows": rows}, {"t": "minus", "g": grp(b)}))
    # EXISTS / NOT EXISTS / MINUS / OPTIONAL evaluated inside GRAPH ?g: the active graph is part of what the inner pattern sees
    for a in A_POOL[:4]:
        for b in B_POOL[:3]:
            for k in ("exists", "notexists"):
                qs.append(grp({"t": "graph", "name": V("g"), "g": grp(a, {"t": "filter", "e": {"e": k, "g": grp(b)}})}))
                qs.append(grp(a, {"t": "graph", "name": V("g"), "g": grp(b, {"t": "filter", "e": {"e": k, "g": grp(a)}})}))
            qs.append(grp({"t": "graph", "name": V("g"), "g": grp(a, {"t": "minus", "g": grp(b)})}))
            qs.append(grp({"t": "graph", "name": V("g"), "g": grp(a, {"t": "optional", "g": grp(b)})}))
    return qs


def wide_graph(rng, lo=14, hi=20):
    """enough triples that joins see operands of a dozen rows"""
    U = universe()
    return rng.sample(U, rng.randint(lo, hi))


def wide_dataset(rng):
    """the same subjects in every graph, different triples about them"""
    quads = [t + ["D"] for t in rng.sample(universe(), 8)]
    for g in ("g1", "g2"):
        quads += [t + [g] for t in rng.sample(universe(), rng.randint(6, 9))]
    return {"op": "data", "quads": quads, "graphs": ["g1", "g2"]}


def wide_queries():
    """the operator shapes whose evaluation strategy depends on operand size or on the active graph"""
    import json
    return [w for w in systematic() if any(k in json.dumps(w) for k in ('"subselect"', '"t": "group"', '"exists"', '"notexists"', '"t": "graph"', '"values"'))]


# ---------------------------------------------------------------- random, deeper
def rand_tp(rng, vars_):
    s = rng.choice([V(rng.choice(vars_))] * 3 + NODES)
    p = rng.choice(PREDS * 4 + [V("r")])
    o = rng.choice([V(rng.choice(vars_))] * 3 + OBJS)
    return (s, p, o)


def rand_expr(rng, vars_, depth=2):
    r = rng.random()
    v = lambda: ev(rng.choice(vars_ + ["nope"]))
    c = lambda: ec(rng.choice(CONSTS))
    if depth == 0 or r < 0.45:
        k = rng.choice(["=", "!=", "<", ">", "<=", ">=", "bound", "isiri", "isliteral", "sameterm", "in", "barevar"])
        if k == "in":
            return {"e": "in", "neg": rng.random() < 0.5, "a": v(), "args": [rng.choice([v, c])() for _ in range(rng.randint(0, 3))]}
        if k == "barevar":
            return v()
        if k in ("<", ">", "<=", ">="):
            return {"e": k, "a": v(), "b": rng.choice([v, lambda: ec(rng.choice(LITS))])()}
        if k == "bound":
            return {"e": "bound", "v": rng.choice(vars_ + ["nope"])}
        if k in ("isiri", "isliteral"):
            return {"e": k, "a": v()}
        return {"e": k, "a": v(), "b": rng.choice([v, c])()}
    if r < 0.6:
        return {"e": "!", "a": rand_expr(rng, vars_, depth - 1)}
    if r < 0.85:
        return {"e": rng.choice(["&&", "||"]), "a": rand_expr(rng, vars_, depth - 1), "b": rand_expr(rng, vars_, depth - 1)}
    return {"e": rng.choice(["exists", "notexists"]), "g": grp(bgp(rand_tp(rng, vars_)))}


def rand_group(rng, depth, dataset=False, vars_=("x", "y", "z", "w")):
    vars_ = list(vars_)
    elts = [bgp(*[rand_tp(rng, vars_) for _ in range(rng.randint(1, 2))])]
    bound = set()
    nb = 0
    for _ in range(rng.randint(0, 3 if depth > 0 else 1)):
        r = rng.random()
        if depth > 0 and r < 0.22:
            g = rand_group(rng, depth - 1, dataset, vars_)
            if rng.random() < 0.4:
                g["elts"].append({"t": "filter", "e": rand_expr(rng, vars_, 1)})
            elts.append({"t": "optional", "g": g})
        elif depth > 0 and r < 0.34:
            elts.append({"t": "union", "gs": [rand_group(rng, depth - 1, dataset, vars_), rand_group(rng, depth - 1, dataset, vars_)]})
        elif depth > 0 and r < 0.46:
            elts.append({"t": "minus", "g": rand_group(rng, depth - 1, dataset, vars_)})
        elif depth > 0 and r < 0.56:
            elts.append({"t": "group", "g": rand_group(rng, depth - 1, dataset, vars_)})
        elif r < 0.72:
            elts.append({"t": "filter", "e": rand_expr(rng, vars_)})
        elif r < 0.80:
            nb += 1
            nv = "k%d%d" % (depth, nb)
            elts.append({"t": "bind", "e": rng.choice([{"e": "+", "a": ev(rng.choice(vars_)), "b": ec(N(1))}, rand_expr(rng, vars_, 1),
                                                       {"e": "coalesce", "args": [ev(rng.choice(vars_)), ec(N(0))]}]), "v": nv})
        elif r < 0.88:
            vs = rng.sample(vars_, rng.randint(1, 2))
            rows = [[rng.choice(OBJS + [{"k": "undef"}]) for _ in vs] for _ in range(rng.randint(1, 3))]
            elts.append({"t": "values", "vars": vs, "rows": rows})
        elif depth > 0 and r < 0.94:
            sub = rand_group(rng, depth - 1, dataset, vars_)
            pv = rng.sample(vars_, rng.randint(1, 2))
            elts.append({"t": "subselect", "q": {"form": "select", "proj": pv, "distinct": rng.random() < 0.5, "where": sub}})
        elif dataset:
            elts.append({"t": "graph", "name": rng.choice([V("g"), I("g1"), I("g2"), I("g3")]), "g": rand_group(rng, 0, dataset, vars_)})
    # a BIND must not re-bind a variable already in scope: we only use fresh names k<depth><n>
    return {"elts": elts}


def as_query(rng, where, dataset=False):
    r = rng.random()
    if r < 0.55:
        return {"form": "select", "proj": ["*"], "where": where}
    if r < 0.75:
        vs = ["x", "y", "z", "w"]
        return {"form": "select", "proj": rng.sample(vs, rng.randint(1, 3)), "distinct": rng.random() < 0.4, "where": where}
    if r < 0.88:
        return {"form": "ask", "proj": ["*"], "where": where}
    tpl = [[rng.choice([V("x"), V("y"), I("n1")]), rng.choice([I("p"), V("r"), V("y")]), rng.choice([V("y"), V("z"), N(7)])] for _ in range(rng.randint(1, 2))]
    return {"form": "construct", "proj": ["*"], "template": tpl, "where": where}


# ---------------------------------------------------------------- scope-leak class (known finding KF-C04-pushdown)
def _pat_vars(g):
    out = set()
    for e in g["elts"]:
        t = e["t"]
        if t == "bgp":
            for tp in e["tps"]:
                out |= {x["v"] for x in tp if x.get("k") == "var"}
        elif t in ("group", "optional"):
            out |= _pat_vars(e["g"])
        elif t == "union":
            for x in e["gs"]:
                out |= _pat_vars(x)
        elif t == "graph":
            out |= _pat_vars(e["g"])
            if e["name"].get("k") == "var":
                out.add(e["name"]["v"])
        elif t == "bind":
            out.add(e["v"])
        elif t == "values":
            out |= set(e["vars"])
        elif t == "subselect":
            out |= set(e["q"]["proj"]) & _pat_vars(e["q"]["where"]) if e["q"]["proj"] != ["*"] else _pat_vars(e["q"]["where"])
    return out


def _expr_vars(e):
    out = set()
    if isinstance(e, dict):
        if e.get("e") in ("var", "bound"):
            out.add(e["v"])
        if e.get("e") in ("exists", "notexists"):
            return out | _all_vars(e["g"])
        for v in e.values():
            out |= _expr_vars(v)
    elif isinstance(e, list):
        for v in e:
            out |= _expr_vars(v)
    return out


def _all_vars(g):
    out = _pat_vars(g)
    for e in g["elts"]:
        if e["t"] == "filter":
            out |= _expr_vars(e["e"])
        elif e["t"] == "minus":
            out |= _all_vars(e["g"])
    return out


def _subgroups(g):
    """(group, is_direct_optional_body) for every group nested in g"""
    for e in g["elts"]:
        t = e["t"]
        if t in ("group", "minus", "graph"):
            yield e["g"], False
            yield from _subgroups(e["g"])
        elif t == "optional":
            yield e["g"], True
            yield from _subgroups(e["g"])
        elif t == "union":
            for x in e["gs"]:
                yield x, False
                yield from _subgroups(x)
        elif t == "subselect":
            yield e["q"]["where"], False
            yield from _subgroups(e["q"]["where"])
        elif t == "filter":
            for x in _exists_groups(e["e"]):
                yield from _subgroups(x)


def _exists_groups(e):
    if isinstance(e, dict):
        if e.get("e") in ("exists", "notexists"):
            yield e["g"]
        for v in e.values():
            yield from _exists_groups(v)
    elif isinstance(e, list):
        for v in e:
            yield from _exists_groups(v)


def scope_leak(where):
    """a nested group mentions, in a FILTER or in the right-hand side of a MINUS, a variable that is bound elsewhere in
    the query but not by the nested group's own patterns: rdflib's top-down evaluation lets it see the outer binding"""
    bound_anywhere = _pat_vars(where)
    for g, _ in _subgroups(where):
        bound_anywhere |= _pat_vars(g)
    # a sub-SELECT whose non-projected variables also occur outside it: rdflib correlates them when the join is lazy
    def subselects(g):
        for e in g["elts"]:
            if e["t"] == "subselect":
                yield e
                yield from subselects(e["q"]["where"])
            elif e["t"] in ("group", "optional", "minus", "graph"):
                yield from subselects(e["g"])
            elif e["t"] == "union":
                for x in e["gs"]:
                    yield from subselects(x)
    import json as _json
    for ss in subselects(where):
        inner = _pat_vars(ss["q"]["where"])
        hidden = inner - set(ss["q"]["proj"]) if ss["q"]["proj"] != ["*"] else set()
        txt = _json.dumps(where)
        rest = txt.replace(_json.dumps(ss), "")
        if any(('"v": "%s"' % v) in rest for v in hidden):
            return True
    for g, direct_optional in _subgroups(where):
        own = _pat_vars(g)
        for e in g["elts"]:
            if e["t"] == "filter" and not direct_optional:
                if (_expr_vars(e["e"]) - own) & bound_anywhere:
                    return True
            if e["t"] == "minus":
                if (_all_vars(e["g"]) - own) & bound_anywhere:
                    return True
    return False
