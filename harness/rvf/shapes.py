"""Structured input space for the document checks (C03 C05 C06 C12): term classes, blank-node topologies, rdf:List shapes."""
from __future__ import annotations

import itertools

RDF = "http://www.w3.org/1999/02/22-rdf-syntax-ns#"
XSD = "http://www.w3.org/2001/XMLSchema#"
EX = "http://ex.example/ns#"


def I(v):
    return {"k": "iri", "v": v}


def Bn(v):
    return {"k": "bnode", "v": v}


def L(v, dt="", lang=""):
    return {"k": "lit", "v": v, "dt": dt, "lang": lang}


S1, S2 = I(EX + "s1"), I(EX + "s2")
P1, P2 = I(EX + "p1"), I(EX + "p2")
FIRST, REST, NIL, TYPE = I(RDF + "first"), I(RDF + "rest"), I(RDF + "nil"), I(RDF + "type")

# one or two representatives per character class; "ctrl" is not expressible in XML 1.0
CLASSES = {
    "plain": ["a"], "dquote": ['"'], "squote": ["'"], "backslash": ["\\"], "LF": ["\n"], "CR": ["\r"], "TAB": ["\t"], "space": [" "],
    "lt": ["<"], "gt": [">"], "amp": ["&"], "hash": ["#"], "dot": ["."], "percent": ["%"], "brace": ["{"], "nonASCII": ["é", " "],
    "nonBMP": ["\U0001F600"], "ctrl": ["\x01", "\x7f"], "fffe": ["￾"], "combining": ["é"],
    "cdataend": ["]]>", "x[y[0]]>z"], "commentend": ["-->", "<!--"],
}
XML_BAD = {"ctrl", "fffe"}


def class_strings(maxlen, classes=None):
    classes = classes or list(CLASSES)
    for n in range(0, maxlen + 1):
        for cs in itertools.product(classes, repeat=n):
            yield cs


def spell(cs, variant=0):
    return "".join(CLASSES[c][variant % len(CLASSES[c])] for c in cs)


def literal_graphs(maxlen, variant=0, classes=None):
    """(name, triples, xml_expressible) — one literal per graph, in plain / language-tagged / typed flavours"""
    for i, cs in enumerate(class_strings(maxlen, classes)):
        text = spell(cs, variant)
        ok = not (set(cs) & XML_BAD) and not ("\x7f" in text and False)
        flav = i % 4
        if flav == 0:
            lit = L(text)
        elif flav == 1:
            lit = L(text, lang=["en", "EN-us", "fr-CA"][i % 3].lower())
        elif flav == 2:
            lit = L(text, dt=XSD + "string")
        else:
            lit = L(text, dt=EX + "dt")
        yield ("lit:" + "+".join(cs), [[S1, P1, lit]], ok)


def typed_literal_graphs():
    vals = [("1", "integer"), ("-5", "integer"), ("1.5", "decimal"), ("100.0", "decimal"), ("1.0E0", "double"), ("1.2345678901234567E8", "double"), ("1.0E-7", "double"),
            ("INF", "double"), ("-INF", "double"), ("NaN", "double"), ("NaN", "float"), ("INF", "float"), ("true", "boolean"), ("false", "boolean"), ("2020-01-01", "date"), ("2020-01-01T00:00:00Z", "dateTime"), ("P1D", "duration"),
            ("abc", "string"), ("", "string"), ("AQID", "base64Binary"), ("0A", "hexBinary"), ("1", "float"), ("5", "byte"), ("http://x.example/", "anyURI")]
    for i, (lex, dt) in enumerate(vals):
        yield ("typed:%s:%s" % (dt, lex), [[S1, P1, L(lex, dt=XSD + dt)], [S1, P2, L(lex)]], True)
    # ill-typed literals of the datatypes that have shorthand / fast paths, with characters every writer has to escape
    ill = [("5' 11\"", "decimal"), ("1\\2", "integer"), ("2020-02-30\n", "date"), ("12:00\r", "time"), ("yes\"no", "boolean"), ("1e\t5", "double"), ("a\"b\\c\nd", "float"),
           ("\"", "integer"), ("2020-01-01T00:00:00\"Z", "dateTime"), ("", "integer"), (" 1", "integer"), ("1 ", "decimal"), ("\u00e9", "int"), ("\U0001F600", "long")]
    for lex, dt in ill:
        yield ("typed-ill:%s:%r" % (dt, lex), [[S1, P1, L(lex, dt=XSD + dt)], [S2, P1, L(lex, dt=XSD + dt)], [S1, P2, L("ok")]], True)


def iri_graphs():
    """IRIs that stress prefix splitting and relative / prefixed spelling"""
    iris = [EX + "a.b", EX + "a.", EX + "1a", EX + "a%20b", EX + "a/b", EX + "a#b", EX, "http://ex.example/ns", "urn:x:y", "http://ex.example/ns#a-b_c", "http://ex.example/é",
            "http://ex.example/ns#a(b)", "http://other.example/p?x=1&y=2", "mailto:a@b.example", "http://ex.example/ns#", "http://ex.example/a,b", "http://ex.example/a;b", "http://ex.example/~a",
            # schemes with '+', '-', '.' and digits (RFC 3986: ALPHA *( ALPHA / DIGIT / "+" / "-" / "." ))
            "svn+ssh://host.example/repo/trunk", "coap+tcp://h.example/x", "view-source:http://ex.example/", "z39.50s://h.example/db?q", "x-custom.v2:thing", "h323:user@h.example"]
    for i, u in enumerate(iris):
        yield ("iri-obj:" + u, [[S1, P1, I(u)], [I(u), P2, S2]], True)
    # predicates: splittable ones round-trip everywhere, unsplittable ones cannot be written as RDF/XML element names
    for u, ok in ((EX + "p.q", True), ("http://ex.example/ns/p", True), ("http://ex.example/ns#1p", False), ("http://ex.example/p/", False), ("urn:x:p", True), ("http://ex.example/ns#p-q", True)):
        yield ("iri-pred:" + u, [[S1, I(u), S2], [S1, I(u), L("v")]], ok)
    # datatype IRIs needing a generated prefix
    yield ("dt-iri", [[S1, P1, L("v", dt="http://dt.example/types#T")], [S1, P1, L("w", dt="http://dt.example/types/U")]], True)


def bnode_graphs(digraphs):
    """blank-node topologies (trees, DAGs, cycles, self-loops, shared and unreferenced nodes) with and without an IRI entry point"""
    for gi, g in enumerate(digraphs):
        tr = [[Bn(t[0]["v"]), P1, Bn(t[2]["v"])] for t in g]
        yield ("bn%d" % gi, tr, True)
        first = tr[0][0]
        yield ("bn%d+entry" % gi, tr + [[S1, P2, first]], True)
        yield ("bn%d+leaf" % gi, tr + [[tr[-1][2], P2, L("leaf")]], True)


def mklist(members, head, prefix):
    tr = []
    cur = head
    for i, m in enumerate(members):
        tr.append([cur, FIRST, m])
        nxt = NIL if i == len(members) - 1 else Bn("%s%d" % (prefix, i + 1))
        tr.append([cur, REST, nxt])
        cur = nxt
    return tr


def list_graphs():
    m = [L("a"), I(EX + "m"), L("1", dt=XSD + "integer")]
    h = Bn("l0")
    yield ("list:empty", [[S1, P1, NIL]], True)
    for n in (1, 2, 3):
        yield ("list:%d" % n, [[S1, P1, h]] + mklist(m[:n], h, "l"), True)
    # lists whose members are all resources: the form rdf:parseType="Collection" (pretty-xml) and @list can spell
    r = [I(EX + "m1"), I(EX + "m2"), Bn("x"), I(EX + "m1")]
    for n in (1, 2, 3, 4):
        yield ("list:res-%d" % n, [[S1, P1, h]] + mklist(r[:n], h, "l") + ([[Bn("x"), P2, L("v")]] if n >= 3 else []), True)
    yield ("list:res-members-described", [[S1, P1, h]] + mklist(r[:2], h, "l") + [[r[0], P2, L("v")], [r[1], P1, r[0]]], True)
    yield ("list:res-two-lists", [[S1, P1, h], [S1, P2, Bn("k0")]] + mklist(r[:2], h, "l") + mklist([r[1], r[0], I(EX + "m3")], Bn("k0"), "k"), True)
    yield ("list:res-nested", [[S1, P1, h]] + mklist([Bn("k0"), r[0]], h, "l") + mklist(r[:2], Bn("k0"), "k"), True)
    yield ("list:res-subject-is-member", [[S1, P1, h]] + mklist([S1, r[0]], h, "l"), True)
    yield ("list:unreferenced", mklist(m[:2], h, "l"), True)
    yield ("list:iri-head", [[S1, P1, I(EX + "L")]] + mklist(m[:2], I(EX + "L"), "l"), True)
    yield ("list:head-twice", [[S1, P1, h], [S2, P1, h]] + mklist(m[:2], h, "l"), True)
    yield ("list:extra-prop", [[S1, P1, h]] + mklist(m[:2], h, "l") + [[Bn("l1"), P2, L("x")]], True)
    yield ("list:typed-cell", [[S1, P1, h]] + mklist(m[:2], h, "l") + [[h, TYPE, I(RDF + "List")]], True)
    yield ("list:cell-typed-other", [[S1, P1, h]] + mklist(m[:2], h, "l") + [[Bn("l1"), TYPE, I(EX + "Special")]], True)
    yield ("list:cell-prop-to-List", [[S1, P1, h]] + mklist(m[:2], h, "l") + [[Bn("l1"), P2, I(RDF + "List")]], True)
    yield ("list:head-typed-other", [[S1, P1, h]] + mklist(m[:3], h, "l") + [[h, TYPE, I(EX + "Special")], [Bn("l2"), P2, I(RDF + "List")]], True)
    yield ("list:nested", [[S1, P1, h]] + mklist([Bn("k0"), L("z")], h, "l") + mklist(m[:1], Bn("k0"), "k"), True)
    yield ("list:bnode-member", [[S1, P1, h]] + mklist([Bn("x")], h, "l") + [[Bn("x"), P2, L("v")]], True)
    yield ("list:shared-tail", [[S1, P1, h], [S2, P1, Bn("g0")], [Bn("g0"), FIRST, L("g")], [Bn("g0"), REST, Bn("l1")]] + mklist(m[:2], h, "l"), True)
    yield ("list:missing-rest", [[S1, P1, h], [h, FIRST, L("a")]], True)
    yield ("list:missing-first", [[S1, P1, h], [h, REST, NIL]], True)
    yield ("list:two-first", [[S1, P1, h], [h, FIRST, L("a")], [h, FIRST, L("b")], [h, REST, NIL]], True)
    yield ("list:two-rest", [[S1, P1, h], [h, FIRST, L("a")], [h, REST, NIL], [h, REST, Bn("l9")], [Bn("l9"), FIRST, L("z")], [Bn("l9"), REST, NIL]], True)
    yield ("list:cyclic-entry", [[S1, P1, h], [h, FIRST, L("a")], [h, REST, Bn("l1")], [Bn("l1"), FIRST, L("b")], [Bn("l1"), REST, h]], True)
    yield ("list:cyclic-noentry", [[h, FIRST, L("a")], [h, REST, Bn("l1")], [Bn("l1"), FIRST, L("b")], [Bn("l1"), REST, h]], True)
    yield ("list:self-rest", [[S1, P1, h], [h, FIRST, L("a")], [h, REST, h]], True)
    yield ("list:rest-to-iri", [[S1, P1, h], [h, FIRST, L("a")], [h, REST, I(EX + "tail")]], True)
    yield ("list:literal-rest", [[S1, P1, h], [h, FIRST, L("a")], [h, REST, L("oops")]], True)
