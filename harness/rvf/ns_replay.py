"""Replay namespace-binding histories (C17) and record traces for TraceNamespaces.tla."""
from __future__ import annotations

import warnings

from rdflib import Graph, Literal, URIRef
from rdflib.plugins.stores.memory import Memory, SimpleMemory

warnings.simplefilter("ignore")

NONE = "<none>"
# concrete spellings of the spec's character-sequence namespaces
NS = {"A": "urn:a/", "AX": "urn:a/x/", "AH": "urn:a/x#", "B": "urn:b#", "AXB": "urn:a/x/b", "C": "http://c.example/v"}


def concrete(seq_or_name):
    """namespaces / IRIs exported by TLC are sequences of characters: a / x / ... -> 'urn:' + joined"""
    if isinstance(seq_or_name, list):
        return "urn:" + "".join(seq_or_name)
    return seq_or_name


def replay(cfg, events):
    store = Memory() if cfg.get("store", "Memory") == "Memory" else SimpleMemory()
    g = Graph(store=store, bind_namespaces=cfg.get("bind_namespaces", "none"))
    nm = g.namespace_manager
    uni_ns = [concrete(n) for n in cfg["nss"]]
    uni_iris = [concrete(u) for u in cfg["iris"]]
    uni_pf = list(cfg.get("prefixes", ["", "a", "b"]))
    evs = []

    def qres(fn, iri):
        try:
            p, n, l_ = fn()
            return {"k": "val", "p": str(p), "n": str(n), "l": str(l_)}
        except Exception as ex:  # noqa: BLE001
            return {"k": "raise", "e": type(ex).__name__}

    def from_curie(s, iri):
        # "p:local" / "local" -> (prefix, namespace bound now?, local); the namespace is what the prefix expands to by the listing
        if s.startswith("<") and s.endswith(">"):
            return {"k": "full"}
        p, _, l_ = s.partition(":") if ":" in s else ("", "", s)
        if not iri.endswith(l_):
            return {"k": "val", "p": p, "n": "<mismatch>", "l": l_}
        return {"k": "val", "p": p, "n": iri[: len(iri) - len(l_)], "l": l_}

    def observe(last):
        listing = [[str(p), str(n)] for p, n in g.namespaces()]
        nss = sorted(set(uni_ns) | {n for _, n in listing})
        pfs = sorted(set(uni_pf) | {p for p, _ in listing})
        o = {"listing": listing,
             "prefix_of": [[n, NONE if store.prefix(URIRef(n)) is None else str(store.prefix(URIRef(n)))] for n in nss],
             "ns_of": [[p, NONE if store.namespace(p) is None else str(store.namespace(p))] for p in pfs]}
        if last:
            qn = []
            for u in uni_iris:
                r = qres(lambda: nm.compute_qname(u, generate=False), u)
                r["iri"] = u
                qn.append(r)
            o["qn"] = qn
            # the listing may not change by a generate=False computation; re-read to be sure the observation is of the final state
            o["listing"] = [[str(p), str(n)] for p, n in g.namespaces()]
        return o

    evs.append({"op": "new", "obs": observe(False)})
    for i, e in enumerate(events):
        e = dict(e)
        op = e["op"]
        try:
            if op == "bind":
                e["n"] = concrete(e["n"])
                # "via": the same call made through ANOTHER facade of the same store (each has a namespace manager, and a memo, of its own)
                target = g if e.get("via", "self") == "self" else Graph(store=store, identifier=g.identifier, bind_namespaces="none")
                target.bind(e["p"], URIRef(e["n"]), override=e["override"], replace=e["replace"])
            elif op == "reset":
                nm.reset()
            elif op == "cq":
                e["iri"] = concrete(e["iri"])
                e["res"] = qres(lambda: nm.compute_qname(e["iri"], generate=e["generate"]), e["iri"])
            elif op == "cq_strict":
                e["iri"] = concrete(e["iri"])
                e["generate"] = True
                e["res"] = qres(lambda: nm.compute_qname_strict(e["iri"]), e["iri"])
            elif op == "qname":
                e["iri"] = concrete(e["iri"])
                e["generate"] = True
                try:
                    e["res"] = from_curie(g.qname(e["iri"]), e["iri"])
                except Exception as ex:  # noqa: BLE001
                    e["res"] = {"k": "raise", "e": type(ex).__name__}
            elif op == "curie":
                e["iri"] = concrete(e["iri"])
                try:
                    e["res"] = from_curie(nm.curie(e["iri"], generate=e["generate"]), e["iri"])
                except Exception as ex:  # noqa: BLE001
                    e["res"] = {"k": "raise", "e": type(ex).__name__}
            elif op == "n3":
                e["iri"] = concrete(e["iri"])
                e["generate"] = True
                try:
                    e["res"] = from_curie(URIRef(e["iri"]).n3(nm), e["iri"])
                except Exception as ex:  # noqa: BLE001
                    e["res"] = {"k": "raise", "e": type(ex).__name__}
            elif op == "expand":
                try:
                    e["res"] = {"k": "val", "iri": str(nm.expand_curie(e["p"] + ":" + e["l"]))}
                except Exception as ex:  # noqa: BLE001
                    e["res"] = {"k": "raise", "e": type(ex).__name__}
            elif op == "serialize":
                for u in uni_iris[:3]:
                    g.add((URIRef(u), URIRef(uni_iris[-1]), Literal("x")))
                g.serialize(format=e["fmt"])
            elif op == "parse":
                doc = "".join("@prefix %s: <%s> .\n" % (p, concrete(n)) for p, n in e["prefixes"]) + "<urn:s> <urn:p> <urn:o> .\n"
                target = g if e.get("via", "self") == "self" else Graph(store=store, identifier=g.identifier, bind_namespaces="none")
                target.parse(data=doc, format=e.get("fmt", "turtle"))
            else:
                e["raise"] = "UnknownOp"
        except Exception as ex:  # noqa: BLE001
            e["raise"] = type(ex).__name__
        e["obs"] = observe(i == len(events) - 1)
        evs.append(e)
    return {"tid": 0, "cfg": {"store": cfg.get("store", "Memory")}, "ev": evs}
