"""Replay AuditableStore histories (C18) and record traces for TraceAuditable.tla."""
from __future__ import annotations

import warnings

from rdflib import Graph
from rdflib.graph import ConjunctiveGraph
from rdflib.plugins.stores.auditable import AuditableStore
from rdflib.plugins.stores.memory import Memory

from .vocab import Vocab

warnings.simplefilter("ignore")


def base_quads(base, v):
    cg = ConjunctiveGraph(store=base)
    return [v.abs_triple(q) + [v.gabs(q[3])] for q in cg.quads()]


def replay_simple(cfg, events):
    """the wrapper over a store that is not context aware (SimpleMemory): one graph, every call through Graph"""
    from rdflib.plugins.stores.memory import SimpleMemory
    v = Vocab(cfg.get("vocab", "plain"))
    base = SimpleMemory()
    wrappers = {}
    evs = []
    G = "g1"

    def gr(w):
        if w not in wrappers:
            wrappers[w] = AuditableStore(base)
        return Graph(store=wrappers[w], identifier=v.gid(G))

    for i, e in enumerate(events):
        e = dict(e)
        op = e["op"]
        try:
            if op == "init":
                for q in e["quads"]:
                    Graph(store=base, identifier=v.gid(G)).add(v.triple(q))
            elif op == "tx_add":
                gr(e["w"]).add(v.triple(e["t"]))
            elif op == "tx_addN":
                gr(e["w"]).addN([v.triple(q) + (gr(e["w"]),) for q in e["quads"]])
            elif op == "tx_remove":
                pat = v.triple(e["pat"])
                if e.get("how") == "set" and pat[0] is not None and pat[1] is not None:
                    gr(e["w"]).remove((pat[0], pat[1], None))
                else:
                    gr(e["w"]).remove(pat)
            elif op == "commit":
                gr(e["w"]).commit()
            elif op == "rollback":
                gr(e["w"]).rollback()
            else:
                raise ValueError(op)
        except Exception as ex:  # noqa: BLE001
            e["raise"] = type(ex).__name__
        e["base"] = [v.abs_triple(t) + [G] for t in Graph(store=base, identifier=v.gid(G))]
        evs.append(e)
    return {"tid": 0, "cfg": {"vocab": cfg.get("vocab", "plain")}, "ev": evs}


def replay(cfg, events):
    if cfg.get("store") == "SimpleMemory":
        return replay_simple(cfg, events)
    v = Vocab(cfg.get("vocab", "plain"))
    base = Memory()
    wrappers = {}
    evs = []

    def aud(w):
        if w not in wrappers:
            wrappers[w] = AuditableStore(base)
        return wrappers[w]

    for i, e in enumerate(events):
        e = dict(e)
        op = e["op"]
        try:
            if op == "init":
                for q in e["quads"]:
                    Graph(store=base, identifier=v.gid(q[3])).add(v.triple(q))
            elif op == "tx_add":
                k = (i + len(events)) % 2
                if k == 0:
                    Graph(store=aud(e["w"]), identifier=v.gid(e["g"])).add(v.triple(e["t"]))
                else:
                    ConjunctiveGraph(store=aud(e["w"])).add(v.triple(e["t"]) + (v.gid(e["g"]),))
            elif op == "tx_addN":
                # a batch through the store-level addN (the same quad may occur more than once)
                aud(e["w"]).addN([v.triple(q) + (Graph(store=aud(e["w"]), identifier=v.gid(q[3])),) for q in e["quads"]])
            elif op == "tx_remove":
                pat = v.triple(e["pat"])
                how = e.get("how", "")
                if how and e["g"] != "*" and pat == (None, None, None):
                    # a whole graph emptied through the graph-level entry points: it is a removal like any other and is undone by rollback
                    ds_ = ConjunctiveGraph(store=aud(e["w"]))
                    name = v.gid(e["g"])
                    if how == "drop":
                        ds_.update("DROP SILENT GRAPH %s" % name.n3())
                    elif how == "clear":
                        ds_.update("CLEAR SILENT GRAPH %s" % name.n3())
                    elif how == "remove_context":
                        ds_.remove_context(ds_.get_context(name))
                    elif how == "delete_where":
                        ds_.update("DELETE WHERE { GRAPH %s { ?s ?p ?o } }" % name.n3())
                    else:
                        raise ValueError(how)
                elif how == "cg_ctx":
                    # the ConjunctiveGraph itself given as the graph of the quad pattern: that names ITS default graph (an empty graph of its own, "gx")
                    cg_ = ConjunctiveGraph(store=aud(e["w"]))
                    cg_.remove(pat + (cg_,))
                elif e["g"] == "*":
                    ConjunctiveGraph(store=aud(e["w"])).remove(pat)
                elif (i + len(events)) % 2 == 0:
                    Graph(store=aud(e["w"]), identifier=v.gid(e["g"])).remove(pat)
                else:
                    ConjunctiveGraph(store=aud(e["w"])).remove(pat + (v.gid(e["g"]),))
            elif op == "commit":
                Graph(store=aud(e["w"]), identifier=v.gid("g1")).commit()
            elif op == "rollback":
                Graph(store=aud(e["w"]), identifier=v.gid("g1")).rollback()
            else:
                raise ValueError(op)
        except Exception as ex:  # noqa: BLE001
            e["raise"] = type(ex).__name__
        e["base"] = base_quads(base, v)
        evs.append(e)
    return {"tid": 0, "cfg": {"vocab": cfg.get("vocab", "plain")}, "ev": evs}
