"""SPARQL result tables through their exchange formats (C16), recorded for TraceResults.tla."""
from __future__ import annotations

import csv
import io
import random
import re
import warnings

from rdflib import BNode, Literal, URIRef, Variable
from rdflib.query import Result

from .doc_replay import abst, conc

warnings.simplefilter("ignore")


def build(table):
    r = Result("SELECT")
    r.vars = [Variable(v) for v in table["vars"]]
    bmap = {}
    r.bindings = [{Variable(k): conc(dict(v, keep=True), bmap) for k, v in row.items()} for row in table["rows"]]
    return r


def dump(res):
    return {"vars": [str(v) for v in (res.vars or [])], "rows": [{str(k): abst(v) for k, v in b.items() if v is not None} for b in res.bindings]}


# ---- an independent, randomised writer of W3C SPARQL 1.1 TSV (cells in Turtle/SPARQL term syntax)
def tsv_cell(t, rng):
    k = t["k"]
    if k == "iri":
        return "<%s>" % t["v"]
    if k == "bnode":
        return "_:" + t["v"]
    lex, dt, lang = t["v"], t.get("dt", ""), t.get("lang", "")
    X = "http://www.w3.org/2001/XMLSchema#"
    # bare shorthand only where the Turtle / SPARQL grammar reads the same datatype back: INTEGER, DECIMAL (needs a '.'), DOUBLE (needs an exponent), true / false
    bare = (dt == X + "integer" and re.fullmatch(r"[+-]?[0-9]+", lex)) or (dt == X + "decimal" and re.fullmatch(r"[+-]?[0-9]*\.[0-9]+", lex)) \
        or (dt == X + "double" and re.fullmatch(r"[+-]?([0-9]+\.[0-9]*|\.[0-9]+|[0-9]+)[eE][+-]?[0-9]+", lex)) or (dt == X + "boolean" and lex in ("true", "false"))
    if bare and rng.random() < 0.5:
        return lex          # bare shorthand
    q = '"'
    out = []
    for ch in lex:
        if ch == "\t":
            out.append("\\t")
        elif ch == "\n":
            out.append("\\n")
        elif ch == "\r":
            out.append("\\r")
        elif ch == "\\":
            out.append("\\\\")
        elif ch == q:
            out.append("\\" + q)
        else:
            out.append(ch)
    s = q + "".join(out) + q
    if lang:
        return s + "@" + lang
    if dt:
        return s + "^^<%s>" % dt
    return s


def tsv_text(table, rng):
    lines = ["\t".join("?" + v for v in table["vars"])]
    for row in table["rows"]:
        lines.append("\t".join(tsv_cell(row[v], rng) if v in row else "" for v in table["vars"]))
    return "\n".join(lines) + "\n"


def replay(cfg, events):
    evs = []
    rng = random.Random(cfg.get("seed", 0))
    for e in events:
        e = dict(e)
        op = e["op"]
        try:
            if op == "rt":
                e["stage"] = "serialize"
                data = build(e["table"]).serialize(format=e["fmt"])
                e["stage"] = "parse"
                back = Result.parse(io.BytesIO(data if isinstance(data, bytes) else data.encode("utf-8")), format=e["fmt"])
                e["after"] = dump(back)
                e["text"] = (data.decode("utf-8", "replace") if isinstance(data, bytes) else data)[:500]
            elif op == "ask":
                r = Result("ASK")
                r.askAnswer = e["value"]
                e["stage"] = "serialize"
                data = r.serialize(format=e["fmt"])
                e["stage"] = "parse"
                back = Result.parse(io.BytesIO(data if isinstance(data, bytes) else data.encode("utf-8")), format=e["fmt"])
                e["after"] = bool(back.askAnswer)
            elif op == "tsv_read":
                text = tsv_text(e["table"], rng)
                e["text"] = text
                e["stage"] = "parse"
                back = Result.parse(io.BytesIO(text.encode("utf-8")), format="tsv")
                e["after"] = dump(back)
            elif op == "csv":
                e["stage"] = "serialize"
                data = build(e["table"]).serialize(format="csv")
                text = data.decode("utf-8") if isinstance(data, bytes) else data
                e["text"] = text[:500]
                rows = list(csv.reader(io.StringIO(text, newline="")))
                e["header"] = rows[0] if rows else []
                e["cells"] = rows[1:]
            else:
                raise ValueError(op)
            e.pop("stage", None)
        except Exception as ex:  # noqa: BLE001
            e["raise"] = type(ex).__name__ + ": " + str(ex)[:120]
        evs.append(e)
    return {"tid": 0, "cfg": {}, "ev": evs}
