"""SPARQL result tables through their exchange formats (C16), recorded for TraceResults.tla."""
from __future__ import annotations

import csv
import io
import random
import re
import warnings

from rdflib import BNode, Literal, URIRef, Variable
from rdflib.query import Result

from .doc_replay import abst, conc

warnings.simplefilter("ignore")


def build(table, lazy=0):
    """lazy = k > 0: the solutions come from a generator (as they do from Graph.query()) and the first k - 1 of them have been read
    by iteration before the result is handed on"""
    r = Result("SELECT")
    r.vars = [Variable(v) for v in table["vars"]]
    bmap = {}
    rows = [{Variable(k): conc(dict(v, keep=True), bmap) for k, v in row.items()} for row in table["rows"]]
    if not lazy:
        r.bindings = rows
        return r
    r.bindings = (x for x in rows)
    for i, _ in enumerate(r):
        if i + 1 >= lazy - 1:
            break
    return r


def dump(res):
    return {"vars": [str(v) for v in (res.vars or [])], "rows": [{str(k): abst(v) for k, v in b.items() if v is not None} for b in res.bindings]}


# ---- an independent, randomised writer of W3C SPARQL 1.1 TSV (cells in Turtle/SPARQL term syntax)
def tsv_cell(t, rng):
    k = t["k"]
    if k == "iri":
        return "<%s>" % t["v"]
    if k == "bnode":
        return "_:" + t["v"]
    lex, dt, lang = t["v"], t.get("dt", ""), t.get("lang", "")
    X = "http://www.w3.org/2001/XMLSchema#"
    # bare shorthand only where the Turtle / SPARQL grammar reads the same datatype back: INTEGER, DECIMAL (needs a '.'), DOUBLE (needs an exponent), true / false
    bare = (dt == X + "integer" and re.fullmatch(r"[+-]?[0-9]+", lex)) or (dt == X + "decimal" and re.fullmatch(r"[+-]?[0-9]*\.[0-9]+", lex)) \
        or (dt == X + "double" and re.fullmatch(r"[+-]?([0-9]+\.[0-9]*|\.[0-9]+|[0-9]+)[eE][+-]?[0-9]+", lex)) or (dt == X + "boolean" and lex in ("true", "false"))
    if bare and rng.random() < 0.5:
        return lex          # bare shorthand
    q = '"'
    out = []
    for ch in lex:
        if ch == "\t":
            out.append("\\t")
        elif ch == "\n":
            out.append("\\n")
        elif ch == "\r":
            out.append("\\r")
        elif ch == "\\":
            out.append("\\\\")
        elif ch == q:
            out.append("\\" + q)
        else:
            out.append(ch)
    s = q + "".join(out) + q
    if lang:
        return s + "@" + lang
    if dt:
        return s + "^^<%s>" % dt
    return s


def tsv_text(table, rng):
    lines = ["\t".join("?" + v for v in table["vars"])]
    for row in table["rows"]:
        lines.append("\t".join(tsv_cell(row[v], rng) if v in row else "" for v in table["vars"]))
    return "\n".join(lines) + "\n"


# ---- independent, randomised writers of SPARQL 1.1 Query Results JSON and XML (what other engines send)
def _json_str(text, rng):
    out = ['"']
    for ch in text:
        cp = ord(ch)
        r = rng.random()
        if ch in '"\\':
            out.append("\\" + ch)
        elif ch == "/" and r < 0.3:
            out.append("\\/")
        elif cp < 0x20 or cp == 0x7f:
            short = {8: "\\b", 9: "\\t", 10: "\\n", 12: "\\f", 13: "\\r"}
            out.append(short[cp] if cp in short and r < 0.6 else "\\u%04x" % cp)
        elif cp > 0x7e and r < 0.4:
            if cp > 0xFFFF:
                cp -= 0x10000
                out.append("\\u%04X\\u%04X" % (0xD800 + (cp >> 10), 0xDC00 + (cp & 0x3FF)))
            else:
                out.append("\\u%04X" % cp)
        else:
            out.append(ch)
    return "".join(out) + '"'


def json_text(table, rng):
    ws = lambda: rng.choice(["", " ", "\n", "  ", "\t"])

    def obj(pairs):
        pairs = list(pairs)
        rng.shuffle(pairs)
        return "{" + ws() + ("," + ws()).join(_json_str(k, rng) + ws() + ":" + ws() + v for k, v in pairs) + ws() + "}"

    def cell(t):
        if t["k"] == "iri":
            return obj([("type", '"uri"'), ("value", _json_str(t["v"], rng))])
        if t["k"] == "bnode":
            return obj([("type", '"bnode"'), ("value", _json_str(t["v"], rng))])
        pairs = [("value", _json_str(t["v"], rng))]
        if t.get("lang"):
            pairs += [("type", '"literal"'), ("xml:lang", _json_str(t["lang"], rng))]
        elif t.get("dt"):
            pairs += [("type", rng.choice(['"literal"', '"literal"', '"typed-literal"'])), ("datatype", _json_str(t["dt"], rng))]
        else:
            pairs += [("type", '"literal"')]
        return obj(pairs)
    head = obj([("vars", "[" + ws() + ("," + ws()).join(_json_str(v, rng) for v in table["vars"]) + ws() + "]")] + ([("link", "[]")] if rng.random() < 0.2 else []))
    rows = [obj([(v, cell(row[v])) for v in table["vars"] if v in row]) for row in table["rows"]]
    results = obj([("bindings", "[" + ws() + ("," + ws()).join(rows) + ws() + "]")] + ([("ordered", "false"), ("distinct", "false")] if rng.random() < 0.2 else []))
    return obj([("head", head), ("results", results)])


def _xml_text(text, rng, attr=False):
    out = []
    for ch in text:
        cp = ord(ch)
        r = rng.random()
        if ch == "&":
            out.append("&amp;" if r < 0.7 else "&#38;")
        elif ch == "<":
            out.append("&lt;" if r < 0.7 else "&#x3C;")
        elif ch == ">":
            out.append("&gt;" if r < 0.6 else ">")
        elif ch == '"' and (attr or r < 0.3):
            out.append("&quot;")
        elif ch == "\r" or (attr and ch in "\t\n"):
            out.append("&#%d;" % cp)
        elif cp > 0x7e and r < 0.3:
            out.append("&#x%X;" % cp if r < 0.15 else "&#%d;" % cp)
        else:
            out.append(ch)
    return "".join(out)


def xml_text(table, rng):
    pfx = rng.choice(["", "", "res:", "s:"])
    ns = "http://www.w3.org/2005/sparql-results#"
    decl = ('xmlns="%s"' % ns) if not pfx else ('xmlns:%s="%s"' % (pfx[:-1], ns))
    q = lambda v: rng.choice(['"%s"', "'%s'"]) % v if "'" not in v and '"' not in v else '"%s"' % v
    ws = lambda: rng.choice(["", "\n", "\n  ", " ", "\t"])

    def cell(t):
        if t["k"] == "iri":
            return "<%suri>%s</%suri>" % (pfx, _xml_text(t["v"], rng), pfx)
        if t["k"] == "bnode":
            return "<%sbnode>%s</%sbnode>" % (pfx, t["v"], pfx)
        attrs = ""
        if t.get("lang"):
            attrs = " xml:lang=" + q(t["lang"])
        elif t.get("dt"):
            attrs = " datatype=" + '"%s"' % _xml_text(t["dt"], rng, attr=True)
        body = _xml_text(t["v"], rng)
        if t["v"] and "]]>" not in t["v"] and "\r" not in t["v"] and rng.random() < 0.15:
            body = "<![CDATA[" + t["v"] + "]]>"
        if t["v"] == "" and rng.random() < 0.5:
            return "<%sliteral%s/>" % (pfx, attrs)
        return "<%sliteral%s>%s</%sliteral>" % (pfx, attrs, body, pfx)
    out = [rng.choice(['<?xml version="1.0"?>\n', '<?xml version="1.0" encoding="UTF-8"?>\n', ""]), "<%ssparql %s>" % (pfx, decl), ws(), "<%shead>" % pfx]
    for v in table["vars"]:
        out += [ws(), "<%svariable name=%s/>" % (pfx, q(v))]
    out += [ws(), "</%shead>" % pfx, ws(), "<%sresults>" % pfx]
    for row in table["rows"]:
        out += [ws(), "<%sresult>" % pfx]
        names = [v for v in table["vars"] if v in row]
        rng.shuffle(names)
        for v in names:
            out += [ws(), "<%sbinding name=%s>" % (pfx, q(v)), ws() if row[v]["k"] != "lit" or True else "", cell(row[v]), ws(), "</%sbinding>" % pfx]
        out += [ws(), "</%sresult>" % pfx]
    out += [ws(), "</%sresults>" % pfx, ws(), "</%ssparql>" % pfx, rng.choice(["", "\n"])]
    return "".join(out)


def replay(cfg, events):
    evs = []
    rng = random.Random(cfg.get("seed", 0))
    for e in events:
        e = dict(e)
        op = e["op"]
        try:
            if op == "rt":
                e["stage"] = "serialize"
                data = build(e["table"], e.get("lazy", 0)).serialize(format=e["fmt"])
                e["stage"] = "parse"
                back = Result.parse(io.BytesIO(data if isinstance(data, bytes) else data.encode("utf-8")), format=e["fmt"])
                e["after"] = dump(back)
                e["text"] = (data.decode("utf-8", "replace") if isinstance(data, bytes) else data)[:500]
            elif op == "ask":
                r = Result("ASK")
                r.askAnswer = e["value"]
                e["stage"] = "serialize"
                data = r.serialize(format=e["fmt"])
                e["stage"] = "parse"
                back = Result.parse(io.BytesIO(data if isinstance(data, bytes) else data.encode("utf-8")), format=e["fmt"])
                e["after"] = bool(back.askAnswer)
            elif op == "tsv_read":
                text = tsv_text(e["table"], rng)
                e["text"] = text
                e["stage"] = "parse"
                back = Result.parse(io.BytesIO(text.encode("utf-8")), format="tsv")
                e["after"] = dump(back)
            elif op in ("json_read", "xml_read"):
                text = json_text(e["table"], rng) if op == "json_read" else xml_text(e["table"], rng)
                e["text"] = text[:700]
                e["stage"] = "parse"
                back = Result.parse(io.BytesIO(text.encode("utf-8")), format="json" if op == "json_read" else "xml")
                e["after"] = dump(back)
            elif op == "csv":
                e["stage"] = "serialize"
                data = build(e["table"], e.get("lazy", 0)).serialize(format="csv")
                text = data.decode("utf-8") if isinstance(data, bytes) else data
                e["text"] = text[:500]
                rows = list(csv.reader(io.StringIO(text, newline="")))
                e["header"] = rows[0] if rows else []
                e["cells"] = rows[1:]
            else:
                raise ValueError(op)
            e.pop("stage", None)
        except Exception as ex:  # noqa: BLE001
            e["raise"] = type(ex).__name__ + ": " + str(ex)[:120]
        evs.append(e)
    return {"tid": 0, "cfg": {}, "ev": evs}
