"""rdflib.compare / skolemisation observations for TraceIso.tla (C14)."""
from __future__ import annotations

import random
import signal
import warnings

from rdflib import BNode, Graph, Literal, URIRef
from rdflib.compare import graph_diff, isomorphic, to_canonical_graph, to_isomorphic

from .sparql_replay import abst, conc, guarded, _Timeout

warnings.simplefilter("ignore")


def build(triples, order_seed=None, relabel=None, ident=None, want_map=None):
    g = Graph() if ident is None else Graph(identifier=URIRef(ident))
    ts = list(triples)
    if order_seed is not None:
        random.Random(order_seed).shuffle(ts)
    m = {}

    def c(x):
        if x["k"] == "bnode":
            lab = x["v"]
            if relabel is not None:
                lab = relabel.get(lab, lab)
            if lab not in m:
                m[lab] = BNode(lab) if relabel is None else BNode()
            return m[lab]
        return conc(x)
    for t in ts:
        g.add((c(t[0]), c(t[1]), c(t[2])))
    if want_map is not None:
        want_map.update(m)
    return g


def aggregate(g):
    """the same triples as a read-only view over two graphs (the even and the odd triples)"""
    from rdflib.graph import ReadOnlyGraphAggregate
    a, b = Graph(), Graph()
    for i, t in enumerate(sorted(g)):
        (a if i % 2 else b).add(t)
    return ReadOnlyGraphAggregate([a, b])


def dump(g):
    return [[abst(s), abst(p), abst(o)] for s, p, o in g]


def replay(cfg, events):
    evs = []
    for e in events:
        e = dict(e)
        op = e["op"]
        try:
            def run():
                if op == "iso":
                    # "ident": both graphs carry the same identifier (two versions of one named graph, the default graphs of two datasets)
                    hm = {}
                    g, h = build(e["g"], e.get("og"), ident=e.get("ident")), build(e["h"], e.get("oh"), e.get("relabel"), ident=e.get("ident"), want_map=hm)
                    if e.get("witness"):
                        # h was made from g by renaming: hand the renaming to the spec (label in g -> the node that stands for it in h)
                        rl = e.get("relabel") or {}
                        labs = sorted({x["v"] for tr in e["g"] for x in tr if x["k"] == "bnode"})
                        e["wit"] = [[{"k": "bnode", "v": lab}, abst(hm[rl.get(lab, lab)])] for lab in labs]
                    e["r"] = bool(isomorphic(g, h))
                    e["r_eq"] = bool(to_isomorphic(g) == to_isomorphic(h))
                    e["h"] = dump(h)
                elif op == "canon":
                    g, h = build(e["g"], e.get("og")), build(e["h"], e.get("oh"), e.get("relabel"))
                    e["h"] = dump(h)
                    if e.get("agg"):        # the graphs are handed over as views over several graphs
                        g, h = aggregate(g), aggregate(h)
                    e["cg"], e["ch"] = dump(to_canonical_graph(g)), dump(to_canonical_graph(h))
                elif op == "diff":
                    g, h = build(e["g"], e.get("og")), build(e["h"], e.get("oh"))
                    if e.get("agg"):
                        g, h = aggregate(g), aggregate(h)
                    both, first, second = graph_diff(g, h)
                    # graph_diff works on canonical labels: report g and h through the same canonicalisation
                    e["both"], e["first"], e["second"] = dump(both), dump(first), dump(second)
                elif op == "skolem":
                    g = build(e["g"], e.get("og"))
                    kw = {"authority": e["authority"]} if e.get("authority") else {}
                    tgt = e.get("target")
                    if tgt:
                        # the caller supplies the graphs the results go to (empty, or holding a triple already) and reads those
                        extra = (URIRef("urn:x:pre"), URIRef("urn:x:pre"), URIRef("urn:x:pre"))
                        t1, t2 = Graph(), Graph()
                        if tgt == "nonempty":
                            t1.add(extra)
                            t2.add(extra)
                        g.skolemize(new_graph=t1, **kw)
                        t1.remove(extra)
                        sk = t1
                        sk.de_skolemize(new_graph=t2)
                        t2.remove(extra)
                        e["g2"] = dump(t2)
                    else:
                        sk = g.skolemize(**kw)
                        e["g2"] = dump(sk.de_skolemize())
                    e["sk_bnodes"] = sum(1 for t in sk for x in t if isinstance(x, BNode))
                elif op == "eq_history":
                    # one IsomorphicGraph compared again and again while it changes by every route there is
                    ig = to_isomorphic(build(e["g"], e.get("og")))
                    h = to_isomorphic(build(e["h"], e.get("oh"), e.get("relabel")))
                    steps = []
                    for st in e["steps"]:
                        t = tuple(conc(x) for x in st["t"])
                        how = st["how"]
                        if how == "none":
                            pass
                        elif how == "add":
                            ig.add(t)
                        elif how == "remove":
                            ig.remove(t)
                        elif how == "parse":
                            ig.parse(data="%s %s %s .\n" % tuple(x.n3() for x in t), format="nt")
                        elif how == "update":
                            ig.update("INSERT DATA { %s %s %s }" % tuple(x.n3() for x in t))
                        elif how == "update_delete":
                            ig.update("DELETE DATA { %s %s %s }" % tuple(x.n3() for x in t))
                        elif how == "view_add":
                            Graph(store=ig.store, identifier=ig.identifier).add(t)
                        elif how == "view_remove":
                            Graph(store=ig.store, identifier=ig.identifier).remove(t)
                        elif how == "iadd":
                            ig += [t]
                        steps.append({"how": how, "now": dump(ig), "eq": bool(ig == h), "eq_rev": bool(h == ig), "ne": bool(ig != h)})
                    e["steps"] = steps
                    e["h"] = dump(h)
                elif op == "classes":
                    gs = [build(x, i) for i, x in enumerate(e["graphs"])]
                    e["digests"] = [str(to_isomorphic(x).graph_digest()) for x in gs]
                else:
                    raise ValueError(op)
            guarded(run, 20)
        except _Timeout:
            e["raise"] = "Timeout"
        except Exception as ex:  # noqa: BLE001
            e["raise"] = type(ex).__name__ + ": " + str(ex)[:100]
        evs.append(e)
    return {"tid": 0, "cfg": {}, "ev": evs}
