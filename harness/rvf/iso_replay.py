"""rdflib.compare / skolemisation observations for TraceIso.tla (C14)."""
from __future__ import annotations

import random
import signal
import warnings

from rdflib import BNode, Graph, Literal, URIRef
from rdflib.compare import graph_diff, isomorphic, to_canonical_graph, to_isomorphic

from .sparql_replay import abst, conc, guarded, _Timeout

warnings.simplefilter("ignore")


def build(triples, order_seed=None, relabel=None):
    g = Graph()
    ts = list(triples)
    if order_seed is not None:
        random.Random(order_seed).shuffle(ts)
    m = {}

    def c(x):
        if x["k"] == "bnode":
            lab = x["v"]
            if relabel is not None:
                lab = relabel.get(lab, lab)
            if lab not in m:
                m[lab] = BNode(lab) if relabel is None else BNode()
            return m[lab]
        return conc(x)
    for t in ts:
        g.add((c(t[0]), c(t[1]), c(t[2])))
    return g


def dump(g):
    return [[abst(s), abst(p), abst(o)] for s, p, o in g]


def replay(cfg, events):
    evs = []
    for e in events:
        e = dict(e)
        op = e["op"]
        try:
            def run():
                if op == "iso":
                    g, h = build(e["g"], e.get("og")), build(e["h"], e.get("oh"), e.get("relabel"))
                    e["r"] = bool(isomorphic(g, h))
                    e["r_eq"] = bool(to_isomorphic(g) == to_isomorphic(h))
                    e["h"] = dump(h)
                elif op == "canon":
                    g, h = build(e["g"], e.get("og")), build(e["h"], e.get("oh"), e.get("relabel"))
                    e["h"] = dump(h)
                    e["cg"], e["ch"] = dump(to_canonical_graph(g)), dump(to_canonical_graph(h))
                elif op == "diff":
                    g, h = build(e["g"], e.get("og")), build(e["h"], e.get("oh"))
                    both, first, second = graph_diff(g, h)
                    # graph_diff works on canonical labels: report g and h through the same canonicalisation
                    e["both"], e["first"], e["second"] = dump(both), dump(first), dump(second)
                elif op == "skolem":
                    g = build(e["g"], e.get("og"))
                    e["g2"] = dump(g.skolemize().de_skolemize())
                elif op == "classes":
                    gs = [build(x, i) for i, x in enumerate(e["graphs"])]
                    e["digests"] = [str(to_isomorphic(x).graph_digest()) for x in gs]
                else:
                    raise ValueError(op)
            guarded(run, 20)
        except _Timeout:
            e["raise"] = "Timeout"
        except Exception as ex:  # noqa: BLE001
            e["raise"] = type(ex).__name__ + ": " + str(ex)[:100]
        evs.append(e)
    return {"tid": 0, "cfg": {}, "ev": evs}
