"""C05: render a behaviour of spec/RdfXmlSpelling.tla (a token list) as RDF/XML text.

TLC supplies the structure and the meaning (the triples); everything RDF/XML leaves to the author's taste is chosen here at
random: namespace prefixes and where they are declared (root or locally, re-bound in nested scopes, default namespace for
element names), the prefix of the rdf namespace, absolute / relative / rdf:ID spellings where the token says they are legal under
the base in force, attribute order and quotes, white space and comments between elements, CDATA / character references in text,
internal entities for namespace IRIs, the XML declaration.
"""
from __future__ import annotations

import random
from urllib.parse import urljoin

from rdflib import BNode, Literal, URIRef

RDF = "http://www.w3.org/1999/02/22-rdf-syntax-ns#"
XSD = "http://www.w3.org/2001/XMLSchema#"
XMLNS = "http://www.w3.org/XML/1998/namespace"
NS = {0: RDF, 1: "http://ex.example/a/b/c/", 2: "http://ex.example/a/b/c/d#", 3: "urn:x:n:"}
BASES = {1: "http://ex.example/a/b/c/d", 2: "http://ex.example/a/b/"}
# every IRI may become an element or attribute name, so local names are NCNames - of XML 1.0 fourth edition, which is what expat
# implements (the fifth edition also admits characters beyond the BMP in names; no Python XML parser reads those)
LOCAL_POOL = ["x1", "a.b", "a-b_c", "é", "A_", "_u", "ñx", "x·1", "a1.", "Description", "type", "li", "xmlns", "x-", "Δ"]
TEXTS = ["a", "a b", "<b>", "&amp;", "]]>", "\"'", " lead", "trail ", "\n", "a\nb", "\t", "\r", "a\r\nb", "é", "\U0001F600", "&#65;", "<!-- c -->", "  ", "a b", "\u0085", "x&y<z>",
         "<![CDATA[x]]>", "'", "\"", "%41", "퟿�", "1", "01", "true"]
XML_TEXTS = ["a", "a b", "<b>", "&", "é", "]]>", "x&y<z>", "\"'", "\U0001F600"]
DATATYPES = [XSD + "integer", "http://ex.example/dt", XSD + "string", "http://ex.example/a/b#dt&x=1"]
LANGS = {"en": ["en", "en-GB", "EN", "de-CH-1996"], "fr": ["fr", "fr-CA"]}
PREFIXES = ["ex", "a", "ns1", "p", "q", "x", "rdfs", "_", "a.b", "é"]
RDF_PREFIXES = ["rdf", "rdf", "rdf", "r", "RDF", "rdf_"]


class XmlWriter:
    def __init__(self, seed, doc):
        self.rng = random.Random(seed)
        self.doc = doc
        names = set()
        self._collect(doc, names)
        pool = list(LOCAL_POOL)
        self.rng.shuffle(pool)
        self.local = {n: pool[i] for i, n in enumerate(sorted(names))}
        self.texts = self.rng.sample(TEXTS, 4)
        self.xml_texts = self.rng.sample(XML_TEXTS, 4)
        self.dts = self.rng.sample(DATATYPES, 3)
        self.lang = {k: self.rng.choice(v) for k, v in LANGS.items()}
        self.rdfp = self.rng.choice(RDF_PREFIXES)
        self.used_ids = set()
        self.reif_ids = {self.local[t["rid"]["term"]["l"]] for t in doc if t.get("rid", {}).get("on")}
        self.entities = {}

    def _collect(self, x, acc):
        if isinstance(x, dict):
            if x.get("k") == "iri" and x.get("ns", 0) != 0:
                acc.add(x["l"])
            for v in x.values():
                self._collect(v, acc)
        elif isinstance(x, list):
            for v in x:
                self._collect(v, acc)

    # ---- values ------------------------------------------------------------------------------------
    def iri_value(self, t):
        if t["ns"] == 0:
            return RDF + t["l"]
        return NS[t["ns"]] + self.local[t["l"]]

    def text_of(self, i):
        return "" if i == 0 else self.texts[i - 1]

    def esc_text(self, s):
        """element content: raw, character references or CDATA, piecewise"""
        out = []
        i = 0
        if s and "]]>" not in s and "\r" not in s and self.rng.random() < 0.15:
            return "<![CDATA[" + s + "]]>"
        for ch in s:
            r = self.rng.random()
            if ch == "<":
                out.append(self.rng.choice(["&lt;", "&#60;", "&#x3C;"]))
            elif ch == "&":
                out.append(self.rng.choice(["&amp;", "&#38;"]))
            elif ch == ">":
                out.append(self.rng.choice(["&gt;", "&#62;"]))         # '>' must be escaped in "]]>"; escaping it always is legal
            elif ch == "\r":
                out.append(self.rng.choice(["&#13;", "&#xD;"]))         # a raw CR would be normalised to LF by the XML processor
            elif ch in "\u0085 ":
                out.append("&#x%X;" % ord(ch) if r < 0.5 else ch)
            elif r < 0.08:
                out.append(self.rng.choice(["&#%d;", "&#x%x;", "&#x%X;"]) % ord(ch))
            else:
                out.append(ch)
        return "".join(out)

    def esc_attr(self, s, q):
        out = []
        for ch in s:
            if ch == "<":
                out.append("&lt;")
            elif ch == "&":
                out.append("&amp;")
            elif ch == q:
                out.append("&quot;" if q == '"' else "&apos;")
            elif ch in "\t\n\r":
                out.append("&#%d;" % ord(ch))                              # attribute-value normalisation would turn them into spaces
            elif ch in "\u0085 ":
                out.append("&#x%X;" % ord(ch))
            elif self.rng.random() < 0.05:
                out.append("&#x%X;" % ord(ch))
            else:
                out.append(ch)
        return "".join(out)

    def attr(self, name, value, raw=False):
        q = self.rng.choice(['"', '"', "'"])
        eq = self.rng.choice(["=", "=", " = ", "= "])
        return name + eq + q + (value if raw else self.esc_attr(value, q)) + q

    def ref_text(self, target, base, allow_rel):
        """an IRI reference in attribute position: absolute, or relative to the base in force when the token allows it"""
        if allow_rel and base and self.rng.random() < 0.6:
            b = BASES[base]
            cands = []
            if target.startswith(b + "#"):
                cands += [target[len(b):], b.rsplit("/", 1)[1] + target[len(b):]]
            d = b.rsplit("/", 1)[0] + "/"
            if target.startswith(d):
                cands += [target[len(d):], "./" + target[len(d):]]
            host = "http://ex.example"
            if target.startswith(host + "/"):
                cands += [target[len(host):], "//ex.example" + target[len(host):]]
            cands = [c for c in cands if c and urljoin(b, c) == target and ":" not in c.split("/")[0].split("#")[0]]
            if cands:
                return self.rng.choice(cands)
        return target

    # ---- names and namespace scopes -------------------------------------------------------------------
    def qname(self, scope, decls, ns, local, *, element):
        """pick (or declare here) a prefix for ns; the default namespace serves element names only"""
        have = [l for l, n in scope.items() if n == ns and (element or l != "")]
        if have and self.rng.random() < 0.8:
            l = self.rng.choice(have)
        else:
            pool = ([""] if element and self.rng.random() < 0.25 else []) + ([self.rdfp] if ns == RDF else [p for p in PREFIXES])
            self.rng.shuffle(pool)
            l = next((p for p in pool if p not in decls and not (p in self._locked)), None)
            if l is None:
                l = "n%d" % len(scope)
            scope[l] = ns
            decls[l] = ns
        self._locked.add(l)
        return (l + ":" if l else "") + local

    def open_tag(self, scope, name_ns, name_local, attrs, *, empty=False):
        """attrs: list of (ns | None for xml: | 'raw', local, value, is_ref)"""
        scope = dict(scope)
        decls = {}
        self._locked = set()
        ename = self.qname(scope, decls, name_ns, name_local, element=True)
        parts = []
        for ns, local, value in attrs:
            if ns == "xml":
                parts.append(self.attr("xml:" + local, value))
            else:
                parts.append(self.attr(self.qname(scope, decls, ns, local, element=False), value))
        for l, ns in decls.items():
            val = ns
            if ns in self.entities.values() and self.rng.random() < 0.7:
                ent = next(k for k, v in self.entities.items() if v == ns)
                parts.append(self.attr("xmlns:" + l if l else "xmlns", "&%s;" % ent, raw=True))
            else:
                parts.append(self.attr("xmlns:" + l if l else "xmlns", val))
        self.rng.shuffle(parts)
        sep = self.rng.choice([" ", " ", "\n    ", "  ", "\t"])
        s = "<" + ename + "".join(sep + p for p in parts)
        s += self.rng.choice(["", " ", "\n"])
        return s + ("/>" if empty else ">"), ename, scope

    def gap(self):
        return self.rng.choice(["", "\n", "\n  ", " ", "\t", "\n<!-- note -->\n", "<!-- a -- b is not allowed, a - b is -->".replace("a -- b is not allowed, ", ""), "\r\n", "<?pi data?>"])

    # ---- rendering -------------------------------------------------------------------------------------
    def scope_attrs(self, tok, env):
        """xml:lang / xml:base attributes of an element and the environment inside it"""
        attrs = []
        lang, base = env
        if tok.get("lang", "keep") != "keep":
            lang = tok["lang"]
            attrs.append(("xml", "lang", self.lang[lang] if lang else ""))
        if tok.get("base", 9) not in (9, 0):
            base = tok["base"]
            b = BASES[base]
            if self.rng.random() < 0.3:
                b += self.rng.choice(["#frag", "?q=1", ""])          # only the part before the fragment counts; a query is replaced by a relative path reference
                if "?" in b:
                    b = BASES[base]
            attrs.append(("xml", "base", b))
        return attrs, (lang, base)

    def subject_attrs(self, tok, base):
        sj = tok["subj"]
        t = sj["term"]
        if t["k"] == "none":
            return []
        if t["k"] == "bnode":
            return [(RDF, "nodeID", t["v"])]
        value = self.iri_value(t)
        loc = self.local[t["l"]]
        if sj["id"] and loc not in self.used_ids and loc not in self.reif_ids and self.rng.random() < 0.5:
            self.used_ids.add(loc)
            return [(RDF, "ID", loc)]
        return [(RDF, "about", self.ref_text(value, base, sj["rel"]))]

    def pattr_list(self, pattrs):
        return [(NS[a["p"]["ns"]], self.local[a["p"]["l"]], self.text_of(a["i"])) for a in pattrs]

    def render(self):
        rng = self.rng
        out = []
        stack = []          # (closing tag text, scope before, env before)
        scope = {}
        env = ("", 0)
        doc = self.doc
        wrap = bool(doc) and doc[0]["t"] == "rdf"
        if rng.random() < 0.5:
            out.append(rng.choice(['<?xml version="1.0"?>', '<?xml version="1.0" encoding="UTF-8"?>', "<?xml version='1.0' encoding='utf-8' standalone='yes'?>"]) + rng.choice(["", "\n"]))
        if wrap and rng.random() < 0.2:
            used = sorted({x for x in (1, 2, 3)})
            k = rng.choice(used)
            self.entities = {"ns%d" % k: NS[k]}
            out.append("<!DOCTYPE %s:RDF [\n  <!ENTITY ns%d \"%s\">\n]>\n" % (self.rdfp, k, NS[k]))
        if rng.random() < 0.3:
            out.append("<!-- leading comment -->\n")
        for tok in doc:
            t = tok["t"]
            if t == "rdf":
                attrs = []
                lang, base = tok["lang"], tok["base"]
                if lang:
                    attrs.append(("xml", "lang", self.lang[lang]))
                if base:
                    attrs.append(("xml", "base", BASES[base]))
                if self.entities:
                    scope = {}
                    # the DOCTYPE names the document element: the rdf prefix must be the one announced there
                    tag, ename, scope2 = self._root_tag(attrs)
                else:
                    tag, ename, scope2 = self.open_tag(scope, RDF, "RDF", attrs)
                out.append(tag)
                stack.append(("</" + ename + rng.choice(["", " ", "\n"]) + ">", scope, env))
                scope, env = scope2, (lang, base)
                out.append(self.gap())
            elif t == "/rdf":
                close, scope, env = stack.pop()
                out.append(close)
            elif t == "node":
                sattrs, env2 = self.scope_attrs(tok, env)
                attrs = sattrs + self.subject_attrs(tok, env2[1]) + self.pattr_list(tok["pattrs"])
                for ta in tok["tattr"]:
                    attrs.append((RDF, "type", self.ref_text(self.iri_value(ta["term"]), env2[1], ta["rel"])))
                if tok["typed"]["ns"] == 0:
                    nns, nl = RDF, "Description"
                else:
                    nns, nl = NS[tok["typed"]["ns"]], self.local[tok["typed"]["l"]]
                tag, ename, scope2 = self.open_tag(scope, nns, nl, attrs)
                out.append(tag)
                stack.append(("</" + ename + ">", scope, env))
                scope, env = scope2, env2
                out.append(self.gap())
            elif t == "/node" or t == "/prop":
                close, scope, env = stack.pop()
                out.append(close)
                out.append(self.gap())
            elif t == "prop":
                c = tok["pred"]
                if c["li"]:
                    pns, pl = RDF, "li"
                else:
                    pns, pl = NS[c["p"]["ns"]], self.local[c["p"]["l"]]
                sattrs, env2 = self.scope_attrs(tok, env)
                attrs = list(sattrs)
                if tok["rid"]["on"]:
                    attrs.append((RDF, "ID", self.local[tok["rid"]["term"]["l"]]))
                form = tok["form"]
                if form == "lit":
                    if tok["dt"]:
                        attrs.append((RDF, "datatype", self.dts[tok["dt"] - 1]))
                    tag, ename, _ = self.open_tag(scope, pns, pl, attrs)
                    out.append(tag + self.esc_text(self.text_of(tok["i"])) + "</" + ename + ">")
                elif form == "empty":
                    if rng.random() < 0.5:
                        tag, ename, _ = self.open_tag(scope, pns, pl, attrs, empty=True)
                        out.append(tag)
                    else:
                        tag, ename, _ = self.open_tag(scope, pns, pl, attrs)
                        out.append(tag + "</" + ename + ">")
                elif form == "ptLiteral":
                    attrs.append((RDF, "parseType", "Literal"))
                    tag, ename, _ = self.open_tag(scope, pns, pl, attrs)
                    out.append(tag + self.esc_xml_literal(self.xml_texts[tok["i"] - 1]) + "</" + ename + ">")
                elif form == "ref":
                    tg = tok["tgt"]["term"]
                    if tg["k"] == "iri":
                        attrs.append((RDF, "resource", self.ref_text(self.iri_value(tg), env2[1], tok["tgt"]["rel"])))
                    elif tg["k"] == "bnode":
                        attrs.append((RDF, "nodeID", tg["v"]))
                    attrs += self.pattr_list(tok["pattrs"])
                    for ta in tok["tattr"]:
                        attrs.append((RDF, "type", self.ref_text(self.iri_value(ta["term"]), env2[1], ta["rel"])))
                    if rng.random() < 0.6:
                        tag, ename, _ = self.open_tag(scope, pns, pl, attrs, empty=True)
                        out.append(tag)
                    else:
                        tag, ename, _ = self.open_tag(scope, pns, pl, attrs)
                        out.append(tag + "</" + ename + ">")
                else:
                    if form == "ptResource":
                        attrs.append((RDF, "parseType", "Resource"))
                    elif form == "ptCollection":
                        attrs.append((RDF, "parseType", "Collection"))
                    tag, ename, scope2 = self.open_tag(scope, pns, pl, attrs)
                    out.append(tag)
                    stack.append(("</" + ename + ">", scope, env))
                    scope, env = scope2, env2
                out.append(self.gap())
            else:
                raise ValueError(t)
        assert not stack, stack
        text = "".join(out)
        if rng.random() < 0.3:
            text += rng.choice(["\n", "\n<!-- trailing -->", " "])
        return text

    def _root_tag(self, attrs):
        scope = {self.rdfp: RDF}
        decls = {self.rdfp: RDF}
        self._locked = {self.rdfp}
        parts = []
        for ns, local, value in attrs:
            parts.append(self.attr("xml:" + local, value))
        parts.append(self.attr("xmlns:" + self.rdfp, RDF))
        self.rng.shuffle(parts)
        ename = self.rdfp + ":RDF"
        return "<" + ename + "".join(" " + p for p in parts) + ">", ename, scope

    def esc_xml_literal(self, s):
        # text-only content of parseType="Literal": written with the predefined entities, so that the canonical form is unambiguous
        return s.replace("&", "&amp;").replace("<", "&lt;").replace(">", "&gt;")

    # ---- the expected graph, concretely ------------------------------------------------------------
    def term(self, t, bmap):
        if t["k"] == "iri":
            return URIRef(self.iri_value(t))
        if t["k"] == "bnode":
            return bmap.setdefault(t["v"], BNode())
        if t["k"] == "default":
            return None
        assert t["k"] == "xlit", t
        ndt = 2
        if t["dt"] == 0:
            text = self.text_of(t["i"])
            return Literal(text, lang=self.lang[t["lang"]]) if t["lang"] else Literal(text)
        if t["dt"] > len(self.dts) or t.get("xml"):
            raise ValueError(t)
        return Literal(self.text_of(t["i"]), datatype=URIRef(self.dts[t["dt"] - 1]))

    def expected(self, quads, abst, ndt):
        bmap = {}
        out = []
        for q in quads:
            o = q["o"]
            if o["k"] == "xlit" and o["dt"] == ndt + 1:
                oo = Literal(self.esc_xml_literal(self.xml_texts[o["i"] - 1]), datatype=URIRef(RDF + "XMLLiteral"))
            else:
                oo = self.term(o, bmap)
            s, p = self.term(q["s"], bmap), self.term(q["p"], bmap)
            out.append([abst(s), abst(p), abst(oo), {"k": "default"}])
        return out
