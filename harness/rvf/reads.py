"""Read-only API calls exercised by C13 (purity / stability).  Each returns a canonical, hashable rendering."""
from __future__ import annotations

import hashlib
import io

from rdflib import BNode, Dataset, Graph, Literal, URIRef, Variable
from rdflib.compare import graph_diff, isomorphic, to_canonical_graph, to_isomorphic
from rdflib.namespace import RDF
from rdflib.paths import ZeroOrMore, OneOrMore


def _h(x) -> str:
    return hashlib.sha1(repr(x).encode("utf-8", "surrogatepass")).hexdigest()[:12]


def _rows(res):
    if res.type == "ASK":
        return ("ASK", bool(res.askAnswer))
    if res.type in ("CONSTRUCT", "DESCRIBE"):
        return (res.type, sorted(to_canonical_graph(res.graph).serialize(format="nt").splitlines()))
    return ("SELECT", [str(v) for v in res.vars or []], sorted(sorted((str(k), v.n3()) for k, v in b.items() if not isinstance(v, BNode)) for b in res.bindings))


QUERIES = {
    "q_select": "SELECT * WHERE { ?s ?p ?o }",
    "q_select_g": "SELECT * WHERE { GRAPH ?g { ?s ?p ?o } }",
    "q_ask": "ASK { ?s ?p ?o }",
    "q_construct": "CONSTRUCT { ?o ?p ?s } WHERE { ?s ?p ?o FILTER(isIRI(?o)) }",
    "q_describe": "DESCRIBE ?s WHERE { ?s ?p ?o }",
    "q_optional": "SELECT ?s ?x WHERE { ?s ?p ?o OPTIONAL { ?o ?q ?x } }",
    "q_union_minus": "SELECT ?s WHERE { { ?s ?p ?o } UNION { GRAPH ?g { ?s ?p ?o } } MINUS { ?s ?p 42 } }",
    "q_agg": "SELECT ?p (COUNT(*) AS ?n) WHERE { ?s ?p ?o } GROUP BY ?p ORDER BY ?p",
    "q_path": "SELECT ?a ?b WHERE { ?a (<urn:x:p1>|<urn:x:p2>)* ?b }",
    "q_from": "SELECT * FROM <urn:g:g1> WHERE { ?s ?p ?o }",
    "q_from2": "SELECT * FROM <urn:g:g1> FROM <urn:g:g2> WHERE { ?s ?p ?o }",
    "q_from3": "SELECT * FROM <urn:g:g2> FROM <urn:g:g1> FROM NAMED <urn:g:g1> WHERE { { ?s ?p ?o } UNION { GRAPH ?g { ?s ?p ?o } } }",
    "q_from_named": "SELECT * FROM NAMED <urn:g:g1> WHERE { GRAPH ?g { ?s ?p ?o } }",
    "q_graph_absent": "SELECT * WHERE { GRAPH <urn:g:absent> { ?s ?p ?o } }",
    "q_graph_absent_ask": "ASK { GRAPH <urn:g:absent2> { ?s ?p ?o } }",
    "q_graph_absent_opt": "SELECT * WHERE { ?s ?p ?o OPTIONAL { GRAPH <urn:g:absent3> { ?s ?q ?z } } }",
    "q_exists": "SELECT ?s WHERE { ?s ?p ?o FILTER NOT EXISTS { ?o ?q ?z } }",
    "q_subselect": "SELECT ?s WHERE { { SELECT ?s WHERE { ?s ?p ?o } LIMIT 2 } }",
}
DS_FORMATS = ["nquads", "trig", "trix", "json-ld", "hext", "patch", "nt", "turtle", "xml"]
G_FORMATS = ["nt", "turtle", "longturtle", "n3", "xml", "pretty-xml", "json-ld", "hext", "trig", "trix", "nquads"]

KINDS = ([("ser_ds", f) for f in DS_FORMATS] + [("ser_view", f) for f in G_FORMATS] + [("query_ds", q) for q in QUERIES]
         + [("query_view", q) for q in ("q_select", "q_ask", "q_construct", "q_describe", "q_optional", "q_agg", "q_path", "q_exists")]
         + [(k, "") for k in ("iso", "to_iso", "canon", "diff", "iter", "slice", "value", "items", "cbd", "all_nodes", "connected",
                              "graphs", "quads", "len", "contains", "resource", "path_eval", "triples_choices", "subjects", "contexts_of", "get_graph", "collection",
                              "foreign_ctx", "graphs_of", "quad_patterns", "prepared", "other_facade", "path_reused", "to_iso_ds", "resource_transitive")])
_PATHS = {}

_PREPARED = {}


def _prepared(key, text):
    """one prepared query object per text for the life of the process: evaluating it must not leave anything behind in it"""
    if key not in _PREPARED:
        from rdflib.plugins.sparql import prepareQuery
        _PREPARED[key] = prepareQuery(text)
    return _PREPARED[key]


def do_read(w, kind, arg, target):
    """w: store_replay.World; target: a graph name for view reads"""
    v = w.v
    ds = w.ds
    view = w.view(target)
    if kind == "ser_ds":
        kw = {"operation": "add"} if arg == "patch" else {}
        txt = ds.serialize(format=arg, **kw)
        return txt
    if kind == "ser_view":
        return view.serialize(format=arg)
    if kind == "query_ds":
        return _rows(ds.query(QUERIES[arg]))
    if kind == "query_view":
        return _rows(view.query(QUERIES[arg]))
    other = Graph()
    for t in view:
        other.add(t)
    other.add((URIRef("urn:x:extra"), RDF.type, BNode()))
    if kind == "iso":
        return (isomorphic(view, other), view.isomorphic(view))
    if kind == "to_iso":
        return to_isomorphic(view).graph_digest()
    if kind == "canon":
        return sorted(to_canonical_graph(view).serialize(format="nt").splitlines())
    if kind == "diff":
        a, b, c = graph_diff(view, other)
        return (len(a), len(b), len(c))
    if kind == "iter":
        return sorted(map(repr, view)), sorted(map(repr, ds))
    s1, p1, o1 = v.term(w.cfg["S"][0]), v.term(w.cfg["P"][0]), v.term(w.cfg["O"][0])
    if kind == "slice":
        return (sorted(map(repr, view[s1:p1])), sorted(map(repr, view[s1])), sorted(map(repr, view[::o1])), sorted(map(repr, view[:p1:])))
    if kind == "value":
        return (repr(view.value(s1, p1, any=True)), repr(view.value(predicate=p1, object=o1, any=True)), repr(ds.value(s1, p1, any=True)))
    if kind == "items":
        return [repr(x) for x in view.items(s1)]
    if kind == "collection":
        # reading an rdf:List through Graph.collection() on the view and on the dataset (union) view
        node = v.term("s1")
        out = [str(x) for x in view.collection(node)]
        if ds is not None:
            try:
                out += [str(x) for x in ds.collection(node)]
            except Exception as ex:     # noqa: BLE001
                out.append(type(ex).__name__)
        return out
    if kind == "cbd":
        return sorted(map(repr, view.cbd(s1)))
    if kind == "all_nodes":
        return sorted(map(repr, view.all_nodes()))
    if kind == "connected":
        return view.connected()
    if kind == "graphs":
        return sorted(repr(g.identifier) for g in ds.graphs())
    if kind == "quads":
        return sorted(repr(q) for q in ds.quads())
    if kind == "len":
        return (len(ds), len(view))
    if kind == "contains":
        return ((s1, p1, o1) in ds, (s1, p1, o1) in view, (s1, p1, o1, view) in ds, (s1, None, None) in view)
    if kind == "resource":
        r = view.resource(s1)
        return (sorted(repr((p.identifier, getattr(o, "identifier", o))) for p, o in r.predicate_objects()), repr(r.value(p1)))
    if kind == "path_eval":
        return (sorted(repr(t) for t in view.triples((s1, p1 * ZeroOrMore, None))), sorted(repr(t) for t in ds.triples((None, p1 * OneOrMore, o1))))
    if kind == "triples_choices":
        return sorted(repr(t) for t in ds.triples_choices(([s1, o1], p1, None))) + sorted(repr(t) for t in view.triples_choices((s1, [p1], None)))
    if kind == "subjects":
        return (sorted(map(repr, view.subjects(unique=True))), sorted(map(repr, view.predicate_objects(s1))), sorted(map(repr, ds.objects(s1, p1))))
    if kind == "contexts_of":
        return sorted(repr(c.identifier) for c in ds.store.contexts((s1, p1, o1)))
    if kind == "prepared":
        # the same prepared query objects evaluated on every call: the row ORDER of each answer is part of what is compared
        out = []
        for key, text in (("o2", "SELECT ?s ?p ?o WHERE { ?s ?p ?o } ORDER BY ?p DESC(?s) ?o"), ("o3", "SELECT ?p ?o WHERE { ?s ?p ?o } ORDER BY DESC(?p) ?o ?s LIMIT 5"),
                          ("agg", "SELECT ?p (COUNT(*) AS ?n) (MAX(?o) AS ?m) WHERE { ?s ?p ?o } GROUP BY ?p ORDER BY DESC(?n) ?p"),
                          ("opt", "SELECT ?s ?x WHERE { ?s ?p ?o OPTIONAL { ?o ?q ?x FILTER(?x != ?s) } } ORDER BY ?s ?x"),
                          ("sub", "SELECT ?s WHERE { { SELECT DISTINCT ?s WHERE { ?s ?p ?o } ORDER BY ?s LIMIT 3 } ?s ?q ?z } ORDER BY ?s ?z")):
            for target_graph in (view, ds, view):       # (an odd number of evaluations per call: a flip-flop left behind in the query object shows)
                res = target_graph.query(_prepared(key, text))
                out.append([sorted((str(k), v.n3()) for k, v in b.items() if not isinstance(v, BNode)) for b in res.bindings])
        return out
    if kind == "other_facade":
        # the same store read through a second facade object (a ConjunctiveGraph and a Dataset opened on it)
        from rdflib import ConjunctiveGraph, Dataset
        out = []
        for cls in (ConjunctiveGraph, Dataset):
            f = cls(store=ds.store)
            names = sorted(repr(c.identifier) for c in f.contexts())
            out.append((len(list(f.quads())), sorted(f.serialize(format="nquads").splitlines()), len(f.serialize(format="trig")) > 0,
                        _rows(f.query("SELECT * WHERE { GRAPH ?g { ?s ?p ?o } }")), len(f)))
            del names
        return out
    if kind == "foreign_ctx":
        # questions that name a graph by a Graph object living in ANOTHER store (same and different identifier): nothing is brought in
        f1 = Graph(identifier=view.identifier)
        f2 = Graph(identifier=URIRef("urn:g:foreign"))
        for f in (f1, f2):
            f.add((URIRef("urn:x:foreign-s"), p1, o1))
            f.add((s1, p1, URIRef("urn:x:foreign-o")))
        return [((s1, p1, o1, f) in ds, sorted(map(repr, ds.triples((None, None, None), context=f))), sorted(repr(q[:3]) for q in ds.quads((None, p1, None, f))),
                 sorted(map(repr, ds.triples_choices((s1, [p1], None), context=f)))) for f in (f1, f2)]
    if kind == "graphs_of":
        lister = ds.graphs if hasattr(ds, "graphs") else ds.contexts
        return sorted(repr(g.identifier) for g in lister((s1, p1, o1)))
    if kind == "quad_patterns":
        return sorted(repr(q) for q in ds.quads((None, None, None, view.identifier))) + sorted(repr(q) for q in ds.quads((s1, None, None, view)))
    if kind == "path_reused":
        # one Path object per predicate for the life of the process (as an application keeps them in module constants), evaluated from
        # either end by reads that stop at the first answer: evaluating it leaves nothing behind in it
        from rdflib.paths import InvPath, SequencePath
        key = str(p1)
        if key not in _PATHS:
            _PATHS[key] = (SequencePath(p1, InvPath(p1)), SequencePath(InvPath(p1), p1, InvPath(p1)), repr(SequencePath(p1, InvPath(p1))), repr(SequencePath(InvPath(p1), p1, InvPath(p1))))
        pa, pb, ra, rb = _PATHS[key]
        out = [repr(view.value(predicate=pa, object=s1, any=True)), repr(view.value(subject=s1, predicate=pa, any=True)), (s1, pa, s1) in view, (None, pb, s1) in view,
               repr(next(iter(view.subjects(pa, s1)), None)), repr(next(iter(view.subjects(pb, s1)), None)), bool(view.query("ASK { ?a ?p ?b }")),
               sorted(map(repr, view.subject_objects(pa))), sorted(map(repr, view.subject_objects(pb))), repr(pa) == ra, repr(pb) == rb]
        return out
    if kind == "to_iso_ds":
        return to_isomorphic(ds).graph_digest()
    if kind == "resource_transitive":
        r1, r2 = view.resource(s1), view.resource(o1)
        return [sorted(repr(x.identifier if hasattr(x, "identifier") and not isinstance(x, Literal) else x) for x in r1.transitive_objects(p1)), sorted(repr(x.identifier if hasattr(x, "identifier") and not isinstance(x, Literal) else x) for x in r2.transitive_subjects(p1)),
                sorted(repr(x.identifier if hasattr(x, "identifier") and not isinstance(x, Literal) else x) for x in r1.transitive_objects(p1))]
    if kind == "get_graph":
        gg = ds.get_graph(view.identifier) if hasattr(ds, "get_graph") else None
        return repr(gg.identifier if gg is not None else None)
    raise ValueError(kind)


def expected(w, kind, arg, target):
    """an answer worked out by the harness itself from the view's triples, for the read kinds that have one (None otherwise)"""
    if kind != "resource_transitive":
        return None
    v = w.v
    view = set(w.view(target))
    s1, p1, o1 = v.term(w.cfg["S"][0]), v.term(w.cfg["P"][0]), v.term(w.cfg["O"][0])

    def closure(start, fwd):
        seen, todo = [], [start]
        while todo:
            n = todo.pop()
            if n in seen:
                continue
            seen.append(n)
            todo += [(t[2] if fwd else t[0]) for t in view if t[1] == p1 and (t[0] if fwd else t[2]) == n]
        return sorted(repr(x) for x in seen)
    return [closure(s1, True), closure(o1, False), closure(s1, True)]


def stable_digest(kind, fmt, val):
    """documents are compared as text first"""
    return _h(val)


def meaning_digest(kind, fmt, txt):
    """digest of the parsed meaning of a serialisation (used only when two texts differ)"""
    try:
        if kind == "ser_ds" and fmt in ("nquads", "trig", "trix", "json-ld", "hext"):
            d = Dataset()
            d.parse(data=txt, format=fmt)
            return _h(sorted(sorted(to_canonical_graph(g).serialize(format="nt").splitlines()) for g in d.graphs()))
        g = Graph()
        g.parse(data=txt, format={"pretty-xml": "xml", "longturtle": "turtle"}.get(fmt, fmt))
        return _h(sorted(to_canonical_graph(g).serialize(format="nt").splitlines()))
    except Exception as ex:  # noqa: BLE001
        return "unparsed:" + _h(txt)
