"""What MANIFEST.json claims, per property (bin/mkmanifest turns this into MANIFEST.json)."""

HOOK_COMMITS: list = []
NOTES = ("Model-based verification with explicit TLA+ specifications (spec/*.tla). Every verdict is produced by TLC: "
         "model checking of the property spec (tier P) and of the implementation-shaped spec (tier I), and validation of traces "
         "recorded from rdflib against the trace spec (tier T) that re-uses tier P's operators. See DESIGN.md.")

ENGINES = [
    {"name": "store", "path": "spec/TripleStore.tla spec/MemoryStore.tla spec/TraceStore.tla harness/rvf/store_replay.py",
     "serves_properties": ["C01", "C02", "C13"], "kind_free_text": "TLA+ state machine of the dataset + transcription of Memory store; TLC trace validation"},
]

_NOTE_COMMON = ("Trusted: TLC, the TLA+ specs as a transcription of the property / W3C text, the Python replay harness that maps abstract "
                "terms to rdflib terms and records observations. Bounded: exhaustive only within the stated small universes and depths; "
                "beyond them seeded sampling.")

CHECKS = {
    "C01": {
        "engine": "store",
        "technique": "TLA+ spec + TLC model checking (tier P and implementation-shaped tier I with refinement) + TLC trace validation of replayed TLC-generated histories",
        "level": ("TLC exhaustively checks the dataset state machine and the transcription of the Memory store (index coherence, every read path = abstract set, "
                  "no internal lookup can fail, generator safety) on small universes; every TLC-exported history up to the depth bound, every tier-I counterexample "
                  "schedule and seeded long histories are replayed on rdflib (both in-memory stores, shared/own store, 5 vocabularies incl. falsy terms) and each recorded "
                  "trace is validated by TLC against the property spec with all 8 pattern shapes, len, iteration, membership and set operators compared at the observation points."),
        "note": _NOTE_COMMON + " Iterator clause checked on the default store only, interleavings of calls in one thread.",
    },
}
NOT_BUILT: dict = {}
