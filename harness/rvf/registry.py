"""What MANIFEST.json claims, per property (bin/mkmanifest turns this into MANIFEST.json)."""

HOOK_COMMITS: list = ["985e22ee57e411e64baa6dc520dbcfa1e5b71458", "cd8fbeae55cebbb345c3152c37383f30a1760ad9"]
NOTES = ("Model-based verification with explicit TLA+ specifications (spec/*.tla). Every verdict is produced by TLC: "
         "model checking of the property spec (tier P) and of the implementation-shaped spec (tier I), and validation of traces "
         "recorded from rdflib against the trace spec (tier T) that re-uses tier P's operators. See DESIGN.md.")

ENGINES = [
    {"name": "store", "path": "spec/TripleStore.tla spec/MemoryStore.tla spec/TraceStore.tla spec/GraphOps.tla spec/GraphAlgebra.tla spec/TraceGraphAlgebra.tla harness/rvf/store_replay.py harness/rvf/galg_replay.py",
     "serves_properties": ["C01", "C02", "C13"], "kind_free_text": "TLA+ state machine of the dataset + transcription of Memory store; TLC trace validation"},
]

_NOTE_COMMON = ("Trusted: TLC, the TLA+ specs as a transcription of the property / W3C text, the Python replay harness that maps abstract "
                "terms to rdflib terms and records observations. Bounded: exhaustive only within the stated small universes and depths; "
                "beyond them seeded sampling.")

CHECKS = {
    "C01": {
        "engine": "store",
        "technique": "TLA+ spec + TLC model checking (tier P and implementation-shaped tier I with refinement) + TLC trace validation of replayed TLC-generated histories",
        "level": ("TLC exhaustively checks the dataset state machine and the transcription of the Memory store (index coherence, every read path = abstract set, "
                  "no internal lookup can fail, generator safety) on small universes; every TLC-exported history up to the depth bound, every tier-I counterexample "
                  "schedule and seeded long histories are replayed on rdflib (both in-memory stores, shared/own store, 5 vocabularies incl. falsy terms) and each recorded "
                  "trace is validated by TLC against the property spec with all 8 pattern shapes, len, iteration, membership and set operators compared at the observation points. A second step replays histories of the Graph-level API "
                  "(set, += -= + - * ^ incl. a graph as its own operand and graphs sharing an identifier, BatchAddGraph, value, projections, triples_choices, cbd, connected) on two graphs in 8 store configurations and validates them against GraphOps.tla."),
        "note": _NOTE_COMMON + " Iterator clause checked on the default store only, interleavings of calls in one thread. The thorough tier also runs the repository's own tests (15 test directories) with the "
                "Memory-store hooks on (rdflib/_verif.py, guard RDFLIB_VERIF) and lets TLC validate every store instance's recorded add / remove history against TraceMemory.tla (len(store) and len(store, context) after every event).",
    },
}
_T = "TLA+ spec + TLC model checking (tier P / implementation-shaped tier I, deviation variants must be refuted) + TLC trace validation of replayed TLC-generated and seeded histories"
CHECKS.update({
    "C02": {"engine": "store", "technique": _T,
            "level": ("TLC checks isolation, remove-everywhere, remove_graph and purity action properties on the dataset state machine and refinement of the Memory-store transcription with three contexts; "
                      "every TLC-exported dataset history (default / IRI-named / bnode-named graphs; add, addN, remove, remove-everywhere, graph, remove_graph) up to the depth bound plus seeded long histories is replayed "
                      "through Dataset (default_union on/off) and ConjunctiveGraph, via the dataset API and via independent views, graph given as object or identifier; TLC validates quads(), graphs(), every view under all pattern shapes, "
                      "quad membership, quad patterns naming a graph, the graphs of a triple and context-restricted queries for existing, empty and unknown graphs against the property spec. A second step replays Graph-level API histories "
                      "(+= -= and the set operators between views of one dataset, with a further graph in the store that must stay untouched) and validates them against GraphOps.tla."),
            "note": _NOTE_COMMON},
    "C13": {"engine": "store", "technique": _T,
            "level": ("Every read-only call of a 60-kind read alphabet (serialize x 20 format/target combinations, 21 SPARQL queries incl. FROM/FROM NAMED/GRAPH/paths/aggregates/DESCRIBE, comparison and canonicalisation, iteration, slicing, "
                      "Resource, paths, triples_choices ...) is executed twice after TLC-exported and seeded write histories; TLC validates that quads and the graph set after each read equal the state the property spec holds "
                      "(reads are stutter steps on <<G, made>>) and that both answers agree."),
            "note": _NOTE_COMMON + " Answers are compared through digests computed by the harness; documents that differ as text are compared by parsed canonical meaning."},
    "C17": {"engine": "namespaces", "technique": _T,
            "level": ("TLC checks the transcription of Memory.bind + NamespaceManager.bind + compute_qname (memo cache, trie) against bijection, qname-bound, expand-back, frame and no-generate properties to depth 6 "
                      "(both pinned-commit deviations are refuted by TLC: stale memo cache, cross-linked no-override bind); all exported histories to the depth bound, TLC-simulated depth-7 behaviours and seeded histories adding "
                      "qname/curie/n3/strict/expand/serialize/parse are replayed on both stores; TLC validates listing, both lookup directions and every result after every event."),
            "note": _NOTE_COMMON + " Which prefix a bind ends up with is left free (only consistency, frame and expansion are judged)."},
    "C18": {"engine": "auditable", "technique": _T,
            "level": ("TLC checks the log discipline of AuditableStore (rollback restores exactly the touched quads to the snapshot, commit keeps, second rollback is a no-op, the other wrapper's quads stay intact) over all 16 initial contents, "
                      "one wrapper and two interleaved wrappers; the pinned-commit variant of add() is refuted; all exported histories (depth 4-6) and seeded 40-step histories over 3 graphs are replayed on Memory+AuditableStore through "
                      "Graph and ConjunctiveGraph facades and the wrapped store's quads after every call are validated by TLC."),
            "note": _NOTE_COMMON},
    "C19": {"engine": "collection", "technique": _T,
            "level": ("TLC checks the transcription of collection.py against Python-list semantics and chain well-formedness (repaired variant holds, pinned-commit variant refuted); all exported histories of append/+=/c[i]=x/del c[i]/clear "
                      "for every index incl. out of range and negative (Python positions), from every start list of length 0-3, followed by every read, plus corruption scenarios under a CPU-time watchdog (full-walk reads of a cyclic chain must raise), lists longer than the recursion limit, c += c and seeded histories, are replayed; TLC validates every result/exception, "
                      "list(c), len and the full set of rdf:first/rdf:rest triples (well-formed chain, no orphans) after every event."),
            "note": _NOTE_COMMON + " One known finding (setitem at index == len) is modelled as a named deviation; see known_findings.jsonl."},
})
ENGINES += [
    {"name": "namespaces", "path": "spec/Namespaces.tla spec/TraceNamespaces.tla harness/rvf/ns_replay.py", "serves_properties": ["C17"], "kind_free_text": "TLA+ transcription of bind/compute_qname + trace validation"},
    {"name": "auditable", "path": "spec/Auditable.tla spec/TraceAuditable.tla harness/rvf/aud_replay.py", "serves_properties": ["C18"], "kind_free_text": "TLA+ log-discipline model + trace validation"},
    {"name": "collection", "path": "spec/Collection.tla spec/TraceCollection.tla harness/rvf/coll_replay.py", "serves_properties": ["C19"], "kind_free_text": "TLA+ transcription of collection.py + trace validation"},
]
_TQ = "TLA+ transcription of the W3C semantics (Sparql.tla / SparqlPaths.tla / SparqlUpdate.tla) + TLC-checked laws guarding the transcription + TLC validation of every recorded answer of rdflib (trace spec), known findings as named deviation models"
_NQ = _NOTE_COMMON + " The oracle is my transcription of the recommendation; it is guarded by algebraic laws and a declarative twin checked by TLC. Query / request spaces are enumerated by a Python grammar enumerator; TLC decides every case."
CHECKS.update({
    "C04": {"engine": "sparql", "technique": _TQ, "note": _NQ,
            "level": ("TLC checks 10 algebra laws over 8281 operand pairs and the BGP declarative twin over 4096 cases; 1400+ systematically enumerated group patterns {A op B} (Join, OPTIONAL(+FILTER), UNION, MINUS, EXISTS, scopes, sub-SELECT, BIND, VALUES, GRAPH) "
                      "x data graphs / datasets x forms (SELECT, SELECT DISTINCT vars, ASK) plus seeded random queries of depth <= 3 incl. CONSTRUCT are run on rdflib and every answer is validated by TLC as a multiset against the transcribed semantics.")},
    "C08": {"engine": "sparql", "technique": _TQ, "note": _NQ,
            "level": ("Every combination of DISTINCT/REDUCED x 10 ORDER BY key lists x projections x 8 LIMIT/OFFSET settings over 6 patterns, and 18 aggregates x 4 groupings x HAVING, over 4 data graphs; TLC validates each answer with the predicates "
                      "OrderedOK / SliceOK / ReducedOK / AggOK (exact where SPARQL is exact, permissive where it leaves freedom).")},
    "C10": {"engine": "sparql", "technique": _TQ, "note": _NQ,
            "level": ("TLC checks graph-management and delete-before-insert laws on SparqlUpdate.tla; 70 request shapes x 70 datasets x Dataset / ConjunctiveGraph / Graph x union switch are applied through rdflib and the resulting quads are validated by TLC "
                      "against the prescribed dataset up to the identity of freshly minted blank nodes.")},
    "C11": {"engine": "sparql", "technique": _TQ, "note": _NQ,
            "level": ("TLC checks path laws and fixed-point = walk closure on all 26 depth-1 paths x 172 graphs; those 4472 cases, all 9 nested-modifier forms and a sample (all in thorough) of 1272 depth-2 paths over 7 named graph families are evaluated "
                      "through Graph.triples / subjects / objects and SPARQL with 12 bindings of the ends (incl. absent and falsy terms) and validated by TLC as relations (plus duplicate-freeness for closures).")},
    "C15": {"engine": "sparql", "technique": _TQ, "note": _NQ,
            "level": ("Each pool query and 5 kinds of rewrites, initBindings vs trailing VALUES, prepared-query histories (re-runs after mutation, on other graphs, interleaved consumption of two result iterators) and four store back ends are validated by TLC "
                      "against one stateless semantics: any dependence on spelling, preparation state or store shows as a rejected run.")},
})
ENGINES += [{"name": "sparql", "path": "spec/Sparql.tla spec/SparqlPaths.tla spec/SparqlUpdate.tla spec/TraceQuery.tla spec/TraceUpdate.tla spec/MCSparql*.tla harness/rvf/sparql_replay.py harness/rvf/update_replay.py harness/rvf/qgen.py",
             "serves_properties": ["C04", "C08", "C10", "C11", "C15"], "kind_free_text": "W3C SPARQL semantics transcribed to TLA+; TLC as the evaluator judging rdflib's answers"}]
_TD = "TLA+ definition of RDF graph / dataset isomorphism (GraphIso.tla, brute-force bijection search, laws checked by TLC) + TLC validation of every recorded round trip / parse / comparison (trace specs TraceDocs, TraceIso); known findings as witness classes"
_ND = _NOTE_COMMON + " Strings are covered per character class (20 classes, 1-2 representatives each), not per code point. The structured input space (term classes, list shapes) is enumerated in Python; blank-node topologies are exported by TLC."
CHECKS.update({
    "C03": {"engine": "documents", "technique": _TD, "note": _ND,
            "level": ("~600 graph shapes (literal class-strings x 4 flavours, typed literals, IRIs stressing prefix splitting, all blank-node digraphs on <= 3 nodes with / without entry, 19 rdf:List shapes incl. malformed and cyclic) x 8 syntaxes x options are serialised and "
                      "re-parsed under a watchdog; TLC validates isomorphism with literal identity (HexTuples may identify plain and xsd:string), termination and XML / JSON well-formedness.")},
    "C06": {"engine": "documents", "technique": _TD, "note": _ND,
            "level": ("Every distribution of 4 triples over default / two IRI-named / one bnode-named graph (625) plus shared-triple, shared-bnode, name-as-node and hostile-literal datasets x 6 quad formats; RDF Patch diffs for all ordered pairs of a sample incl. the empty dataset; "
                      "TLC validates dataset isomorphism with one bijection across all graphs and graph names / equality with the patch target.")},
    "C12": {"engine": "documents", "technique": _TD, "note": _ND,
            "level": ("Sequences of 1-3 parse calls (5 + 3 abstract documents x 9 syntaxes) into Graph / Dataset (union on, off) / ConjunctiveGraph with and without pre-existing content (incl. blank nodes whose ids equal document labels); after each call TLC checks that "
                      "no quad disappeared and that the sink equals the old content plus the document with its labels mapped one-to-one onto blank nodes that did not exist before.")},
    "C14": {"engine": "documents", "technique": _TD, "note": _NOTE_COMMON + " Oracle is an n! bijection search: graphs are limited to 6 blank nodes; ten named graphs of 8-12 blank nodes are judged for relabelled copies only, through the renaming the harness used (the spec checks the witness). One known finding (a cubic graph on 10 blank nodes) is identified by its edge structure.",
            "level": ("TLC checks that Iso is reflexive, relabelling-invariant and edge-sensitive on all 255 graphs with <= 4 edges on 3 blank nodes; those graphs, 4-node graphs and 20 hard families (cycles, 2*C3 vs C6, K2,2, K3,3, prism, two-coloured C6 ...) are compared through isomorphic(), "
                      "to_isomorphic ==, to_canonical_graph, graph_diff, skolemise/de-skolemise (default and caller-given authorities, into caller-supplied graphs, blank node ids with IRI delimiters), equality histories of one IsomorphicGraph, read-only aggregates as input, and digest partitions; "
                      "every answer is validated by TLC against the brute-force definition (or, beyond 6 blank nodes, against the renaming witness).")},
})
ENGINES += [{"name": "documents", "path": "spec/GraphIso.tla spec/TraceDocs.tla spec/TraceIso.tla spec/MCGraphIso.tla harness/rvf/doc_replay.py harness/rvf/iso_replay.py harness/rvf/shapes.py harness/rvf/docwriters.py harness/rvf/classes.py",
             "serves_properties": ["C03", "C06", "C12", "C14"], "kind_free_text": "graph isomorphism in TLA+ as the oracle for round trips, parses and rdflib.compare"}]
_TT = "TLA+ laws over abstract term records (TraceTerms.tla / TraceResults.tla) + TLC validation of every observation recorded from rdflib (one event per law instance), known findings as witness classes"
CHECKS.update({
    "C07": {"engine": "terms", "technique": _TT, "note": _NOTE_COMMON + " The abstract identity of a term (kind, lexical form, datatype, lower-cased language) is computed by the spec from the constructor arguments, not read back from rdflib.",
            "level": ("All ordered pairs (a third of them per seed in quick) of a ~120-term pool (IRIs, blank nodes, variables, plain / language / typed literals incl. non-canonical, ill-typed, NaN, unknown datatypes, character-class strings) are compared with ==, !=, hash, "
                      "set / dict collapse, < and >; sampled triples for transitivity; sorted() of random sublists twice and shuffled; each term goes through pickle protocols 0-5, copy, deepcopy, from_n3, a Turtle document and a SPARQL VALUES clause; TLC validates equality-iff-same-identity, "
                      "hash agreement, symmetry / negation, strict order laws on constrained pairs, sort reproducibility and identity preservation of every route.")},
    "C16": {"engine": "terms", "technique": _TT, "note": _NOTE_COMMON + " Third-party documents are covered by independent randomised writers for TSV, JSON and XML (key / attribute order, white space, escapes and character references, CDATA, namespace prefix, legacy typed-literal), not by a grammar-exhaustive enumeration.",
            "level": ("Result tables (0-3 variables, 0-4 rows, unbound cells, rows entirely unbound, never-bound variables, duplicate rows, cells over every term kind and 13 character classes, ASK true / false) are written by rdflib as JSON and XML and read back, rendered as CSV, "
                      "and read from TSV, JSON and XML documents produced by independent randomised writers; TLC validates variable list, row sequence, term identity per cell up to one blank-node bijection (CSV judged by its lossy mapping), unbound != empty string, and boolean results.")},
})
ENGINES += [{"name": "terms", "path": "spec/TraceTerms.tla spec/TraceResults.tla harness/rvf/terms_replay.py harness/rvf/results_replay.py", "serves_properties": ["C07", "C16"], "kind_free_text": "term identity laws and result-table equality in TLA+; TLC validates rdflib observations"}]
CHECKS["C09"] = {"engine": "xsd", "technique": "TLA+ transcription of the XSD lexical spaces at character level (XsdLexical.tla: validity, facets, canonical forms; laws checked by TLC over every string of length <= 5 of a 6-letter alphabet) + TLC validation of every observation recorded from rdflib (TraceXsd.tla), known findings as witness classes",
    "note": _NOTE_COMMON + " Values are compared through canonical digit strings (integer family, decimal, boolean) and field records (date / time / dateTime); float / double values are judged for lexical validity, round trip and idempotence only (binary rounding is not modelled).",
    "level": ("~20 000 lexical forms assembled from pieces for 24 datatypes (13 integer types at every facet boundary, boolean, decimal, double, float, date, time, dateTime, 3 duration types, hexBinary) incl. near-misses that Python converts and XSD forbids, "
              "~1 500 Python values (ints, floats from random bit patterns, Decimals with exponents +-40, dates / times / datetimes with offsets, timedeltas, Durations) and eq() over all pairs of a 61-literal pool; TLC validates ill_typed against Valid(dt, lex), "
              "the value against Canon / fields, validity and same value of the normalised form, idempotence, documented datatype and round trip of Python values, and eq against term equality, Python equality and XSD equality.")}
ENGINES += [{"name": "xsd", "path": "spec/XsdLexical.tla spec/MCXsdLexical.tla spec/TraceXsd.tla harness/rvf/xsd_replay.py", "serves_properties": ["C09"], "kind_free_text": "XSD lexical spaces in TLA+ as the oracle for Literal construction"}]
CHECKS["C05"] = {"engine": "spelling", "technique": "TLA+ writer machine for the Turtle family (TurtleSpelling.tla: token-by-token author choices with the meaning G of the document maintained by the grammar's semantic actions; invariants model-checked; behaviours exported by TLC in simulation mode) + strict N-Triples / N-Quads recogniser-decoder in TLA+ (NTriplesGrammar.tla) + TLC validation of what rdflib parsed / wrote (TraceSpell.tla)",
    "note": _NOTE_COMMON + " White space, comments, escape style, keyword case and the concrete strings are seeded choices of the Python renderer, not enumerated by TLC. RDF/XML (RdfXmlSpelling.tla) and JSON-LD (JsonLdSpelling.tla) have writer machines of their own, explored by simulation only (branching factors near 1000), plus 37 hand-enumerated documents for what the machines do not spell. Blank nodes per document are capped at 6 (n! oracle).",
    "level": ("~500 (thorough: thousands of) behaviours of the writer machine per syntax (N-Triples, N-Quads, Turtle, TriG: directives re-bound midway, absolute / base-relative / prefixed IRIs legal in the environment in force, 'a', four quotings, shorthand literals, ';' ',' [] () nesting, TriG blocks, N-Quads labels), "
              "each rendered twice with random layout and escapes over hostile strings and local names, parsed through 7 routes (str, bytes, BytesIO, StringIO, path, pathlib.Path, open file) and validated by TLC against the machine's G up to blank-node bijection; 16 RDF/XML and 12 JSON-LD spellings of fixed graphs likewise; "
              "rdflib's N-Triples / N-Quads output for ~300 C03 shapes decoded line by line by the strict TLA+ grammar and compared with the source; XML / JSON outputs read by expat / json.")}
ENGINES += [{"name": "spelling", "path": "spec/TurtleSpelling.tla spec/TurtleSpellingTargets.tla spec/RdfXmlSpelling.tla spec/JsonLdSpelling.tla spec/NTriplesGrammar.tla spec/TraceSpell.tla harness/rvf/spell_replay.py harness/rvf/xml_spell.py harness/rvf/jsonld_spell.py harness/rvf/spell_docs.py", "serves_properties": ["C05"], "kind_free_text": "writer state machine + strict grammar in TLA+; rdflib parses what the machine writes"}]
CHECKS["C20"] = {"engine": "sparqlstore", "technique": "TLA+ state machine of endpoint + pending-update queue (SparqlStore.tla: one action per store call, autocommit / dirty-read switches, ghost local dataset; invariants and action properties model-checked, reversed-commit variant refuted) + TLC-exported histories replayed on SPARQLUpdateStore against a loopback endpoint + TLC trace validation (TraceSparqlStore.tla)",
    "note": _NOTE_COMMON + " The endpoint is rdflib's own engine behind an in-process SPARQL Protocol shim (urlopen patched in sparqlconnector), with a default graph that is not named urn:x-rdflib:default; no third-party endpoint, no real sockets. Blank nodes are not sent (unsupported by design).",
    "level": ("TLC checks Inv_Mirror (endpoint + queue = local dataset), visibility only at commit / flushing read / autocommit write, rollback discards exactly the queue, reads see all writes unless dirty, for the three switch settings (57 260 states each), and refutes a reversed-order commit; "
              "a 1/60 sample (thorough: a third) of the ~180 000 length-3 histories per setting exported by TLC plus seeded histories of 6-30 calls over 3 graphs are run through Graph facades on SPARQLUpdateStore (GET / POST / POST_FORM x XML / JSON x 6 object vocabularies); "
              "after every call TLC validates the endpoint's quads (read directly) against the state machine and every read result (triples with all pattern shapes, len, contains, contexts, SELECT / ASK) against the endpoint.")}
ENGINES += [{"name": "sparqlstore", "path": "spec/SparqlStore.tla spec/MCSparqlStore.tla spec/TraceSparqlStore.tla harness/rvf/sparqlstore_replay.py", "serves_properties": ["C20"], "kind_free_text": "endpoint + queue state machine in TLA+; loopback endpoint; trace validation"}]
NOT_BUILT: dict = {}
