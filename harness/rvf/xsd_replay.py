"""Literal <-> Python value mapping (C09): observations recorded for TraceXsd.tla."""
from __future__ import annotations

import logging
import math
import warnings
from datetime import date, datetime, time, timedelta, timezone
from decimal import Decimal

from rdflib import Literal, URIRef
from rdflib.xsd_datetime import Duration

warnings.simplefilter("ignore")
logging.getLogger("rdflib").setLevel(logging.CRITICAL)
logging.getLogger("rdflib.term").setLevel(logging.CRITICAL)

XSD = "http://www.w3.org/2001/XMLSchema#"
INT_FAMILY = {"integer", "byte", "short", "int", "long", "unsignedByte", "unsignedShort", "unsignedInt", "unsignedLong",
              "positiveInteger", "nonNegativeInteger", "negativeInteger", "nonPositiveInteger"}


def chars(s):
    return list(s)


def dec_canon(d: Decimal) -> str:
    """canonical xsd:decimal text of a finite Decimal, built from its digit tuple (independent of rdflib and of format())"""
    sign, digits, exp = d.as_tuple()
    ds = "".join(str(x) for x in digits) or "0"
    if exp >= 0:
        ip, fp = ds + "0" * exp, ""
    else:
        ds = ds.rjust(-exp + 1, "0")
        ip, fp = ds[:exp], ds[exp:]
    ip = ip.lstrip("0") or "0"
    fp = fp.rstrip("0")
    mag = ip + ("." + fp if fp else "")
    return ("-" if sign and mag != "0" else "") + mag


def canon_py(v, dt):
    if dt in INT_FAMILY:
        return str(v) if type(v) is int else "?" + type(v).__name__
    if dt == "boolean":
        return {True: "true", False: "false"}.get(v, "?") if type(v) is bool else "?" + type(v).__name__
    if dt == "decimal":
        return dec_canon(v) if isinstance(v, Decimal) and v.is_finite() else "?" + repr(v)
    if dt in ("token", "normalizedString"):
        return str(v) if isinstance(v, str) else "?" + type(v).__name__
    return ""


def tzmin(tz, ref):
    if tz is None:
        return 9999
    off = tz.utcoffset(ref)
    secs = off.days * 86400 + off.seconds
    return secs // 60 if secs % 60 == 0 else 7777


def fields_py(v):
    f = {"y": 0, "mo": 0, "d": 0, "h": 0, "mi": 0, "s": 0, "us": 0, "tz": 9999, "kind": type(v).__name__}
    if isinstance(v, datetime):
        f.update(y=v.year, mo=v.month, d=v.day, h=v.hour, mi=v.minute, s=v.second, us=v.microsecond, tz=tzmin(v.tzinfo, v))
    elif isinstance(v, date):
        f.update(y=v.year, mo=v.month, d=v.day)
    elif isinstance(v, time):
        f.update(h=v.hour, mi=v.minute, s=v.second, us=v.microsecond, tz=tzmin(v.tzinfo, None))
    return f


def dur_py(v):
    """[neg, months, secs, micros] of a timedelta / Duration, absolute amounts; ok = representable that way (one sign, small)"""
    out = {"ok": False, "neg": False, "months": 0, "secs": 0, "micros": 0}
    months, td = 0, None
    if isinstance(v, Duration):
        months = int(v.years) * 12 + int(v.months)
        if v.years != int(v.years) or v.months != int(v.months):
            return out
        td = v.tdelta
    elif isinstance(v, timedelta):
        td = v
    else:
        return out
    us = (td.days * 86400 + td.seconds) * 1000000 + td.microseconds
    if (months < 0 and us > 0) or (months > 0 and us < 0):
        return out
    neg = months < 0 or us < 0
    months, us = abs(months), abs(us)
    if months > 10 ** 6 or us // 1000000 > 2 * 10 ** 9:
        return out
    return {"ok": True, "neg": neg, "months": months, "secs": us // 1000000, "micros": us % 1000000}


def same_value(a, b):
    if a is None or b is None:
        return a is b
    if isinstance(a, float) and isinstance(b, float):
        if math.isnan(a) or math.isnan(b):
            return math.isnan(a) and math.isnan(b)
        return a == b and math.copysign(1, a) == math.copysign(1, b)
    if isinstance(a, Decimal) and isinstance(b, Decimal) and (a.is_nan() or b.is_nan()):
        return a.is_nan() and b.is_nan()
    try:
        if type(a) is not type(b) and not (isinstance(a, (timedelta, Duration)) and isinstance(b, (timedelta, Duration))):
            return False
        if isinstance(a, (datetime, time)) and (a.tzinfo is None) != (b.tzinfo is None):
            return False
        if isinstance(a, (datetime, time)) and a.tzinfo is not None:
            return a == b and a.utcoffset() == b.utcoffset()
        return a == b
    except Exception:
        return False


def dts(dt):
    if dt is None:
        return ""
    s = str(dt)
    return s[len(XSD):] if s.startswith(XSD) else s


def mk(spec):
    """build the Python value a job describes"""
    ty, a = spec["ty"], spec["args"]
    if ty == "int":
        return int(a)
    if ty == "float":
        return float.fromhex(a) if a not in ("inf", "-inf", "nan") else float(a)
    if ty == "Decimal":
        return Decimal(a)
    if ty == "bool":
        return bool(a)
    if ty == "str":
        return a
    tz = lambda m: None if m == 9999 else timezone(timedelta(minutes=m))
    if ty == "date":
        return date(*a)
    if ty == "time":
        return time(a[0], a[1], a[2], a[3], tzinfo=tz(a[4]))
    if ty == "datetime":
        return datetime(a[0], a[1], a[2], a[3], a[4], a[5], a[6], tzinfo=tz(a[7]))
    if ty == "timedelta":
        return timedelta(days=a[0], seconds=a[1], microseconds=a[2])
    if ty == "Duration":
        return Duration(years=a[0], months=a[1], days=a[2], seconds=a[3], microseconds=a[4])
    if ty in ("bytes_hex", "bytes_b64"):
        return bytes.fromhex(a)
    raise ValueError(ty)


def rebind_history(events):
    """a history before the observations: the datatypes of the job are bound to an application type (rdflib.term.bind, the documented way to
    plug in a Python type), literals with the job's lexical forms are made while that binding is in force, and the documented bindings are
    put back.  What a lexical form denotes afterwards is a function of (datatype, form) alone."""
    from rdflib.term import _reset_bindings, bind

    class Other(str):
        pass

    seen = set()
    for e in events:
        if e["op"] == "lex":
            dt = URIRef(XSD + e["dt"])
            if dt not in seen:
                seen.add(dt)
                bind(dt, Other, constructor=Other, lexicalizer=str, datatype_specific=True)
    try:
        for e in events:
            if e["op"] == "lex":
                for nm in (True, False):
                    try:
                        Literal(e["lex"], datatype=URIRef(XSD + e["dt"]), normalize=nm).value
                    except Exception:     # noqa: BLE001
                        pass
    finally:
        _reset_bindings()


def replay(cfg, events):
    evs = []
    if cfg.get("history") == "rebind":
        rebind_history(events)
    for e in events:
        e = dict(e)
        op = e["op"]
        try:
            if op == "lex":
                dt = URIRef(XSD + e["dt"])
                lex = e["lex"]
                l = Literal(lex, datatype=dt)
                l0 = Literal(lex, datatype=dt, normalize=False)
                out = str(l)
                l2 = Literal(out, datatype=dt)
                v0 = l0.value
                try:
                    ln = l0.normalize()          # the method, next to the normalising constructor
                    e["out_m"], e["ill_m"] = chars(str(ln)), bool(ln.ill_typed)
                except Exception as ex_:     # noqa: BLE001
                    e["out_m"], e["ill_m"] = chars("<raise:%s>" % type(ex_).__name__), True
                e.update(lex=chars(lex), text=lex, ill=bool(l.ill_typed), hasval=v0 is not None, canon=chars(canon_py(v0, e["dt"])) if v0 is not None else [],
                         fields=fields_py(v0), dur=dur_py(v0), out=chars(out), out2=chars(str(l2)), ill_out=bool(l2.ill_typed), same=same_value(v0, l2.value),
                         value=repr(v0)[:80])
            elif op == "py":
                v = mk(e)
                ty = e["ty"]
                if ty == "bytes_hex":
                    l = Literal(v, datatype=URIRef(XSD + "hexBinary"))
                elif ty == "bytes_b64":
                    l = Literal(v, datatype=URIRef(XSD + "base64Binary"))
                else:
                    l = Literal(v)
                back = l.toPython()
                l3 = Literal(str(l), datatype=l.datatype) if l.datatype is not None else l
                back2 = l3.toPython()        # the value the lexical form denotes, parsed afresh
                ok = (same_value(v, back) and same_value(v, back2)) if ty not in ("bool", "int") else (type(back) is type(v) and back == v and type(back2) is type(v) and back2 == v)
                if ty in ("bytes_hex", "bytes_b64"):
                    ok = isinstance(back, bytes) and back == v
                if ty == "str":
                    ok = type(back) is str and back == v and str(l) == v
                e.update(dt=dts(l.datatype), lex=chars(str(l)), text=str(l), back=bool(ok), ill=bool(l3.ill_typed), canon=chars(canon_py(v, dts(l.datatype))),
                         fields=fields_py(v), dur=dur_py(v), args=repr(e["args"])[:80])
            elif op == "eq" and e.get("fam") == "xmleq":
                # two spellings of XML fragments whose trees the generator knows: the value of an rdf:XMLLiteral is the tree
                RDFNS = "http://www.w3.org/1999/02/22-rdf-syntax-ns#"
                la = Literal(e["a"]["lex"], datatype=URIRef(RDFNS + e["a"]["dt"]))
                lb = Literal(e["b"]["lex"], datatype=URIRef(RDFNS + e["b"]["dt"]))
                term_eq = la == lb
                e["a"] = {"lex": chars(e["a"]["lex"]), "dt": e["a"]["dt"], "text": e["a"]["lex"]}
                e["b"] = {"lex": chars(e["b"]["lex"]), "dt": e["b"]["dt"], "text": e["b"]["lex"]}
                e.update(term_eq=bool(term_eq), comparable=not la.ill_typed and not lb.ill_typed and la.value is not None and lb.value is not None,
                         nan=False, py_eq=bool(e.pop("same")))
                r, r2 = la.eq(lb), lb.eq(la)
                e.update(eq=bool(r), eq_rev=bool(r2), neq=bool(la.neq(lb)))
            elif op == "eq":
                la = Literal(e["a"]["lex"], datatype=URIRef(XSD + e["a"]["dt"]), normalize=False)
                lb = Literal(e["b"]["lex"], datatype=URIRef(XSD + e["b"]["dt"]), normalize=False)
                va, vb = la.value, lb.value
                numeric = lambda d: d in INT_FAMILY or d in ("decimal", "double", "float")
                comparable = va is not None and vb is not None and not la.ill_typed and not lb.ill_typed and (
                    (numeric(e["a"]["dt"]) and numeric(e["b"]["dt"])) or e["a"]["dt"] == e["b"]["dt"])
                term_eq = la == lb
                e["a"] = {"lex": chars(e["a"]["lex"]), "dt": e["a"]["dt"], "text": e["a"]["lex"]}
                e["b"] = {"lex": chars(e["b"]["lex"]), "dt": e["b"]["dt"], "text": e["b"]["lex"]}
                isnan = lambda v: (isinstance(v, float) and math.isnan(v)) or (isinstance(v, Decimal) and v.is_nan())
                e.update(term_eq=bool(term_eq), comparable=bool(comparable), nan=bool(isnan(va) or isnan(vb)))
                try:
                    py_eq = bool(va == vb) if comparable else False
                except Exception:
                    py_eq, e["comparable"] = False, False
                e["py_eq"] = py_eq
                try:
                    r = la.eq(lb)
                    r2 = lb.eq(la)
                    e.update(eq=bool(r), eq_rev=bool(r2), neq=bool(la.neq(lb)))
                except TypeError as ex:
                    if comparable or term_eq:
                        e["raise"] = repr(ex)[:100]
                    else:      # rdflib declines to compare values it does not know: nothing to judge
                        e.update(eq=False, eq_rev=False, neq=True, comparable=False)
            else:
                raise ValueError(op)
        except Exception as ex:     # noqa: BLE001
            e["raise"] = type(ex).__name__ + ": " + str(ex)[:100]
            for f in ("lex",):
                if isinstance(e.get(f), str):
                    e["text"] = e[f]
                    e[f] = chars(e[f])
        evs.append(e)
    return {"cfg": cfg, "ev": evs}
