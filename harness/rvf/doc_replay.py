"""Round trips, patches and parses (C03 C06 C12) recorded for TraceDocs.tla."""
from __future__ import annotations

import io
import json
import signal
import warnings
import xml.sax

from rdflib import BNode, Dataset, Graph, Literal, URIRef
from rdflib.graph import ConjunctiveGraph, DATASET_DEFAULT_GRAPH_ID

warnings.simplefilter("ignore")
PARSE_AS = {"longturtle": "turtle", "pretty-xml": "xml"}
XML_FORMATS = {"xml", "pretty-xml", "trix"}
JSON_FORMATS = {"json-ld", "hext"}


class _Timeout(Exception):
    pass


def _alarm(signum, frame):
    raise _Timeout()


def guarded(fn, secs=30):
    signal.signal(signal.SIGVTALRM, _alarm)
    signal.setitimer(signal.ITIMER_VIRTUAL, secs)
    try:
        return fn()
    finally:
        signal.setitimer(signal.ITIMER_VIRTUAL, 0)


def conc(t, bmap):
    k = t["k"]
    if k == "iri":
        return URIRef(t["v"])
    if k == "bnode":
        if t["v"] not in bmap:
            bmap[t["v"]] = BNode(t["v"]) if t.get("keep") else BNode()
        return bmap[t["v"]]
    if k == "lit":
        if t.get("lang"):
            return Literal(t["v"], lang=t["lang"])
        if t.get("dt"):
            return Literal(t["v"], datatype=URIRef(t["dt"]))
        return Literal(t["v"])
    raise ValueError(t)


def abst(x, names=None):
    if isinstance(x, URIRef):
        return {"k": "iri", "v": str(x)}
    if isinstance(x, BNode):
        return {"k": "bnode", "v": (names or {}).get(x, str(x))}
    if isinstance(x, Literal):
        return {"k": "lit", "v": str(x), "dt": str(x.datatype) if x.datatype is not None else "", "lang": (x.language or "").lower()}
    return {"k": "other", "v": repr(x)}


def gterm(ident, default_ids):
    if ident is None or ident in default_ids:
        return {"k": "default"}
    return abst(ident)


def canon_in(triples):
    """the abstract input as the spec sees it (literals normalised to the record shape of abst)"""
    out = []
    for t in triples:
        out.append([dict({"k": "lit", "v": x["v"], "dt": x.get("dt", ""), "lang": (x.get("lang") or "").lower()}) if x["k"] == "lit" else {"k": x["k"], "v": x["v"]} if x["k"] in ("iri", "bnode") else x for x in t])
    return out


def _no_constant(x):
    raise ValueError("%s is not a JSON token (RFC 8259)" % x)


def wellformed(fmt, data):
    try:
        if fmt in XML_FORMATS:
            xml.sax.parseString(data.encode("utf-8") if isinstance(data, str) else data, xml.sax.ContentHandler())
        elif fmt in JSON_FORMATS and fmt != "hext":
            json.loads(data, parse_constant=_no_constant)
        elif fmt == "hext":
            for line in (data.decode("utf-8") if isinstance(data, bytes) else data).splitlines():
                if line.strip():
                    json.loads(line, parse_constant=_no_constant)
        return True
    except Exception:  # noqa: BLE001
        return False


def do_roundtrip(e):
    fmt = e["fmt"]
    bmap = {}
    g = Graph()
    for p, ns in e.get("prefixes", []):
        g.bind(p, URIRef(ns))
    for t in e["before"]:
        g.add(tuple(conc(x, bmap) for x in t))
    # literals are built with rdflib's default, normalising constructor: the graph is what rdflib itself would hold
    e["before"] = [[abst(x) for x in t] for t in g]
    kw = {}
    if e.get("base"):
        kw["base"] = e["base"]
    kw.update(e.get("ser_kw", {}))          # serializer options (json-ld context, longturtle canon ...)
    if fmt == "json-ld" and ("context" in kw or kw.get("auto_compact")):
        e["str_eq"] = True
    try:
        data = guarded(lambda: g.serialize(format=fmt, **kw))
    except _Timeout:
        e["res"] = "timeout"
        return
    except Exception as ex:  # noqa: BLE001
        e["res"] = "serialize_raised"
        e["msg"] = type(ex).__name__ + ": " + str(ex)[:120]
        return
    if fmt in XML_FORMATS or fmt in JSON_FORMATS:
        e["wellformed"] = wellformed(fmt, data)
    h = Graph()
    try:
        if isinstance(data, bytes) and "encoding" in kw:
            # bytes in the encoding that was asked for: read like a file in that encoding would be (XML declares its own)
            import io as _io
            src = _io.BytesIO(data) if fmt in XML_FORMATS else _io.StringIO(data.decode("utf-8"))
            guarded(lambda: h.parse(source=src, format=PARSE_AS.get(fmt, fmt), **({"publicID": e["base"]} if e.get("base") else {})))
        else:
            guarded(lambda: h.parse(data=data, format=PARSE_AS.get(fmt, fmt), **({"publicID": e["base"]} if e.get("base") else {})))
    except _Timeout:
        e["res"] = "timeout"
        return
    except Exception as ex:  # noqa: BLE001
        e["res"] = "parse_raised"
        e["msg"] = type(ex).__name__ + ": " + str(ex)[:120]
        e["text"] = data[:400] if isinstance(data, str) else repr(data[:400])
        return
    e["res"] = "ok"
    e["after"] = [[abst(x) for x in t] for t in h]
    if len(data) < 600:
        e["text"] = data if isinstance(data, str) else repr(data)


def ds_quads(ds):
    default_ids = {DATASET_DEFAULT_GRAPH_ID, ds.default_graph.identifier}
    out = []
    for s, p, o, c in ds.quads():
        ident = c.identifier if isinstance(c, Graph) else c
        out.append([abst(s), abst(p), abst(o), gterm(ident, default_ids)])
    return out


def build_ds(quads, bmap, default_union=False):
    ds = Dataset(default_union=default_union)
    for q in quads:
        t = tuple(conc(x, bmap) for x in q[:3])
        if q[3]["k"] == "default":
            ds.add(t)
        else:
            ds.add(t + (conc(q[3], bmap),))
    return ds


def do_roundtrip_ds(e):
    fmt = e["fmt"]
    bmap = {}
    ds = build_ds(e["before"], bmap, e.get("default_union", False))
    for p, ns in e.get("prefixes", []):
        ds.bind(p, URIRef(ns))
    e["before"] = ds_quads(ds)
    kw = {"operation": "add"} if fmt == "patch" else {}
    try:
        data = guarded(lambda: ds.serialize(format=fmt, **kw))
    except _Timeout:
        e["res"] = "timeout"
        return
    except Exception as ex:  # noqa: BLE001
        e["res"] = "serialize_raised"
        e["msg"] = type(ex).__name__ + ": " + str(ex)[:120]
        return
    if fmt in XML_FORMATS or fmt in JSON_FORMATS:
        e["wellformed"] = wellformed(fmt, data)
    d2 = Dataset()
    try:
        guarded(lambda: d2.parse(data=data, format=fmt))
    except _Timeout:
        e["res"] = "timeout"
        return
    except Exception as ex:  # noqa: BLE001
        e["res"] = "parse_raised"
        e["msg"] = type(ex).__name__ + ": " + str(ex)[:120]
        e["text"] = data[:400] if isinstance(data, str) else repr(data[:400])
        return
    e["res"] = "ok"
    e["after"] = ds_quads(d2)
    if len(data) < 600:
        e["text"] = data


def do_patch(e):
    bmap = {}
    # RDF Patch names blank nodes by label: the two datasets share labels where the abstract input does
    for q in e["d1"] + e["d2"]:
        for x in q:
            if x["k"] == "bnode":
                x["keep"] = True
    d1 = build_ds(e["d1"], bmap)
    d2 = build_ds(e["d2"], bmap)
    e["d1"], e["d2"] = ds_quads(d1), ds_quads(d2)
    try:
        data = guarded(lambda: d1.serialize(format="patch", target=d2))
        d1c = build_ds([q for q in e["d1"]], {k: v for k, v in bmap.items()})
        # re-create d1 with the same nodes
        d1c = Dataset()
        for s, p, o, c in d1.quads():
            ident = c.identifier if isinstance(c, Graph) else c
            if ident is None or ident == DATASET_DEFAULT_GRAPH_ID:
                d1c.add((s, p, o))
            else:
                d1c.add((s, p, o, ident))
        guarded(lambda: d1c.parse(data=data, format="patch"))
        e["res"] = "ok"
        e["after"] = ds_quads(d1c)
        e["text"] = data[:600]
    except _Timeout:
        e["res"] = "timeout"
    except Exception as ex:  # noqa: BLE001
        e["res"] = "serialize_raised"
        e["msg"] = type(ex).__name__ + ": " + str(ex)[:120]


def replay(cfg, events):
    evs = []
    # C12: a sequence of parse events into ONE sink
    sink = None
    for e in events:
        e = dict(e)
        op = e["op"]
        if op == "roundtrip":
            do_roundtrip(e)
        elif op == "roundtrip_ds":
            do_roundtrip_ds(e)
        elif op == "patch":
            do_patch(e)
        elif op == "sink":
            kind = e["kind"]
            if kind == "graph":
                sink = Graph()
            elif kind == "cg":
                sink = ConjunctiveGraph()
            else:
                sink = Dataset(default_union=(kind == "dataset_union"))
            bmap = {}
            for q in e.get("content", []):
                for x in q:
                    if x["k"] == "bnode":
                        x["keep"] = True
                t = tuple(conc(x, bmap) for x in q[:3])
                if isinstance(sink, Dataset) or isinstance(sink, ConjunctiveGraph):
                    if q[3]["k"] == "default":
                        sink.add(t)
                    else:
                        sink.add(t + (conc(q[3], bmap),))
                else:
                    sink.add(t)
            continue
        elif op == "parse":
            def snap():
                if isinstance(sink, Dataset):
                    return ds_quads(sink)
                if isinstance(sink, ConjunctiveGraph):
                    did = sink.default_context.identifier
                    return [[abst(s), abst(p), abst(o), gterm(c.identifier, {did})] for s, p, o, c in sink.quads()]
                return [[abst(s), abst(p), abst(o), {"k": "default"}] for s, p, o in sink]
            e["before"] = snap()
            try:
                target = sink
                if e.get("into"):
                    # parse through a named-graph view of the dataset
                    name = URIRef(e["into"])
                    target = sink.graph(name) if isinstance(sink, Dataset) else sink.get_context(name)
                how = e.get("how", "data")
                if e.get("reseed"):
                    # an application that seeds the global generator between two loads (a test harness, a "reproducible" pipeline)
                    import random as _random
                    _random.seed(e["reseed"])
                if how == "data":
                    guarded(lambda: target.parse(data=e["text"], format=e["fmt"]))
                elif how == "publicID":
                    # two documents loaded under the same public id (a file reloaded, a newer version of it)
                    guarded(lambda: target.parse(data=e["text"], format=e["fmt"], publicID="http://ex.example/doc"))
                elif how == "sparql_load":
                    # the SPARQL Update operation LOAD, every document into the graph of its own name (a second load is a refresh of that graph)
                    import os as _os
                    d_ = "/tmp/rvf-load-%d" % _os.getpid()
                    _os.makedirs(d_, exist_ok=True)
                    path = _os.path.join(d_, e["docname"].replace("/", "_") + "." + {"nt": "nt", "turtle": "ttl", "xml": "rdf"}[e["fmt"]])
                    with open(path, "wb") as f_:
                        f_.write(e["text"].encode("utf-8"))
                    iri = "file://" + path
                    try:
                        if isinstance(sink, (Dataset, ConjunctiveGraph)):
                            e["into"] = iri
                            e["doc"] = [list(q[:3]) + [{"k": "iri", "v": iri}] for q in e["doc"]]      # (what the document means there: all of it in that graph)
                            guarded(lambda: sink.update("LOAD <%s> INTO GRAPH <%s>" % (iri, iri)))
                        else:
                            guarded(lambda: sink.update("LOAD <%s>" % iri))
                    finally:
                        _os.remove(path)
                elif how in ("path", "file"):
                    import os as _os
                    import tempfile as _tempfile
                    d_ = _tempfile.mkdtemp(prefix="rvf-parse-", dir="/tmp")
                    try:
                        path = _os.path.join(d_, "doc." + {"nquads": "nq", "nt": "nt", "turtle": "ttl", "trig": "trig", "xml": "rdf", "trix": "trix", "json-ld": "jsonld", "hext": "hext", "n3": "n3"}.get(e["fmt"], "txt"))
                        with open(path, "wb") as f_:
                            f_.write(e["text"].encode("utf-8"))
                        if how == "path":
                            guarded(lambda: target.parse(path, format=e["fmt"]))
                        else:
                            with open(path, "rb") as f_:
                                guarded(lambda: target.parse(file=f_, format=e["fmt"], publicID="http://ex.example/doc"))
                    finally:
                        import shutil as _shutil
                        _shutil.rmtree(d_, ignore_errors=True)
                e["res"] = "ok"
            except _Timeout:
                e["res"] = "timeout"
            except Exception as ex:  # noqa: BLE001
                e["res"] = "raised"
                e["msg"] = type(ex).__name__ + ": " + str(ex)[:120]
            e["after"] = snap()
            if not (isinstance(sink, (Dataset, ConjunctiveGraph))):
                # a plain graph receives the triples of the document's default graph only... a quad syntax parsed into a Graph is not exercised
                pass
        else:
            raise ValueError(op)
        evs.append(e)
    return {"tid": 0, "cfg": {}, "ev": evs}
