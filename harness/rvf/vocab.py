"""Concretisation gamma / abstraction alpha between the spec's term names and rdflib terms.

Abstract terms are short strings.  A vocabulary maps each abstract name to one rdflib term; the
inverse map abstracts observations.  Terms minted by the implementation have no pre-image and are
named f1, f2, ... by first occurrence (the trace specs compare those up to a bijection).
"""
from __future__ import annotations

from rdflib import BNode, Literal, URIRef
from rdflib.namespace import XSD

DEFAULT_IDS = ("urn:x-rdflib:default",)


def _plain(name: str):
    k = name[0]
    if k == "b":
        return BNode("vb" + name)
    if k == "l":
        return Literal("lit-" + name)
    return URIRef("urn:x:" + name)


_FALSY = {
    "o1": Literal(""), "o2": Literal(0), "o3": Literal(False), "o4": Literal(0.0),
    "l1": Literal(""), "l2": Literal(0), "l3": Literal(False),
    "m1": Literal(""), "m2": Literal(0), "m3": Literal(False), "z": Literal(0.0),
}
_HOSTILE = {
    "o1": Literal('ends with quote"'), "o2": Literal("back\\slash\\"), "o3": Literal('tri"""ple\n\r\t'),
    "o4": Literal("\U0001F600 ￿ \x01"), "l1": Literal("x", lang="en"), "l2": Literal("x", lang="EN-us"),
    "l3": Literal("01", datatype=XSD.integer), "s1": URIRef("urn:x:a#frag"), "s2": URIRef("urn:x:a/b%20c"),
    "p1": URIRef("urn:x:p.q"), "p2": URIRef("http://x.example/p#"),
    "m1": Literal('q"'), "m2": Literal("\\"), "m3": Literal("\n"), "z": Literal("'"),
}
_TYPED = {
    "o1": Literal("1", datatype=XSD.integer), "o2": Literal("1.0", datatype=XSD.decimal),
    "o3": Literal("1", datatype=XSD.string), "o4": Literal("1"),
    "l1": Literal("true", datatype=XSD.boolean), "l2": Literal("2020-01-01", datatype=XSD.date),
    "l3": Literal("abc", datatype=URIRef("urn:x:dt")),
}
_BNODEY = {"s1": BNode("s1"), "s2": BNode("s2"), "s3": BNode(), "o1": BNode("o1"), "o2": Literal("x"), "o3": BNode()}

_RDF = "http://www.w3.org/1999/02/22-rdf-syntax-ns#"
# rdf:List vocabulary: s1, s2 are list cells, p1 / p2 = rdf:first / rdf:rest, p3 = rdf:type, o3 = rdf:List, o2 = rdf:nil
_LISTY = {"s1": BNode("cell1"), "s2": BNode("cell2"), "p1": URIRef(_RDF + "first"), "p2": URIRef(_RDF + "rest"), "p3": URIRef(_RDF + "type"),
          "o2": URIRef(_RDF + "nil"), "o3": URIRef(_RDF + "List")}
VOCABS = {"plain": {}, "falsy": _FALSY, "hostile": _HOSTILE, "typed": _TYPED, "bnodey": _BNODEY, "listy": _LISTY}


class Vocab:
    def __init__(self, name: str = "plain", graph_names: dict | None = None):
        self.name = name
        self.table = dict(VOCABS[name])
        self.inv: dict = {}
        self.fresh: dict = {}
        self.gnames = {"D": None}
        self.ginv = {URIRef(DEFAULT_IDS[0]): "D", None: "D"}
        for n, ident in (graph_names or {}).items():
            self.gnames[n] = ident
            self.ginv[ident] = n

    # --- terms
    def term(self, a: str):
        if a == "_":
            return None
        t = self.table.get(a)
        if t is None:
            t = self.table[a] = _plain(a)
        if t not in self.inv:
            self.inv[t] = a
        return t

    def triple(self, t):
        return (self.term(t[0]), self.term(t[1]), self.term(t[2]))

    def abs(self, t) -> str:
        if t is None:
            return "_"
        a = self.inv.get(t)
        if a is not None:
            # Literal("") == Literal(0)? no; but guard against eq-collisions of distinct terms
            return a
        f = self.fresh.get(t)
        if f is None:
            f = self.fresh[t] = "f%d" % (len(self.fresh) + 1)
        return f

    def abs_triple(self, t):
        return [self.abs(t[0]), self.abs(t[1]), self.abs(t[2])]

    # --- graph names
    def gid(self, n: str):
        """identifier for graph name n (None for the default graph)"""
        if n not in self.gnames:
            if n.startswith("b"):
                ident = BNode("vg" + n)
            else:
                ident = URIRef("urn:g:" + n)
            self.gnames[n] = ident
            self.ginv[ident] = n
        return self.gnames[n]

    def gabs(self, ident) -> str:
        from rdflib.graph import Graph
        if isinstance(ident, Graph):
            ident = ident.identifier
        n = self.ginv.get(ident)
        if n is None:
            n = self.ginv[ident] = "fg%d" % (len(self.ginv) + 1)
        return n
