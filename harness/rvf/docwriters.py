"""Canonical (one spelling per construct) writers for abstract documents in nine syntaxes (C12; C05 uses the randomised writer).
A document is a list of quads [s, p, o, g] of term records; g = {"k": "default"} or a graph name term."""
from __future__ import annotations

import json
from xml.sax.saxutils import escape, quoteattr

XSD_STRING = "http://www.w3.org/2001/XMLSchema#string"


def _esc(s):
    return s.replace("\\", "\\\\").replace('"', '\\"').replace("\n", "\\n").replace("\r", "\\r").replace("\t", "\\t")


def nt_term(t):
    k = t["k"]
    if k == "iri":
        return "<%s>" % t["v"]
    if k == "bnode":
        return "_:" + t["v"]
    s = '"%s"' % _esc(t["v"])
    if t.get("lang"):
        return s + "@" + t["lang"]
    if t.get("dt"):
        return s + "^^<%s>" % t["dt"]
    return s


def groups(doc):
    by = {}
    for q in doc:
        g = q[3]
        key = "default" if g["k"] == "default" else nt_term(g)
        by.setdefault(key, (g, []))[1].append(q)
    return by


def write(fmt, doc):
    if fmt in ("nt", "turtle", "n3"):
        return "".join("%s %s %s .\n" % tuple(nt_term(x) for x in q[:3]) for q in doc)
    if fmt == "nquads":
        return "".join("%s %s %s%s .\n" % (nt_term(q[0]), nt_term(q[1]), nt_term(q[2]), "" if q[3]["k"] == "default" else " " + nt_term(q[3])) for q in doc)
    if fmt == "trig":
        out = []
        for key, (g, qs) in groups(doc).items():
            body = " ".join("%s %s %s ." % tuple(nt_term(x) for x in q[:3]) for q in qs)
            out.append(("{ %s }\n" % body) if key == "default" else ("GRAPH %s { %s }\n" % (key, body)))
        return "".join(out)
    if fmt == "xml":
        out = ['<?xml version="1.0" encoding="utf-8"?>\n<rdf:RDF xmlns:rdf="http://www.w3.org/1999/02/22-rdf-syntax-ns#">\n']
        for s, p, o, g in doc:
            i = max(p["v"].rfind("#"), p["v"].rfind("/")) + 1
            ns, ln = p["v"][:i], p["v"][i:]
            sa = 'rdf:about=%s' % quoteattr(s["v"]) if s["k"] == "iri" else 'rdf:nodeID=%s' % quoteattr(s["v"])
            if o["k"] == "iri":
                pe = '<n:%s xmlns:n=%s rdf:resource=%s/>' % (ln, quoteattr(ns), quoteattr(o["v"]))
            elif o["k"] == "bnode":
                pe = '<n:%s xmlns:n=%s rdf:nodeID=%s/>' % (ln, quoteattr(ns), quoteattr(o["v"]))
            else:
                attr = (' xml:lang=%s' % quoteattr(o["lang"])) if o.get("lang") else ((' rdf:datatype=%s' % quoteattr(o["dt"])) if o.get("dt") else "")
                pe = '<n:%s xmlns:n=%s%s>%s</n:%s>' % (ln, quoteattr(ns), attr, escape(o["v"]), ln)
            out.append('<rdf:Description %s>%s</rdf:Description>\n' % (sa, pe))
        out.append('</rdf:RDF>\n')
        return "".join(out)
    if fmt == "trix":
        def el(t):
            if t["k"] == "iri":
                return "<uri>%s</uri>" % escape(t["v"])
            if t["k"] == "bnode":
                return "<id>%s</id>" % escape(t["v"])
            if t.get("lang"):
                return '<plainLiteral xml:lang=%s>%s</plainLiteral>' % (quoteattr(t["lang"]), escape(t["v"]))
            if t.get("dt"):
                return '<typedLiteral datatype=%s>%s</typedLiteral>' % (quoteattr(t["dt"]), escape(t["v"]))
            return "<plainLiteral>%s</plainLiteral>" % escape(t["v"])
        out = ['<?xml version="1.0" encoding="utf-8"?>\n<TriX xmlns="http://www.w3.org/2004/03/trix/trix-1/">\n']
        for key, (g, qs) in groups(doc).items():
            out.append("<graph>")
            if key != "default":
                out.append(el(g))
            for q in qs:
                out.append("<triple>%s%s%s</triple>" % (el(q[0]), el(q[1]), el(q[2])))
            out.append("</graph>\n")
        out.append("</TriX>\n")
        return "".join(out)
    if fmt == "json-ld":
        def node_id(t):
            return t["v"] if t["k"] == "iri" else "_:" + t["v"]
        def val(o):
            if o["k"] in ("iri", "bnode"):
                return {"@id": node_id(o)}
            v = {"@value": o["v"]}
            if o.get("lang"):
                v["@language"] = o["lang"]
            elif o.get("dt"):
                v["@type"] = o["dt"]
            return v
        def nodes(qs):
            by = {}
            for s, p, o, g in qs:
                by.setdefault(node_id(s), {"@id": node_id(s)}).setdefault(p["v"], []).append(val(o))
            return list(by.values())
        out = []
        for key, (g, qs) in groups(doc).items():
            if key == "default":
                out.extend(nodes(qs))
            else:
                out.append({"@id": node_id(g), "@graph": nodes(qs)})
        return json.dumps(out)
    if fmt == "hext":
        lines = []
        for s, p, o, g in doc:
            sv = s["v"] if s["k"] == "iri" else "_:" + s["v"]
            gv = "" if g["k"] == "default" else (g["v"] if g["k"] == "iri" else "_:" + g["v"])
            if o["k"] == "iri":
                row = [sv, p["v"], o["v"], "globalId", "", gv]
            elif o["k"] == "bnode":
                row = [sv, p["v"], "_:" + o["v"], "localId", "", gv]
            elif o.get("lang"):
                row = [sv, p["v"], o["v"], "http://www.w3.org/1999/02/22-rdf-syntax-ns#langString", o["lang"], gv]
            else:
                row = [sv, p["v"], o["v"], o.get("dt") or XSD_STRING, "", gv]
            lines.append(json.dumps(row))
        return "\n".join(lines) + "\n"
    raise ValueError(fmt)
