"""Replay abstract store histories (C01 C02 C13) on rdflib and record traces for TraceStore.tla.

cfg keys: facade ∈ {graph-own, graph-shared, dataset, cg}, store ∈ {Memory, SimpleMemory},
default_union, vocab, S, P, O (universe), names (graph names incl. "D" for datasets),
obs ∈ {"last", "all"}.
"""
from __future__ import annotations

import itertools
import warnings

from rdflib import BNode, Dataset, Graph, URIRef
from rdflib.graph import ConjunctiveGraph, DATASET_DEFAULT_GRAPH_ID
from rdflib.plugins.stores.memory import Memory, SimpleMemory
from rdflib.store import Store

from .vocab import Vocab

warnings.simplefilter("ignore")

UNKNOWN = "gx"  # a graph name no history ever creates


def universe(cfg):
    return [list(t) for t in itertools.product(cfg["S"], cfg["P"], cfg["O"])]


def patterns(cfg):
    return [list(t) for t in itertools.product(list(cfg["S"]) + ["_"], list(cfg["P"]) + ["_"], list(cfg["O"]) + ["_"])]


class Delegating(Store):
    """a store that is not the in-memory store (nor a subclass): every call is passed on to a Memory store"""
    context_aware = True
    graph_aware = True
    formula_aware = True

    def __init__(self, configuration=None, identifier=None):
        super().__init__(configuration, identifier)
        self.inner = Memory()

    def add(self, triple, context, quoted=False):
        self.inner.add(triple, context, quoted)

    def remove(self, triple, context=None):
        self.inner.remove(triple, context)

    def triples(self, triple_pattern, context=None):
        return self.inner.triples(triple_pattern, context)

    def __len__(self, context=None):
        return self.inner.__len__(context)

    def contexts(self, triple=None):
        return self.inner.contexts(triple)

    def add_graph(self, graph):
        self.inner.add_graph(graph)

    def remove_graph(self, graph):
        self.inner.remove_graph(graph)

    def bind(self, prefix, namespace, override=True):
        self.inner.bind(prefix, namespace, override)

    def prefix(self, namespace):
        return self.inner.prefix(namespace)

    def namespace(self, prefix):
        return self.inner.namespace(prefix)

    def namespaces(self):
        return self.inner.namespaces()


class World:
    def __init__(self, cfg):
        self.cfg = cfg
        self.v = Vocab(cfg.get("vocab", "plain"))
        self.facade = cfg["facade"]
        self.U = universe(cfg)
        self.PATS = patterns(cfg)
        self.iters = {}
        self.ds = None
        self.graphs = {}
        st = cfg.get("store", "Memory")
        if self.facade == "graph-own":
            for n in cfg["names"]:
                self.graphs[n] = Graph(store=Memory() if st == "Memory" else SimpleMemory(), identifier=self.v.gid(n) or URIRef("urn:g:D"))
        elif self.facade == "graph-shared":
            self.store = Memory()
            for n in cfg["names"]:
                self.graphs[n] = Graph(store=self.store, identifier=self.v.gid(n) or URIRef("urn:g:D"))
        elif self.facade == "dataset":
            self.ds = Dataset(store=Delegating(), default_union=cfg.get("default_union", False)) if st == "Delegating" else Dataset(default_union=cfg.get("default_union", False))
            self.store = self.ds.store
        elif self.facade == "cg":
            self.ds = ConjunctiveGraph()
            self.ds.default_union = cfg.get("default_union", True)
            self.store = self.ds.store
            # the CG's default context has a BNode identifier of its own
            self.v.gnames["D"] = self.ds.default_context.identifier
            self.v.ginv[self.ds.default_context.identifier] = "D"
        else:
            raise ValueError(self.facade)

    # -- graph objects
    def view(self, n):
        """an independently obtained Graph view for name n"""
        if self.ds is None:
            return self.graphs[n]
        ident = self.v.gid(n)
        if n == "D":
            ident = DATASET_DEFAULT_GRAPH_ID if self.facade == "dataset" else self.ds.default_context.identifier
        return Graph(store=self.store, identifier=ident)

    def ctx(self, n):
        if n == "D":
            return self.ds.default_graph if self.facade == "dataset" else self.ds.default_context
        return self.view(n)

    # -- operations
    def do(self, e):
        op = e["op"]
        v = self.v
        if op == "init":
            for n in e.get("made", []):
                if self.ds is not None and self.facade == "dataset":
                    self.ds.graph(v.gid(n))
            for q in e["quads"]:
                self.view(q[3]).add(v.triple(q))
        elif op == "add":
            if self.ds is not None and e.get("via", "view") == "ds":
                if e["g"] == "D":
                    self.ds.add(v.triple(e["t"]))
                else:
                    self.ds.add(v.triple(e["t"]) + (self.ctx(e["g"]) if e.get("how") == "obj" else v.gid(e["g"]),))
            else:
                self.view(e["g"]).add(v.triple(e["t"]))
        elif op == "addN":
            qs = e["qs"]
            if self.ds is not None:
                self.ds.addN([v.triple(q) + (self.ctx(q[3]),) for q in qs])
            else:
                quads = [v.triple(q) + (self.graphs[q[3]],) for q in qs]
                for n in sorted({q[3] for q in qs}):
                    self.graphs[n].addN(quads)
        elif op == "addN_view":
            # the bulk interface of one graph view, handed quads that name views of other graphs of the same store as well
            tgt = self.view(e["g"])
            quads = [v.triple(q) + ((self.ctx(q[3]) if (i + len(e["qs"])) % 2 else self.view(q[3])),) for i, q in enumerate(e["qs"])]
            if e.get("how") == "equal_id":
                # the graphs are named by identifiers that are equal to, not the very objects of, the target's
                quads = [q[:3] + (Graph(store=q[3].store, identifier=type(q[3].identifier)(str(q[3].identifier))),) for q in quads]
            if e.get("how") == "batch":
                from rdflib.graph import BatchAddGraph
                with BatchAddGraph(tgt, batch_size=2, batch_addn=True) as b:
                    b.addN(quads)
            else:
                tgt.addN(quads)
        elif op == "remove":
            pat = v.triple(e["pat"])
            if e["g"] == "*":
                if self.ds is not None:
                    self.ds.remove(pat)
                else:
                    self.store.remove(pat, None)
            elif self.ds is not None and e.get("via", "view") == "ds":
                self.ds.remove(pat + (self.ctx(e["g"]) if e.get("how") == "obj" else (v.gid(e["g"]) if e["g"] != "D" else self.ctx("D")),))
            else:
                self.view(e["g"]).remove(pat)
        elif op == "set":
            self.view(e["g"]).set(v.triple(e["t"]))
        elif op == "iadd":
            g = self.view(e["g"])
            g += self.view(e["h"])
        elif op == "isub":
            g = self.view(e["g"])
            g -= self.view(e["h"])
        elif op == "iadd_ts":
            g = self.view(e["g"])
            g += [v.triple(t) for t in e["ts"]]
        elif op == "isub_ts":
            g = self.view(e["g"])
            g -= [v.triple(t) for t in e["ts"]]
        elif op == "graph" and self.ds is None:
            self.store.add_graph(self.view(e["g"]))
        elif op == "remove_graph" and self.ds is None:
            self.store.remove_graph(self.view(e["g"]))
        elif op == "graph":
            self.ds.graph(v.gid(e["g"]))
        elif op == "remove_graph":
            if e["g"] == "D":
                self.ds.remove_graph(self.ds.default_graph)
            else:
                self.ds.remove_graph(v.gid(e["g"]) if e.get("how", "id") == "id" else self.view(e["g"]))
        elif op == "binop":
            a, b = self.view(e["g"]), self.view(e["h"])
            r = {"+": lambda: a + b, "-": lambda: a - b, "*": lambda: a * b, "^": lambda: a ^ b}[e["o"]]()
            e["res"] = [v.abs_triple(t) for t in r]
        elif op == "read":
            from . import reads
            kind, arg, tgt = e["kind"], e.get("arg", ""), e.get("g", "D")
            vals = []
            for _ in range(2):
                try:
                    vals.append(("ok", reads.do_read(self, kind, arg, tgt)))
                except Exception as ex:  # noqa: BLE001
                    vals.append(("raise", type(ex).__name__))
            d1, d2 = reads.stable_digest(kind, arg, vals[0]), reads.stable_digest(kind, arg, vals[1])
            if d1 != d2 and kind in ("ser_ds", "ser_view") and vals[0][0] == "ok" and vals[1][0] == "ok":
                d1, d2 = reads.meaning_digest(kind, arg, vals[0][1]), reads.meaning_digest(kind, arg, vals[1][1])
            e["v1"], e["v2"] = d1, d2
            xv = reads.expected(self, kind, arg, tgt)
            if xv is not None:
                e["xv"] = reads.stable_digest(kind, arg, ("ok", xv))
            if vals[0][0] == "raise":
                e["raised"] = vals[0][1]
        elif op == "open":
            self.iters[e["it"]] = self.view(e["g"]).triples(v.triple(e["pat"]))
        elif op == "next":
            it = self.iters[e["it"]]
            try:
                t = next(it)
                e["res"] = {"k": "t", "t": v.abs_triple(t)}
            except StopIteration:
                e["res"] = {"k": "stop"}
            except Exception as ex:  # noqa: BLE001
                e["res"] = {"k": "raise", "e": type(ex).__name__}
        else:
            raise ValueError("unknown op " + op)

    # -- observation
    def observe_light(self):
        """state only: quads and graph set (C13 purity checks)"""
        v, ds = self.v, self.ds
        o = {"quads": [v.abs_triple(q) + [v.gabs(q[3])] for q in ds.quads()]}
        o["graphs"] = [v.gabs(g) for g in (ds.graphs() if self.facade == "dataset" else ds.contexts())]
        return o

    def observe(self):
        if self.cfg.get("obs_kind") == "light":
            return self.observe_light()
        v = self.v
        o = {}
        names = list(self.cfg["names"])
        if self.ds is not None:
            names = names + [UNKNOWN]
        views = []
        for n in names:
            g = self.view(n)
            views.append({
                "g": n,
                "len": len(g),
                "iter": [v.abs_triple(t) for t in g],
                "has": [t for t in self.U if v.triple(t) in g],
                "pats": [{"p": p, "r": [v.abs_triple(t) for t in g.triples(v.triple(p))]} for p in self.PATS],
            })
        o["views"] = views
        if self.ds is not None:
            ds = self.ds
            o["quads"] = [v.abs_triple(q) + [v.gabs(q[3])] for q in ds.quads()]
            if self.facade == "dataset":
                o["graphs"] = [v.gabs(g) for g in ds.graphs()]
            else:
                o["graphs"] = [v.gabs(g) for g in ds.contexts()]
            member = []
            for n in names:
                for t in self.U:
                    ident = self.ctx(n) if n == "D" else v.gid(n)
                    member.append({"q": t + [n], "r": (v.triple(t) + (ident,)) in ds})
            o["member"] = member
            # a triple asked of the dataset itself: the default graph, or the union when default_union is on
            o["tmember"] = [{"t": t, "r": v.triple(t) in ds} for t in self.U]
            ctxq = []
            for n in names:
                if n == "D" and self.cfg.get("default_union"):
                    pass
                for how in ("obj", "id", "quad"):
                    for p in self.PATS:
                        pat = v.triple(p)
                        if how == "obj":
                            r = ds.triples(pat, context=self.ctx(n))
                        elif how == "id":
                            if n == "D":
                                continue
                            r = ds.triples(pat, context=v.gid(n))
                        else:
                            r = ds.triples(pat + (self.ctx(n),))
                        ctxq.append({"g": n, "how": how, "p": p, "r": [v.abs_triple(t) for t in r]})
            o["ctxq"] = ctxq
            # quad patterns that name a graph (the default graph only when it is not the union), and the graphs that hold a triple
            quadq = []
            for n in names:
                if n == "D" and self.cfg.get("default_union"):
                    continue
                ident = self.ctx(n) if n == "D" else v.gid(n)
                for p in self.PATS:
                    quadq.append({"g": n, "p": p, "r": [v.abs_triple(q) + [v.gabs(q[3])] for q in ds.quads(v.triple(p) + (ident,))]})
            o["quadq"] = quadq
            lister = ds.graphs if self.facade == "dataset" else ds.contexts
            o["gof"] = [{"t": t, "r": [v.gabs(g) for g in lister(v.triple(t))]} for t in self.U]
            o["union"] = [{"p": p, "r": [v.abs_triple(t) for t in ds.triples(v.triple(p))]} for p in self.PATS]
            if self.cfg.get("default_union"):
                o["ulen"] = len(ds)
            if self.cfg.get("paths"):
                # patterns whose predicate is a property path: asked of the dataset itself (g = D: its default view) and of each view
                up = []
                for pth in self.cfg["paths"]:
                    po = self.path_obj(pth)
                    up.append({"g": "D", "path": pth, "r": [[v.abs(s_), v.abs(o_)] for s_, _, o_ in ds.triples((None, po, None))]})
                    for n in self.cfg["names"]:
                        if n != "D":
                            up.append({"g": n, "path": pth, "r": [[v.abs(s_), v.abs(o_)] for s_, _, o_ in self.view(n).triples((None, po, None))]})
                o["upath"] = up
        return o

    def path_obj(self, p):
        from rdflib.paths import AlternativePath, InvPath, MulPath, NegatedPath, SequencePath
        op = p["op"]
        if op == "iri":
            return self.v.term(p["iri"])
        if op == "inv":
            return InvPath(self.path_obj(p["arg"]))
        if op == "seq":
            return SequencePath(*[self.path_obj(x) for x in p["args"]])
        if op == "alt":
            return AlternativePath(*[self.path_obj(x) for x in p["args"]])
        if op in ("star", "plus", "opt"):
            return MulPath(self.path_obj(p["arg"]), {"star": "*", "plus": "+", "opt": "?"}[op])
        if op == "neg":
            parts = [self.v.term(x) for x in p["fwd"]]
            return NegatedPath(parts[0] if len(parts) == 1 else AlternativePath(*parts))
        raise ValueError(op)


def replay(cfg, events, tid=0):
    """Execute one abstract history; return the trace record for TraceStore."""
    w = World(cfg)
    evs = []
    obs_all = cfg.get("obs", "last") == "all"
    for i, e in enumerate(events):
        e = dict(e)
        try:
            w.do(e)
        except Exception as ex:  # noqa: BLE001  an API call that raises is an observation
            e["raise"] = type(ex).__name__
        if obs_all or i == len(events) - 1 or e.get("observe"):
            e["obs"] = w.observe()
        evs.append(e)
    c = {"default_union": bool(cfg.get("default_union", False)), "dataset": cfg["facade"] == "dataset",
         "facade": cfg["facade"], "store": cfg.get("store", "Memory"), "vocab": cfg.get("vocab", "plain")}
    return {"tid": tid, "cfg": c, "ev": evs}
