"""Thin driver around TLC: model checking runs, behaviour export runs, trace-validation runs.

Everything TLC decides is read from TLC's own output; nothing is re-derived in Python.
"""
from __future__ import annotations

import json
import os
import re
import shutil
import subprocess
import tempfile
import time
from dataclasses import dataclass, field

SPEC_DIR = os.path.join(os.path.dirname(os.path.dirname(os.path.dirname(os.path.abspath(__file__)))), "spec")
JAR = "/opt/veriftools/tla/tla2tools.jar:/opt/veriftools/tla/CommunityModules-deps.jar"


class MachineryError(Exception):
    """TLC failed for a reason that is not a verdict (parse error, crash, postcondition)."""


@dataclass
class TlcResult:
    module: str
    cfg: str
    rc: int
    out: str
    generated: int = 0
    distinct: int = 0
    depth: int = 0
    wall_s: float = 0.0
    violated: str | None = None  # name of violated invariant/property, if any
    error: str | None = None
    printed: list[str] = field(default_factory=list)
    coverage: dict[str, int] = field(default_factory=dict)

    @property
    def ok(self) -> bool:
        return self.violated is None and self.error is None


_RE_STATES = re.compile(r"(\d+) states generated, (\d+) distinct states found")
_RE_DEPTH = re.compile(r"The depth of the complete state graph search is (\d+)")
_RE_INV = re.compile(r"Error: Invariant (\S+) is violated")
_RE_PROP = re.compile(r"Error: (?:Action|Temporal) propert(?:y|ies) (\S*) ?(?:is|were) violated")
_RE_COV = re.compile(r"^<(\w+) line \d+, col \d+ to line \d+, col \d+ of module (\w+)>: (\d+):(\d+)", re.M)


def scratch(prefix: str = "rvf-") -> str:
    return tempfile.mkdtemp(prefix=prefix, dir=os.environ.get("RVF_TMP", tempfile.gettempdir()))


def write_cfg(path: str, *, spec: str | None = None, init: str | None = None, next_: str | None = None,
              constants: dict[str, str] | None = None, invariants=(), properties=(), constraints=(),
              action_constraints=(), view: str | None = None, postcondition: str | None = None,
              deadlock: bool = False, symmetry: str | None = None) -> str:
    lines = []
    if spec:
        lines.append(f"SPECIFICATION {spec}")
    if init:
        lines.append(f"INIT {init}")
    if next_:
        lines.append(f"NEXT {next_}")
    if constants:
        lines.append("CONSTANTS")
        for k, v in constants.items():
            lines.append(f"  {k} = {v}" if not v.startswith("<-") else f"  {k} {v}")
    for i in invariants:
        lines.append(f"INVARIANT {i}")
    for p in properties:
        lines.append(f"PROPERTY {p}")
    for c in constraints:
        lines.append(f"CONSTRAINT {c}")
    for c in action_constraints:
        lines.append(f"ACTION_CONSTRAINT {c}")
    if view:
        lines.append(f"VIEW {view}")
    if symmetry:
        lines.append(f"SYMMETRY {symmetry}")
    if postcondition:
        lines.append(f"POSTCONDITION {postcondition}")
    lines.append(f"CHECK_DEADLOCK {'TRUE' if deadlock else 'FALSE'}")
    with open(path, "w") as f:
        f.write("\n".join(lines) + "\n")
    return path


def run(module: str, cfg: str, *, workers: int | str = 1, env: dict[str, str] | None = None,
        extra: list[str] | None = None, timeout: int = 3600, heap: str = "4g",
        coverage: bool = False, spec_dir: str | None = None, keep_out: bool = True) -> TlcResult:
    """Run TLC on spec/<module>.tla with config file `cfg` (absolute path or name under spec/)."""
    spec_dir = spec_dir or SPEC_DIR
    tla = os.path.join(spec_dir, module + ".tla")
    if not os.path.isabs(cfg):
        cfg = os.path.join(spec_dir, cfg)
    meta = scratch("rvf-meta-")
    # (-Xss: the recursive operators of the trace specs walk sequences of a thousand and more elements in C19)
    cmd = ["java", f"-Xmx{heap}", "-Xss512m", "-XX:+UseParallelGC", "-cp", JAR, "tlc2.TLC",
           "-workers", str(workers), "-metadir", meta, "-noGenerateSpecTE", "-config", cfg]
    if coverage:
        cmd += ["-coverage", "1"]
    if extra:
        cmd += extra
    cmd.append(tla)
    e = dict(os.environ)
    e.pop("JAVA_TOOL_OPTIONS", None)
    if env:
        e.update(env)
    t0 = time.time()
    try:
        p = subprocess.run(cmd, cwd=spec_dir, env=e, stdout=subprocess.PIPE, stderr=subprocess.STDOUT,
                           timeout=timeout, text=True, errors="replace")
        out, rc = p.stdout, p.returncode
    except subprocess.TimeoutExpired as ex:
        out = (ex.stdout or b"").decode("utf-8", "replace") if isinstance(ex.stdout, bytes) else (ex.stdout or "")
        rc = -9
    finally:
        shutil.rmtree(meta, ignore_errors=True)
    r = TlcResult(module=module, cfg=cfg, rc=rc, out=out if keep_out else "", wall_s=time.time() - t0)
    for m in _RE_STATES.finditer(out):
        r.generated, r.distinct = int(m.group(1)), int(m.group(2))
    m = _RE_DEPTH.search(out)
    if m:
        r.depth = int(m.group(1))
    m = _RE_INV.search(out)
    if m:
        r.violated = m.group(1)
    else:
        m = _RE_PROP.search(out)
        if m:
            r.violated = m.group(1) or "property"
    if r.violated is None and rc != 0:
        if rc == -9:
            r.error = "timeout"
        else:
            em = re.search(r"^Error: (.*)$", out, re.M)
            r.error = em.group(1) if em else f"rc={rc}"
            if "Deadlock reached" in out:
                r.violated, r.error = "Deadlock", None
    if coverage:
        for m in _RE_COV.finditer(out):
            r.coverage[m.group(1)] = r.coverage.get(m.group(1), 0) + int(m.group(4))
    return r


def printed_strings(out: str) -> list[str]:
    """Lines printed by PrintT(<string>) — TLC prints them as TLA+ string literals."""
    res = []
    for line in out.splitlines():
        if len(line) >= 2 and line[0] == '"' and line[-1] == '"':
            try:
                res.append(json.loads(line))
            except Exception:
                pass
    return res


_RE_VERDICT = re.compile(r'^<<"VERDICT", (\d+), "([^"]*)", (\d+)(?:, "([^"]*)")?>>$')


def verdicts(out: str) -> dict[int, tuple[str, int, str]]:
    """tid -> (verdict clause | 'ok', event index reached, note)"""
    res = {}
    for line in out.splitlines():
        m = _RE_VERDICT.match(line.strip())
        if m:
            res[int(m.group(1))] = (m.group(2), int(m.group(3)), m.group(4) or "")
    return res


def export_json(module: str, cfg: str, *, timeout: int = 1800, env=None, extra=None, workers=1) -> tuple[TlcResult, list]:
    """Run a Gen_* config whose CONSTRAINT prints ToJson(hist); return the decoded behaviours."""
    r = run(module, cfg, workers=workers, env=env, extra=extra, timeout=timeout)
    if r.error or r.violated:
        raise MachineryError(f"export {module}/{os.path.basename(cfg)}: {r.error or r.violated}\n{r.out[-2000:]}")
    items = [json.loads(s) for s in printed_strings(r.out)]
    return r, items


def validate_batch(module: str, traces: list[dict], *, constants: dict[str, str] | None = None,
                   timeout: int = 3600, heap: str = "6g", deviations: list[str] | None = None) -> tuple[TlcResult, dict]:
    """Write `traces` as ndjson, run Trace<module> over it (chained, -workers 1), return verdicts by tid."""
    d = scratch("rvf-batch-")
    try:
        path = os.path.join(d, "batch.ndjson")
        with open(path, "w") as f:
            for t in traces:
                f.write(json.dumps(t, separators=(",", ":")) + "\n")
        cfg = os.path.join(d, "trace.cfg")
        consts = dict(constants or {})
        write_cfg(cfg, spec="TraceSpec", constants=consts or None, postcondition=None)
        devs = os.path.join(d, "devs.json")
        with open(devs, "w") as f:
            json.dump(list(deviations or []), f)
        env = {"TRACE_FILE": path, "DEVS_FILE": devs}
        r = run(module, cfg, workers=1, env=env, timeout=timeout, heap=heap)
        if r.error or r.violated:
            raise MachineryError(f"trace validation {module}: {r.error or r.violated}\n{r.out[-3000:]}")
        v = verdicts(r.out)
        missing = [t["tid"] for t in traces if t["tid"] not in v]
        if missing:
            raise MachineryError(f"trace validation {module}: no verdict for tids {missing[:5]}…\n{r.out[-2000:]}")
        return r, v
    finally:
        shutil.rmtree(d, ignore_errors=True)


def tla_set(xs) -> str:
    return "{" + ", ".join(json.dumps(x) if isinstance(x, str) else str(x) for x in xs) + "}"


def tla_bool(b) -> str:
    return "TRUE" if b else "FALSE"


def gen_histories(module: str, constants: dict[str, str], *, constraint="Export", spec="Spec", timeout=1800,
                  simulate: str | None = None, seed: int = 0) -> tuple[TlcResult, list]:
    """Export every bounded history of `module` (CONSTRAINT prints ToJson(hist)); -workers 1 keeps lines whole."""
    d = scratch("rvf-gen-")
    try:
        cfg = os.path.join(d, "gen.cfg")
        write_cfg(cfg, spec=spec, constants=constants, constraints=[constraint])
        extra = None
        if simulate:
            extra = ["-simulate", simulate, "-seed", str(seed)]
        return export_json(module, cfg, timeout=timeout, extra=extra)
    finally:
        shutil.rmtree(d, ignore_errors=True)
