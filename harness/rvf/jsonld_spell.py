"""C05: render a behaviour of spec/JsonLdSpelling.tla (a token list) as a JSON-LD document.

TLC supplies the structure, the environments (which prefixes, vocabulary, base, language and term definitions are in force where) and
the meaning (the quads).  Every token says which spellings of an IRI are legal at that point; the renderer picks one at random, as it
picks member order, arrays vs single values, context arrays vs objects, string escapes and white space.
"""
from __future__ import annotations

import json
import random

from rdflib import BNode, Literal, URIRef

RDF = "http://www.w3.org/1999/02/22-rdf-syntax-ns#"
XSD = "http://www.w3.org/2001/XMLSchema#"
NS = {0: RDF, 1: "http://ex.example/a/b/c/", 2: "http://ex.example/a/b/c/d#", 3: "urn:x:n:"}
LOCAL_POOL = ["x1", "a.b", "a-b_c", "é", "A_", "1a", "x~y", "名", "Z9"]
TERM_POOL = ["label", "ref", "knows", "值", "Name"]
PREFIX_POOL = ["ex", "p", "q", "foaf", "dc", "sch"]
TEXTS = ["a", "a b", "", "\"q\"", "<b>&amp;", "é\U0001F600", "line\nbreak", "tab\there", "\\ back", "http://looks.like/iri", "_:b1", "@id", "ex:x", "1", "true", " ", " ", "\u0001"]
DATATYPES = ["http://ex.example/dt", "http://ex.example/types#T"]
INTS = [42, 0, -7]
BOOLS = [True, False, True]
DOUBLES = [(1.5, "1.5E0"), (-0.25, "-2.5E-1"), (2.5, "2.5E0")]


class Unrenderable(Exception):
    """the token list has no JSON spelling: two values for one member key that is a @container @list term, one of them a list (a JSON
    object has one member per key, and an array of lists under such a term is ONE list of lists)"""


class JsonLdWriter:
    def __init__(self, seed, doc):
        self.rng = random.Random(seed)
        self.doc = doc
        names = set()
        self._collect(doc, names)
        pool = list(LOCAL_POOL)
        self.rng.shuffle(pool)
        self.local = {n: pool[i] for i, n in enumerate(sorted(names))}
        tp = list(TERM_POOL)
        self.rng.shuffle(tp)
        self.term = {"t1": tp[0], "t2": tp[1]}
        pp = list(PREFIX_POOL)
        self.rng.shuffle(pp)
        self.pfx = {"p": pp[0], "q": pp[1], "r": pp[2]}
        self.texts = self.rng.sample(TEXTS, 3)
        self.lang = {"en": self.rng.choice(["en", "en-GB", "EN"]), "de": self.rng.choice(["de", "de-CH"]), "fr": "fr"}

    def _collect(self, x, acc):
        if isinstance(x, dict):
            if x.get("k") == "iri" and x.get("ns", 0) != 0:
                acc.add(x["l"])
            for v in x.values():
                self._collect(v, acc)
        elif isinstance(x, list):
            for v in x:
                self._collect(v, acc)

    # ---- values ------------------------------------------------------------------------------------
    def iri_value(self, t):
        if t["ns"] == 0:
            return RDF + t["l"]
        return NS[t["ns"]] + self.local[t["l"]]

    def spell(self, sp, allow_terms=True):
        """one of the spellings the token allows"""
        t = sp["term"]
        if t["k"] == "bnode":
            return "_:" + t["v"]
        full = self.iri_value(t)
        loc = self.local.get(t.get("l"), "")
        cands = [full]
        for p in sp.get("pfx", []):
            cands.append(self.pfx[p] + ":" + loc)
        if sp.get("rel") and t["ns"] in (1, 2):
            cands.append(loc if t["ns"] == 1 else "#" + loc)
            if t["ns"] == 1:
                cands.append("./" + loc)
        if sp.get("voc"):
            cands.append(loc)
        if allow_terms:
            for x in sp.get("terms", []):
                cands.append(self.term[x])
        return self.rng.choice(cands)

    def text_of(self, i):
        return self.texts[(i - 1) % len(self.texts)]

    # ---- contexts -------------------------------------------------------------------------------------
    def ctx_json(self, ctx):
        if not ctx:
            return None
        entries = []
        for e in ctx:
            c = e["c"]
            if c == "pfx":
                entries.append((self.pfx[e["p"]], NS[e["ns"]]))
            elif c == "vocab":
                entries.append(("@vocab", NS[e["ns"]] if e["ns"] else None))
            elif c == "base":
                entries.append(("@base", NS[e["ns"]]))
            elif c == "lang":
                entries.append(("@language", self.lang[e["l"]] if e["l"] else None))
            elif c == "term":
                iri = self.spell(e["iri"], allow_terms=False)       # (a term is not defined through a term: that could be itself)
                how = e["how"]
                if how == "none":
                    d = iri if self.rng.random() < 0.6 else {"@id": iri}
                elif how == "id":
                    d = {"@id": iri, "@type": "@id"}
                elif how == "dt":
                    d = {"@id": iri, "@type": DATATYPES[0]}
                elif how == "lang":
                    d = {"@id": iri, "@language": self.lang[e["lang"]]}
                elif how == "list":
                    d = {"@id": iri, "@container": "@list"}
                else:
                    d = {"@id": iri, "@container": self.rng.choice(["@set", ["@set"]])}
                entries.append((self.term[e["t"]], d))
        if len(entries) > 1 and self.rng.random() < 0.4:
            # a context array: later members build on earlier ones
            return [dict([x]) for x in entries]
        self.rng.shuffle(entries)
        return dict(entries)

    # ---- tokens -> tree --------------------------------------------------------------------------------
    def build(self):
        self.i = 0
        root = self.doc[0]
        assert root["t"] == "root"
        self.i = 1
        form = root["form"]
        ctx = self.ctx_json(root["ctx"])
        items = []
        while self.doc[self.i]["t"] != "/root":
            items.append(self.top_item())
        if form == "object":
            obj = items[0]
            if ctx is not None:
                obj = self.with_member(obj, "@context", ctx)
            return obj
        if form == "array":
            return items
        out = {"@graph": items if len(items) != 1 or self.rng.random() < 0.7 else items[0]}
        if ctx is not None:
            out = self.with_member(out, "@context", ctx)
        return out

    def with_member(self, obj, key, value):
        items = list(obj.items())
        items.insert(self.rng.randint(0, len(items)), (key, value))
        return dict(items)

    def top_item(self):
        tok = self.doc[self.i]
        if tok["t"] == "graph":
            self.i += 1
            nodes = []
            while self.doc[self.i]["t"] != "/graph":
                nodes.append(self.node())
            self.i += 1
            g = {"@id": self.spell(tok["name"]), "@graph": nodes}
            return g
        return self.node()

    def node(self):
        tok = self.doc[self.i]
        assert tok["t"] == "node", tok
        self.i += 1
        members = []          # (key, value) in token order; equal keys are merged into arrays
        if tok["subj"]["term"]["k"] != "none":
            members.append(("@id", self.spell(tok["subj"]), False))
        if tok["hastype"]:
            ty = self.spell(tok["type"])
            members.append(("@type", ty if self.rng.random() < 0.6 else [ty], False))
        ctx = self.ctx_json(tok["ctx"])
        while self.doc[self.i]["t"] != "/node":
            t = self.doc[self.i]
            key = self.term[t["key"]["t"]] if t["key"]["how"] == "term" else self.spell(t["key"]["sp"])
            self.i += 1
            if t["t"] == "lit":
                f = t["form"]
                text = self.text_of(t["i"])
                if f == "string":
                    v = text
                elif f == "int":
                    v = INTS[(t["i"] - 1) % 3]
                elif f == "bool":
                    v = BOOLS[(t["i"] - 1) % 3]
                elif f == "double":
                    v = DOUBLES[(t["i"] - 1) % 3][0]
                elif f == "vo-plain":
                    v = {"@value": text}
                elif f == "vo-lang":
                    v = {"@value": text, "@language": self.lang[t["lang"]]}
                else:
                    v = {"@value": text, "@type": DATATYPES[1]}
                if t.get("set") and self.rng.random() < 0.5:
                    v = [v]
            elif t["t"] == "ref":
                sp = self.spell(t["o"])
                v = sp if t["asstring"] and self.rng.random() < 0.7 else {"@id": sp}
                if t.get("set") and self.rng.random() < 0.5:
                    v = [v]
            elif t["t"] == "embed":
                v = self.node()
            elif t["t"] == "list":
                items = [self.text_of(x["i"]) if x["lit"] else {"@id": self.spell(x["o"])} for x in t["items"]]
                v = items if t["bare"] else {"@list": items}
                if t["bare"]:
                    v = {"__bare_list__": items}
            else:
                raise ValueError(t["t"])
            members.append((key, v, t["key"]["how"] == "term" and t["t"] == "list"))
        self.i += 1
        # merge equal keys
        out = {}
        listkeys = {k for k, v, lk in members if lk}
        if any(sum(1 for k2, _, _ in members if k2 == k) > 1 for k in listkeys):
            raise Unrenderable()
        for k, v, _ in members:
            if isinstance(v, dict) and "__bare_list__" in v:
                v = v["__bare_list__"]
                if k in out:
                    # a second value for a @container @list term would be a second list: spelt as an explicit list object
                    out[k] = (out[k] if isinstance(out[k], list) and out[k] and isinstance(out[k][0], dict) and "@list" in out[k][0] else [{"@list": out[k]}]) + [{"@list": v}]
                else:
                    out[k] = v
                continue
            if k in out and k not in ("@id",):
                cur = out[k]
                if isinstance(cur, list) and not (cur and all(not isinstance(x, (dict, list)) for x in cur) and False):
                    out[k] = cur + (v if isinstance(v, list) else [v])
                else:
                    out[k] = [cur] + (v if isinstance(v, list) else [v])
            else:
                out[k] = v
        items = list(out.items())
        if self.rng.random() < 0.5:
            self.rng.shuffle(items)
        out = dict(items)
        if ctx is not None:
            out = self.with_member(out, "@context", ctx)
        return out

    def render(self):
        tree = self.build()
        kw = {"ensure_ascii": self.rng.random() < 0.4}
        if self.rng.random() < 0.5:
            kw["indent"] = self.rng.choice([1, 2, "\t"])
        else:
            kw["separators"] = self.rng.choice([(",", ":"), (", ", ": "), (" ,\n", " : ")])
        text = json.dumps(tree, **kw)
        return self.rng.choice(["", "\n", "  ", "﻿" if False else ""]) + text + self.rng.choice(["", "\n"])

    # ---- the expected dataset, concretely ------------------------------------------------------------
    def term_of(self, t, bmap):
        k = t["k"]
        if k == "iri":
            return URIRef(self.iri_value(t))
        if k == "bnode":
            return bmap.setdefault(t["v"], BNode())
        if k == "default":
            return None
        assert k == "jlit", t
        kind = t["kind"]
        if kind == "plain":
            text = self.text_of(t["i"])
            return Literal(text, lang=self.lang[t["lang"]]) if t["lang"] else Literal(text)
        if kind == "dt":
            return Literal(self.text_of(t["i"]), datatype=URIRef(DATATYPES[t["dt"] - 1]))
        if kind == "int":
            return Literal(str(INTS[(t["i"] - 1) % 3]), datatype=URIRef(XSD + "integer"))
        if kind == "bool":
            return Literal("true" if BOOLS[(t["i"] - 1) % 3] else "false", datatype=URIRef(XSD + "boolean"))
        if kind == "double":
            return Literal(DOUBLES[(t["i"] - 1) % 3][1], datatype=URIRef(XSD + "double"))
        raise ValueError(t)

    def expected(self, quads, abst):
        bmap = {}
        out = []
        for q in quads:
            s, p, o, g = (self.term_of(q[x], bmap) for x in ("s", "p", "o", "g"))
            out.append([abst(s), abst(p), abst(o), {"k": "default"} if g is None else abst(g)])
        return out
