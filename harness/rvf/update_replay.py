"""Render SPARQL Update request ASTs, apply them through Graph / ConjunctiveGraph / Dataset, record traces for TraceUpdate.tla."""
from __future__ import annotations

import warnings

import rdflib.plugins.sparql as sparql_mod
from rdflib import BNode, Dataset, Graph, URIRef
from rdflib.graph import ConjunctiveGraph, DATASET_DEFAULT_GRAPH_ID

from .sparql_replay import PFX, abst, build, collect_strings, conc, g_text, guarded, ord_table, t_text, _Timeout

warnings.simplefilter("ignore")


def gref(n):
    return "<%s%s>" % (PFX, n)


def quads_text(quads, split=False):
    """template / data quads grouped: default part then GRAPH blocks"""
    out = []
    by = {}
    runs = []
    for q in quads:
        g = q[3]
        key = g["v"] if g["k"] == "g" else "?" + g["v"]
        by.setdefault(key, []).append(q)
        if runs and runs[-1][0] == key:
            runs[-1][1].append(q)
        else:
            runs.append((key, [q]))
    # split: keep the author's order, one block per run - the same graph may then be named by several GRAPH blocks
    for key, qs in (runs if split else by.items()):
        body = " ".join("%s %s %s ." % (t_text(q[0]), t_text(q[1]), t_text(q[2])) for q in qs)
        if key == "" or key == "D":
            out.append(body)
        elif key.startswith("?"):
            out.append("GRAPH %s { %s }" % (key, body))
        else:
            out.append("GRAPH %s { %s }" % (gref(key), body))
    return " ".join(out)


def target_text(t):
    return t if t in ("DEFAULT", "NAMED", "ALL") else "GRAPH " + gref(t)


def gd(t):
    return "DEFAULT" if t == "DEFAULT" else gref(t) if False else ("DEFAULT" if t == "DEFAULT" else "GRAPH " + gref(t))


def op_text(u):
    k = u["u"]
    if k == "insertdata":
        return "INSERT DATA { %s }" % quads_text(u["quads"], u.get("split", False))
    if k == "deletedata":
        return "DELETE DATA { %s }" % quads_text(u["quads"], u.get("split", False))
    if k == "deletewhere":
        return "DELETE WHERE { %s }" % quads_text(u["quads"], u.get("split", False))
    if k == "modify":
        s = ""
        if u["with"]:
            s += "WITH %s " % gref(u["with"])
        if u["del"]:
            s += "DELETE { %s } " % quads_text(u["del"], u.get("split", False))
        if u["ins"]:
            s += "INSERT { %s } " % quads_text(u["ins"], u.get("split", False))
        for g in u["using"]:
            s += "USING %s " % gref(g)
        for g in u["usingnamed"]:
            s += "USING NAMED %s " % gref(g)
        return s + "WHERE " + g_text(u["where"])
    if k in ("clear", "drop"):
        return "%s %s%s" % (k.upper(), "SILENT " if u.get("silent") else "", target_text(u["target"]))
    if k in ("add", "move", "copy"):
        return "%s %s%s TO %s" % (k.upper(), "SILENT " if u.get("silent") else "", gd(u["from"]), gd(u["to"]))
    raise ValueError(k)


def observe(g, cfg, known_bnodes):
    fresh = {}

    def ab(x):
        if isinstance(x, BNode) and str(x) not in known_bnodes:
            if x not in fresh:
                fresh[x] = "f%d" % (len(fresh) + 1)
            return {"k": "bnode", "v": fresh[x], "fresh": True}
        return abst(x)

    out = []
    if isinstance(g, (Dataset, ConjunctiveGraph)):
        dflt = g.default_graph.identifier if isinstance(g, Dataset) else g.default_context.identifier
        for s, p, o, c in g.quads():
            ident = c.identifier if hasattr(c, "quads") or isinstance(c, Graph) else c
            if ident is None or ident == dflt or ident == DATASET_DEFAULT_GRAPH_ID:
                n = "D"
            else:
                n = str(ident)
                n = n[len(PFX):] if n.startswith(PFX) else n
            out.append([ab(s), ab(p), ab(o), n])
    else:
        for s, p, o in g:
            out.append([ab(s), ab(p), ab(o), "D"])
    return out


def replay(cfg, events):
    old = sparql_mod.SPARQL_DEFAULT_GRAPH_UNION
    oldl = sparql_mod.SPARQL_LOAD_GRAPHS
    sparql_mod.SPARQL_DEFAULT_GRAPH_UNION = bool(cfg.get("union_default", True))
    sparql_mod.SPARQL_LOAD_GRAPHS = False
    try:
        g = None
        evs = []
        known = set()
        for e in events:
            e = dict(e)
            if e["op"] == "data":
                g = build(cfg, e)
                e.setdefault("graphs", [])
                for q in e["quads"]:
                    for x in q[:3]:
                        if x["k"] == "bnode":
                            known.add(x["v"])
            elif e["op"] == "update":
                if e.get("prologues"):
                    # every operation under a prologue of its own: operation i spells its IRIs with the prefix x: bound to the right namespace in ITS
                    # prologue; the next operation's prologue re-binds x: elsewhere and changes the BASE (and spells its own IRIs with y:)
                    import re as _re
                    parts = []
                    for i_, u in enumerate(e["ops"]):
                        pfx = "xy"[i_ % 2]
                        other = "yx"[i_ % 2]
                        body = _re.sub(r"<urn:x:([A-Za-z][A-Za-z0-9]*)>", pfx + r":\1", op_text(u))
                        parts.append("BASE <http://wrong.example/%d/> PREFIX %s: <urn:x:> PREFIX %s: <http://wrong.example/ns%d#>\n%s" % (i_, pfx, other, i_, body))
                    text = " ;\n".join(parts)
                else:
                    text = " ;\n".join(op_text(u) for u in e["ops"])
                e["text"] = text
                try:
                    guarded(lambda: g.update(text))
                    e["res"] = {"k": "ok"}
                except _Timeout:
                    e["res"] = {"k": "raise", "e": "Timeout"}
                except Exception as ex:  # noqa: BLE001
                    e["res"] = {"k": "raise", "e": type(ex).__name__, "msg": str(ex)[:200]}
                e["after"] = observe(g, cfg, known)
            evs.append(e)
        acc = []
        collect_strings(evs, acc)
        fac = cfg.get("facade", "dataset")
        return {"tid": 0, "cfg": {"union_default": bool(cfg.get("union_default", False)) and fac != "graph", "ord": ord_table(acc), "facade": fac}, "ev": evs}
    finally:
        sparql_mod.SPARQL_DEFAULT_GRAPH_UNION = old
        sparql_mod.SPARQL_LOAD_GRAPHS = oldl
