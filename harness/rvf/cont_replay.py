"""Growth check G01: replay rdflib.container (Bag / Seq / Alt) histories and record traces for TraceContainer.tla."""
from __future__ import annotations

import warnings

from rdflib import BNode, Graph, URIRef
from rdflib.container import Alt, Bag, Seq
from rdflib.namespace import RDF

from .vocab import Vocab

warnings.simplefilter("ignore")
LI = str(RDF) + "_"


def replay(cfg, events):
    v = Vocab(cfg.get("vocab", "plain"))
    g = Graph()
    # other content of the graph that must stay untouched
    other = (URIRef("urn:x:other"), URIRef("urn:x:p"), URIRef("urn:x:o"))
    g.add(other)
    node = BNode("cont") if cfg.get("node", "bnode") == "bnode" else URIRef("urn:x:cont")
    kind = cfg.get("kind", "Seq")
    c = None
    evs = []

    def val(x):
        return v.abs(x)

    def observe(e):
        mem, rest = [], 0
        for s, p, o in g:
            if s == node and str(p).startswith(LI):
                mem.append([int(str(p)[len(LI):]), val(o)])
            elif s == node and p == RDF.type:
                pass
            elif (s, p, o) != other:
                rest += 1
        e["members"] = sorted(mem)
        e["typed"] = (node, RDF.type, RDF[kind]) in g and rest == 0 and other in g
        try:
            e["len"] = len(c)
            e["items"] = [val(x) for x in c.items()]
        except Exception as ex:     # noqa: BLE001
            e["len"] = -1
            e["items"] = ["!" + type(ex).__name__]

    for e in events:
        e = dict(e)
        op = e["op"]
        try:
            if op == "new":
                cls = {"Seq": Seq, "Bag": Bag, "Alt": Alt}[kind]
                c = cls(g, node, [v.term(x) for x in e["items"]])
                e["res"] = {"k": "ok"}
            elif op == "append":
                c.append(v.term(e["x"]))
                e["res"] = {"k": "ok"}
            elif op == "append_multiple":
                c.append_multiple([v.term(x) for x in e["xs"]])
                e["res"] = {"k": "ok"}
            elif op == "setitem":
                c[e["i"]] = v.term(e["x"])
                e["res"] = {"k": "ok"}
            elif op == "delitem":
                del c[e["i"]]
                e["res"] = {"k": "ok"}
            elif op == "add_at_position":
                c.add_at_position(e["i"], v.term(e["x"]))
                e["res"] = {"k": "ok"}
            elif op == "clear":
                c.clear()
                e["res"] = {"k": "ok"}
            elif op == "getitem":
                e["res"] = {"k": "val", "v": val(c[e["i"]])}
            elif op == "index":
                r = c.index(v.term(e["x"]))
                e["res"] = {"k": "val", "n": r} if isinstance(r, int) else {"k": "val", "n": -1, "note": repr(r)}
            elif op == "items":
                e["res"] = {"k": "val", "items": [val(x) for x in c.items()]}
            elif op == "len":
                e["res"] = {"k": "val", "n": len(c)}
            elif op == "anyone":
                e["res"] = {"k": "val", "v": val(c.anyone())}
            else:
                raise ValueError(op)
        except Exception as ex:     # noqa: BLE001
            e["res"] = {"k": "raise", "e": type(ex).__name__, "msg": str(ex)[:80]}
        observe(e)
        evs.append(e)
    return {"cfg": cfg, "ev": evs}
