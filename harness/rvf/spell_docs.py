"""C05: hand-enumerated alternative spellings of fixed graphs in RDF/XML and JSON-LD (the two syntaxes without a writer
machine).  Every entry: (format, name, document text, expected quads as abstract records)."""
from __future__ import annotations

from .shapes import I, Bn, L

E = "http://ex.example/v#"
D = "http://ex.example/doc/"
RDF = "http://www.w3.org/1999/02/22-rdf-syntax-ns#"
XSD = "http://www.w3.org/2001/XMLSchema#"
DEF = {"k": "default"}


def q(s, p, o, g=None):
    return [s, p, o, g or DEF]


S, O, T = I(D + "s"), I(D + "o"), I(E + "T")
P, Q, R, N, B = I(E + "p"), I(E + "q"), I(E + "r"), I(E + "n"), I(E + "b")
TYPE, FIRST, REST, NIL = I(RDF + "type"), I(RDF + "first"), I(RDF + "rest"), I(RDF + "nil")

# the graph most documents spell
G1 = [q(S, P, L("v")), q(S, Q, O), q(S, R, L("hallo", lang="de")), q(S, N, L("1", dt=XSD + "integer")), q(S, TYPE, T), q(S, B, Bn("x")), q(Bn("x"), P, L("w"))]
G_LIST = [q(S, P, Bn("c1")), q(Bn("c1"), FIRST, O), q(Bn("c1"), REST, Bn("c2")), q(Bn("c2"), FIRST, I(D + "o2")), q(Bn("c2"), REST, NIL)]
G_CHARS = [q(S, P, L("a<b&c>\"d'é\U0001F600 \t\nz"))]

HEAD = '<?xml version="1.0" encoding="utf-8"?>\n'
NSDECL = 'xmlns:rdf="%s" xmlns:e="%s"' % (RDF, E)

XML = [
    ("plain", HEAD + '<rdf:RDF %s>\n <rdf:Description rdf:about="%ss">\n  <e:p>v</e:p>\n  <e:q rdf:resource="%so"/>\n  <e:r xml:lang="de">hallo</e:r>\n'
     '  <e:n rdf:datatype="%sinteger">1</e:n>\n  <rdf:type rdf:resource="%sT"/>\n  <e:b rdf:nodeID="x"/>\n </rdf:Description>\n'
     ' <rdf:Description rdf:nodeID="x"><e:p>w</e:p></rdf:Description>\n</rdf:RDF>' % (NSDECL, D, D, XSD, E), G1),
    ("typed-node+attributes", HEAD + '<rdf:RDF %s>\n <e:T rdf:about="%ss" e:p="v">\n  <e:q rdf:resource="%so"/>\n  <e:r xml:lang="de">hallo</e:r>\n'
     '  <e:n rdf:datatype="%sinteger">1</e:n>\n  <e:b><rdf:Description e:p="w"/></e:b>\n </e:T>\n</rdf:RDF>' % (NSDECL, D, D, XSD), G1),
    ("nested+parseType-Resource", HEAD + '<rdf:RDF %s xml:lang="de">\n <rdf:Description rdf:about="%ss">\n  <e:p xml:lang="">v</e:p>\n  <e:q><rdf:Description rdf:about="%so"/></e:q>\n  <e:r>hallo</e:r>\n'
     '  <e:n rdf:datatype="%sinteger">1</e:n>\n  <rdf:type><rdf:Description rdf:about="%sT"/></rdf:type>\n  <e:b rdf:parseType="Resource"><e:p xml:lang="">w</e:p></e:b>\n </rdf:Description>\n</rdf:RDF>' % (NSDECL, D, D, XSD, E), G1),
    ("xml-base+relative+ID", HEAD + '<rdf:RDF %s xml:base="%sbase">\n <rdf:Description rdf:about="s">\n  <e:p>v</e:p>\n  <e:q rdf:resource="o"/>\n  <e:r xml:lang="de">hallo</e:r>\n'
     '  <e:n rdf:datatype="%sinteger">1</e:n>\n  <rdf:type rdf:resource="%sT"/>\n  <e:b rdf:nodeID="x"/>\n </rdf:Description>\n'
     ' <rdf:Description rdf:nodeID="x"><e:p>w</e:p></rdf:Description>\n</rdf:RDF>' % (NSDECL, D, XSD, E), G1),
    ("default-namespace+entities", HEAD + '<!DOCTYPE rdf:RDF [ <!ENTITY d "%s"> <!ENTITY xsd "%s"> ]>\n<rdf:RDF xmlns:rdf="%s" xmlns="%s">\n <T rdf:about="&d;s">\n  <p>v</p>\n  <q rdf:resource="&d;o"/>\n  <r xml:lang="de">hallo</r>\n'
     '  <n rdf:datatype="&xsd;integer">1</n>\n  <b rdf:nodeID="x"/>\n </T>\n <rdf:Description rdf:nodeID="x"><p>w</p></rdf:Description>\n</rdf:RDF>' % (D, XSD, RDF, E), G1),
    ("single-quotes+whitespace+comments", HEAD + "<!-- c -->\n<rdf:RDF\n   xmlns:rdf='%s'\n   xmlns:e='%s' >\n <!-- c -->\n <rdf:Description  rdf:about = '%ss' >\n  <e:p >v</e:p >\n  <e:q rdf:resource='%so' ></e:q>\n  <e:r xml:lang='de'>hallo</e:r>\n"
     "  <e:n rdf:datatype='%sinteger'>1</e:n>\n  <rdf:type rdf:resource='%sT'/>\n  <e:b rdf:nodeID='x'/>\n </rdf:Description>\n"
     " <rdf:Description rdf:nodeID='x'><e:p><![CDATA[w]]></e:p></rdf:Description>\n</rdf:RDF>\n<!-- end -->" % (RDF, E, D, D, XSD, E), G1),
    ("two-descriptions-same-subject", HEAD + '<rdf:RDF %s>\n <rdf:Description rdf:about="%ss"><e:p>v</e:p><e:q rdf:resource="%so"/></rdf:Description>\n'
     ' <rdf:Description rdf:about="%ss"><e:r xml:lang="de">hallo</e:r><e:n rdf:datatype="%sinteger">1</e:n><rdf:type rdf:resource="%sT"/><e:b rdf:nodeID="x"/></rdf:Description>\n'
     ' <rdf:Description rdf:nodeID="x"><e:p>w</e:p></rdf:Description>\n</rdf:RDF>' % (NSDECL, D, D, D, XSD, E), G1),
    ("no-rdf-RDF-wrapper", HEAD + '<e:T %s rdf:about="%ss" e:p="v">\n  <e:q rdf:resource="%so"/>\n  <e:r xml:lang="de">hallo</e:r>\n'
     '  <e:n rdf:datatype="%sinteger">1</e:n>\n  <e:b><rdf:Description e:p="w"/></e:b>\n</e:T>' % (NSDECL, D, D, XSD), G1),
    ("collection", HEAD + '<rdf:RDF %s>\n <rdf:Description rdf:about="%ss">\n  <e:p rdf:parseType="Collection">\n   <rdf:Description rdf:about="%so"/>\n   <rdf:Description rdf:about="%so2"/>\n  </e:p>\n </rdf:Description>\n</rdf:RDF>' % (NSDECL, D, D, D), G_LIST),
    ("collection-explicit", HEAD + '<rdf:RDF %s>\n <rdf:Description rdf:about="%ss">\n  <e:p><rdf:Description><rdf:first rdf:resource="%so"/><rdf:rest><rdf:Description><rdf:first rdf:resource="%so2"/>'
     '<rdf:rest rdf:resource="%snil"/></rdf:Description></rdf:rest></rdf:Description></e:p>\n </rdf:Description>\n</rdf:RDF>' % (NSDECL, D, D, D, RDF), G_LIST),
    ("chars-entities", HEAD + '<rdf:RDF %s>\n <rdf:Description rdf:about="%ss"><e:p>a&lt;b&amp;c&gt;&quot;d&apos;&#xE9;&#x1F600; &#9;&#10;z</e:p></rdf:Description>\n</rdf:RDF>' % (NSDECL, D), G_CHARS),
    ("chars-cdata+attribute", HEAD + '<rdf:RDF %s>\n <rdf:Description rdf:about="%ss" e:p="a&lt;b&amp;c>&quot;d\'é\U0001F600 &#9;&#10;z"/>\n</rdf:RDF>' % (NSDECL, D), G_CHARS),
    ("chars-cdata", HEAD + '<rdf:RDF %s>\n <rdf:Description rdf:about="%ss"><e:p><![CDATA[a<b&c>"d\'é\U0001F600 \t\nz]]></e:p></rdf:Description>\n</rdf:RDF>' % (NSDECL, D), G_CHARS),
    ("li", HEAD + '<rdf:RDF %s>\n <rdf:Seq rdf:about="%ss"><rdf:li>a</rdf:li><rdf:li rdf:resource="%so"/><rdf:_5>c</rdf:_5><rdf:li>d</rdf:li></rdf:Seq>\n</rdf:RDF>' % (NSDECL, D, D),
     [q(S, TYPE, I(RDF + "Seq")), q(S, I(RDF + "_1"), L("a")), q(S, I(RDF + "_2"), O), q(S, I(RDF + "_5"), L("c")), q(S, I(RDF + "_3"), L("d"))]),
    ("ID-reification", HEAD + '<rdf:RDF %s xml:base="%sbase">\n <rdf:Description rdf:about="%ss"><e:p rdf:ID="st">v</e:p></rdf:Description>\n</rdf:RDF>' % (NSDECL, D, D),
     [q(S, P, L("v")), q(I(D + "base#st"), TYPE, I(RDF + "Statement")), q(I(D + "base#st"), I(RDF + "subject"), S), q(I(D + "base#st"), I(RDF + "predicate"), P), q(I(D + "base#st"), I(RDF + "object"), L("v"))]),
    ("utf-16", None, G1),       # filled below: the plain document encoded as UTF-16 with its own XML declaration
]
XML[-1] = ("utf-16", XML[0][1].replace('encoding="utf-8"', 'encoding="utf-16"'), G1)

CTX = '{"e": "%s", "xsd": "%s"}' % (E, XSD)
JSONLD = [
    ("expanded", '[{"@id": "%ss", "@type": ["%sT"], "%sp": [{"@value": "v"}], "%sq": [{"@id": "%so"}], "%sr": [{"@value": "hallo", "@language": "de"}], '
     '"%sn": [{"@value": "1", "@type": "%sinteger"}], "%sb": [{"@id": "_:x"}]}, {"@id": "_:x", "%sp": [{"@value": "w"}]}]' % (D, E, E, E, D, E, E, XSD, E, E), G1),
    ("compact-prefixes", '{"@context": %s, "@graph": [{"@id": "%ss", "@type": "e:T", "e:p": "v", "e:q": {"@id": "%so"}, "e:r": {"@value": "hallo", "@language": "de"}, '
     '"e:n": {"@value": "1", "@type": "xsd:integer"}, "e:b": {"@id": "_:x"}}, {"@id": "_:x", "e:p": "w"}]}' % (CTX, D, D), G1),
    ("vocab+base+coercion", '{"@context": {"@vocab": "%s", "@base": "%s", "xsd": "%s", "q": {"@type": "@id"}, "n": {"@type": "xsd:integer"}, "r": {"@language": "de"}}, '
     '"@id": "s", "@type": "T", "p": "v", "q": "o", "r": "hallo", "n": "1", "b": {"p": "w"}}' % (E, D, XSD), G1),
    ("native-number+nested+aliases", '{"@context": {"e": "%s", "id": "@id", "type": "@type", "e:q": {"@type": "@id"}, "@language": "de"}, '
     '"id": "%ss", "type": "e:T", "e:p": {"@value": "v"}, "e:q": "%so", "e:r": "hallo", "e:n": 1, "e:b": {"id": "_:x", "e:p": {"@value": "w"}}}' % (E, D, D), G1),
    ("language-map+reverse", '{"@context": {"e": "%s", "xsd": "%s", "r": {"@id": "e:r", "@container": "@language"}, "bOf": {"@reverse": "e:b"}}, '
     '"@graph": [{"@id": "%ss", "@type": "e:T", "e:p": "v", "e:q": {"@id": "%so"}, "r": {"de": "hallo"}, "e:n": {"@value": "1", "@type": "xsd:integer"}}, {"@id": "_:x", "e:p": "w", "bOf": {"@id": "%ss"}}]}' % (E, XSD, D, D, D), G1),
    ("arrays+context-array+whitespace", '\n{ "@context" : [ {"e": "%s"} , {"xsd": "%s"} ] ,\n  "@graph" : [ { "@id" : "%ss" , "@type" : [ "e:T" ] , "e:p" : [ "v" ] , "e:q" : [ { "@id" : "%so" } ] ,\n'
     '  "e:r" : [ { "@value" : "hallo" , "@language" : "de" } ] , "e:n" : [ { "@value" : "1" , "@type" : "xsd:integer" } ] , "e:b" : [ { "@id" : "_:x" } ] } ,\n  { "@id" : "_:x" , "e:p" : "w" } ] }\n' % (E, XSD, D, D), G1),
    ("unicode-escapes", '{"@context": %s, "@id": "%ss", "e:p": "a<b&c>\\"d\'\\u00e9\\ud83d\\ude00 \\t\\nz"}' % (CTX, D), G_CHARS),
    ("raw-unicode", '{"@context": %s, "@id": "%ss", "e:p": "a<b&c>\\"d\'é\U0001F600 \\t\\nz"}' % (CTX, D), G_CHARS),
    ("list", '{"@context": {"e": "%s", "e:p": {"@container": "@list", "@type": "@id"}}, "@id": "%ss", "e:p": ["%so", "%so2"]}' % (E, D, D, D), G_LIST),
    ("list-object", '{"@context": {"e": "%s"}, "@id": "%ss", "e:p": {"@list": [{"@id": "%so"}, {"@id": "%so2"}]}}' % (E, D, D, D), G_LIST),
    ("named-graph", '{"@context": {"e": "%s"}, "@id": "%sg", "@graph": [{"@id": "%ss", "e:p": "v"}]}' % (E, D, D), [q(S, P, L("v"), I(D + "g"))]),
    ("booleans+doubles", '{"@context": {"e": "%s"}, "@id": "%ss", "e:p": true, "e:q": false, "e:r": 1.5, "e:n": 10}' % (E, D),
     [q(S, P, L("true", dt=XSD + "boolean")), q(S, Q, L("false", dt=XSD + "boolean")), q(S, R, L("1.5E0", dt=XSD + "double")), q(S, N, L("10", dt=XSD + "integer"))]),
]

# ---- JSON-LD context mechanics: embedded, property-scoped and type-scoped contexts; the same local context text under different
# enclosing contexts (prefix, @vocab, @language); @context null; term re-definition
A_, B_ = "http://a.example/", "http://b.example/"
S1, S2, O1, O2 = I(D + "s1"), I(D + "s2"), I(D + "o1"), I(D + "o2")


def _twice(outer_a, outer_b, inner, pa, pb, key, va, vb):
    return ('[{"@context": %s, "@id": "%ss1", "%s": {"@context": %s, "@id": "%so1", "%s": "%s"}}, {"@context": %s, "@id": "%ss2", "%s": {"@context": %s, "@id": "%so2", "%s": "%s"}}]'
            % (outer_a, D, pa, inner, D, key, va, outer_b, D, pb, inner, D, key, vb))


JSONLD += [
    ("ctx:embedded-twice-prefix", _twice('{"ex": "%s"}' % A_, '{"ex": "%s"}' % B_, '{"q": "ex:q"}', "ex:p", "ex:p", "q", "v1", "v2"),
     [q(S1, I(A_ + "p"), O1), q(O1, I(A_ + "q"), L("v1")), q(S2, I(B_ + "p"), O2), q(O2, I(B_ + "q"), L("v2"))]),
    ("ctx:embedded-twice-vocab", _twice('{"@vocab": "%s"}' % A_, '{"@vocab": "%s"}' % B_, '{"lbl": {"@id": "label"}}', "child", "child", "lbl", "x", "y"),
     [q(S1, I(A_ + "child"), O1), q(O1, I(A_ + "label"), L("x")), q(S2, I(B_ + "child"), O2), q(O2, I(B_ + "label"), L("y"))]),
    ("ctx:embedded-twice-language", _twice('{"@language": "en", "e": "%s"}' % E, '{"@language": "de", "e": "%s"}' % E, '{"t": "e:t"}', "e:p", "e:p", "t", "hello", "hallo"),
     [q(S1, P, O1), q(O1, I(E + "t"), L("hello", lang="en")), q(S2, P, O2), q(O2, I(E + "t"), L("hallo", lang="de"))]),
    ("ctx:same-enclosing-twice", _twice('{"ex": "%s"}' % A_, '{"ex": "%s"}' % A_, '{"q": "ex:q"}', "ex:p", "ex:p", "q", "v1", "v2"),
     [q(S1, I(A_ + "p"), O1), q(O1, I(A_ + "q"), L("v1")), q(S2, I(A_ + "p"), O2), q(O2, I(A_ + "q"), L("v2"))]),
    ("ctx:property-scoped", '{"@context": {"e": "%s", "p": {"@id": "e:p", "@context": {"q": "e:inner"}}, "q": "e:outer"}, "@id": "%ss1", "q": "out", "p": {"@id": "%so1", "q": "in"}}' % (E, D, D),
     [q(S1, I(E + "outer"), L("out")), q(S1, P, O1), q(O1, I(E + "inner"), L("in"))]),
    ("ctx:type-scoped", '{"@context": {"e": "%s", "T": {"@id": "e:T", "@context": {"q": "e:forT"}}, "q": "e:plain"}, "@graph": [{"@id": "%ss1", "@type": "T", "q": "a"}, {"@id": "%so1", "q": "b"}]}' % (E, D, D),
     [q(S1, TYPE, I(E + "T")), q(S1, I(E + "forT"), L("a")), q(O1, I(E + "plain"), L("b"))]),
    ("ctx:null-reset", '{"@context": {"e": "%s", "p": "e:p"}, "@id": "%ss1", "p": {"@context": [null, {"p": "%sp"}], "@id": "%so1", "p": "v"}}' % (E, D, B_, D),
     [q(S1, P, O1), q(O1, I(B_ + "p"), L("v"))]),
    ("ctx:redefinition-in-array", '{"@context": [{"e": "%s", "p": "e:p"}, {"p": "e:q"}], "@id": "%ss1", "p": "v"}' % (E, D), [q(S1, Q, L("v"))]),
    ("ctx:nested-inherits-then-overrides", '{"@context": {"e": "%s", "p": "e:p", "q": "e:q"}, "@id": "%ss1", "p": {"@context": {"q": "e:r"}, "@id": "%so1", "q": "in", "p": {"@id": "%so2", "q": "deeper"}}, "q": "out"}' % (E, D, D, D),
     [q(S1, P, O1), q(O1, R, L("in")), q(O1, P, O2), q(O2, R, L("deeper")), q(S1, Q, L("out"))]),
]


def all_docs():
    out = []
    for name, text, quads in XML:
        out.append(("xml", name, text, quads))
    for name, text, quads in JSONLD:
        out.append(("json-ld", name, text, quads))
    return out
