"""C20: drive SPARQLUpdateStore against an in-process loopback SPARQL endpoint (rdflib's own engine over a Dataset whose
default graph is NOT called urn:x-rdflib:default, as on any third-party endpoint) and record, after every call, the
endpoint's quads read directly, for TraceSparqlStore.tla."""
from __future__ import annotations

import io
import warnings
from urllib.error import HTTPError
from urllib.parse import parse_qs, urlsplit

from rdflib import BNode, Dataset, Graph, Literal, URIRef, Variable
from rdflib.graph import DATASET_DEFAULT_GRAPH_ID
from rdflib.plugins.stores import sparqlconnector
from rdflib.plugins.stores.sparqlstore import SPARQLUpdateStore

warnings.simplefilter("ignore")
EX = "http://ex.example/c20/"
ENDPOINT_DEFAULT = URIRef("urn:endpoint:the-default-graph")
XSD = "http://www.w3.org/2001/XMLSchema#"

OBJECTS = {
    "plain": [URIRef(EX + "o1"), Literal("v")],
    "hostile": [Literal('a"b\'c\\d\ne\tf\r'), Literal("é\U0001F600 <x> & {y}", lang="en-GB")],
    "typed": [Literal("1", datatype=URIRef(XSD + "integer")), Literal("x", datatype=URIRef(EX + "dt"))],
    "falsy": [Literal(""), Literal("0", datatype=URIRef(XSD + "integer"))],
    "longquote": [Literal('"""'), Literal("'''\\")],
    "lang": [Literal("chat", lang="fr"), Literal("chat")],
    # the keyword of the syntax as ordinary text: in a literal, in an IRI, with braces around it
    "graphword": [Literal("a bar graph { of it }"), URIRef(EX + "graph/GRAPH")],
    # numbers whose lexical form a shorthand / %-formatting would not keep: many significant digits, exponent forms, decimals with trailing zeros
    "numbers": [Literal("52.3702157", datatype=URIRef(XSD + "double")), Literal("3.141592653589793E0", datatype=URIRef(XSD + "double"))],
    "numbers2": [Literal(1.000000001), Literal("1.50", datatype=URIRef(XSD + "decimal"))],
    "numbers3": [Literal("+5", datatype=URIRef(XSD + "integer")), Literal("1e3", datatype=URIRef(XSD + "float"))],
    "keywords": [Literal("INSERT DATA { GRAPH <x> { } } WHERE"), Literal("} GRAPH ?g {", lang="en")],
}


class Vocab:
    def __init__(self, name):
        o = OBJECTS[name]
        self.c = {"s1": URIRef(EX + "s1"), "s2": URIRef(EX + "s2"), "p1": URIRef(EX + "p1"), "p2": URIRef(EX + "p#2"), "o1": o[0], "o2": o[1],
                  "g1": URIRef(EX + "g1"), "g2": URIRef(EX + "g/2")}
        self.a = {v: k for k, v in self.c.items()}

    def conc(self, x):
        return None if x == "_" else self.c[x]

    def abst(self, x):
        if x in self.a:
            return self.a[x]
        return "?" + (x.n3() if hasattr(x, "n3") else repr(x))


class Response:
    def __init__(self, body, ctype):
        self._b = body
        self.headers = {"Content-Type": ctype}

    def read(self):
        return self._b


class Endpoint:
    """SPARQL 1.1 Protocol over a Dataset; default-graph-uri honoured; XML or JSON results per Accept"""

    def __init__(self):
        self.ds = Dataset()
        # a third-party endpoint has no graph called urn:x-rdflib:default: what is sent there lands in a named graph
        self.ds.default_context = Graph(store=self.ds.store, identifier=ENDPOINT_DEFAULT)
        self.ds.store.remove_graph(Graph(store=self.ds.store, identifier=DATASET_DEFAULT_GRAPH_ID))
        self.requests = []

    def urlopen(self, req, *a, **kw):
        url = req.full_url
        parts = urlsplit(url)
        params = {k: v for k, v in parse_qs(parts.query, keep_blank_values=True).items()}
        headers = {k.lower(): v for k, v in req.header_items()}
        ctype = headers.get("content-type", "")
        body = req.data
        kind = parts.path.rstrip("/").rsplit("/", 1)[-1]
        try:
            if kind == "update":
                text = body.decode("utf-8")
                self.requests.append(("update", text))
                self.ds.update(text)
                return Response(b"", "text/plain")
            if req.get_method() == "GET":
                query = params["query"][0]
            elif ctype.startswith("application/sparql-query"):
                query = body.decode("utf-8")
            else:
                form = parse_qs(body.decode("utf-8"), keep_blank_values=True)
                query = form["query"][0]
                params.update({k: v for k, v in form.items() if k != "query"})
            self.requests.append(("query", query, params.get("default-graph-uri")))
            dg = params.get("default-graph-uri")
            target = self.ds if not dg else self.ds.get_context(URIRef(dg[0]))
            res = target.query(query)
            accept = headers.get("accept", "")
            fmt, mime = ("json", "application/sparql-results+json") if accept.find("json") >= 0 and (accept.find("xml") < 0 or accept.find("json") < accept.find("xml")) else ("xml", "application/sparql-results+xml")
            out = io.BytesIO()
            res.serialize(out, format=fmt)
            return Response(out.getvalue(), mime)
        except HTTPError:
            raise
        except Exception as ex:     # noqa: BLE001
            raise HTTPError(url, 400, "endpoint rejected the request: %s: %s" % (type(ex).__name__, str(ex)[:200]), None, None)

    def quads(self, v):
        out = []
        for s, p, o, c in self.ds.quads():
            ident = c.identifier if isinstance(c, Graph) else c
            g = "D" if ident == ENDPOINT_DEFAULT else v.abst(ident)
            out.append([v.abst(s), v.abst(p), v.abst(o), g])
        return out

    def graph_names(self, v):
        return ["D" if c.identifier == ENDPOINT_DEFAULT else v.abst(c.identifier) for c in self.ds.contexts()]


def replay(cfg, events):
    v = Vocab(cfg.get("vocab", "plain"))
    ep = Endpoint()
    old = sparqlconnector.urlopen
    sparqlconnector.urlopen = ep.urlopen
    evs = []
    try:
        store = SPARQLUpdateStore(query_endpoint="http://loopback.invalid/query", update_endpoint="http://loopback.invalid/update",
                                  autocommit=cfg["autocommit"], dirty_reads=cfg["dirty_reads"], method=cfg.get("method", "GET"),
                                  returnFormat=cfg.get("format", "xml"), **({"params": {"infer": "false"}, "headers": {"X-App": "rvf"}} if cfg.get("params") else {}))

        def facade(g):
            return Graph(store, identifier=DATASET_DEFAULT_GRAPH_ID if g == "D" else v.c[g])
        for e in events:
            e = dict(e)
            op = e["op"]
            try:
                if op == "add":
                    facade(e["g"]).add(tuple(v.conc(x) for x in e["t"]))
                elif op == "addN":
                    e["quads"] = [list(q) for q in e["quads"]]
                    store.addN([(v.conc(q[0]), v.conc(q[1]), v.conc(q[2]), facade(q[3])) for q in e["quads"]])
                elif op == "remove":
                    facade(e["g"]).remove(tuple(v.conc(x) for x in e["pat"]))
                elif op == "remove_graph":
                    store.remove_graph(facade(e["g"]))
                elif op == "add_graph":
                    store.add_graph(facade(e["g"]))
                elif op == "update":
                    s, p, o = (v.conc(x).n3() for x in e["t"])
                    if e["kind"] == "insertdata":
                        text = "INSERT DATA { %s %s %s }" % (s, p, o)
                    elif e["kind"] == "deletedata":
                        text = "DELETE DATA { %s %s %s }" % (s, p, o)
                    else:
                        text = "DELETE { %s %s ?o } INSERT { %s %s %s } WHERE { %s %s ?o }" % (s, p, s, p, v.conc(e["o2"]).n3(), s, p)
                    form = e.get("form", "ground")
                    if e["kind"] == "replace" and form != "ground":
                        # the same operation with the subject supplied through initBindings; the WHERE keyword in any case
                        kw = {"bound_upper": "WHERE", "bound_lower": "where", "bound_mixed": "Where"}[form]
                        text = "DELETE { ?s %s ?o } INSERT { ?s %s %s } %s { ?s %s ?o }" % (p, p, v.conc(e["o2"]).n3(), kw, p)
                        facade(e["g"]).update(text, initBindings={"s": v.conc(e["t"][0])})
                    else:
                        facade(e["g"]).update(text)
                elif op == "commit":
                    store.commit()
                elif op == "rollback":
                    store.rollback()
                elif op == "triples":
                    e["result"] = [[v.abst(x) for x in t] for t in facade(e["g"]).triples(tuple(v.conc(x) for x in e["pat"]))]
                elif op == "query":
                    pat = [v.conc(x) for x in e["pat"]]
                    names = ["s", "p", "o"]
                    text = "SELECT %s WHERE { %s }" % (" ".join("?" + n for n, x in zip(names, pat) if x is None) or "*", " ".join("?" + n if x is None else x.n3() for n, x in zip(names, pat)))
                    # .bindings, not iteration: iterating a Result skips a solution that binds nothing (SELECT * over a ground pattern)
                    res = []
                    for b in facade(e["g"]).query(text).bindings:
                        res.append([v.abst(b[Variable(names[i])]) if x is None else e["pat"][i] for i, x in enumerate(pat)])
                    e["result"] = res
                elif op == "len":
                    e["result"] = len(facade(e["g"]))
                elif op == "contains":
                    e["result"] = tuple(v.conc(x) for x in e["t"]) in facade(e["g"])
                elif op == "contexts_of":
                    e["result"] = [v.abst(c if not isinstance(c, Graph) else c.identifier) for c in store.contexts(tuple(v.conc(x) for x in e["t"]))]
                elif op == "contexts":
                    e["result"] = [v.abst(c if not isinstance(c, Graph) else c.identifier) for c in store.contexts()]
                else:
                    raise ValueError(op)
            except Exception as ex:      # noqa: BLE001
                e["raise"] = type(ex).__name__ + ": " + str(ex)[:300]
            e["endpoint"] = ep.quads(v)
            e["endpoint_graphs"] = ep.graph_names(v)
            e["queued"] = len(store._edits or [])
            evs.append(e)
    finally:
        sparqlconnector.urlopen = old
    return {"cfg": cfg, "ev": evs, "requests": [list(r)[:2] for r in ep.requests[-6:]]}
