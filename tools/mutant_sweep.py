#!/usr/bin/env python3
"""tools/mutant_sweep.py [ID-mK ...] — apply every stored seeded change to /repo in turn, run the quick check of its property
(plus the checks named in meta.json "also_check"), restore /repo straight afterwards, and write seeded/DETECTION.json.

Never run while another check uses /repo (the change is applied to the live working tree for the duration of one check).
"""
import json
import os
import re
import subprocess
import sys

V = "/verif"
SEEDED = os.path.join(V, "seeded")


def sh(*a, **k):
    return subprocess.run(a, capture_output=True, text=True, **k)


def main():
    want = sys.argv[1:]
    ids = sorted(d for d in os.listdir(SEEDED) if re.fullmatch(r"[CG]\d\d-m\d+", d))
    if want:
        ids = [i for i in ids if i in want or i.split("-")[0] in want]
    if sh("git", "-C", "/repo", "diff", "--quiet").returncode != 0:
        print("/repo has uncommitted changes")
        return 2
    path = os.path.join(SEEDED, "DETECTION.json")
    table = json.load(open(path)) if os.path.exists(path) else {}
    for i in ids:
        d = os.path.join(SEEDED, i)
        prop = i.split("-")[0]
        meta = json.load(open(os.path.join(d, "meta.json"))) if os.path.exists(os.path.join(d, "meta.json")) else {}
        checks = [prop] + [c for c in meta.get("also_check", []) if c != prop]
        row = {}
        if sh("git", "-C", "/repo", "apply", "--check", os.path.join(d, "patch.diff")).returncode != 0:
            table[i] = {"applies": False}
            print(i, "patch does not apply to the current tree")
            continue
        for c in checks:
            sh("git", "-C", "/repo", "apply", os.path.join(d, "patch.diff"))
            try:
                r = sh(os.path.join(V, "bin/check"), c, "--tier", "quick", cwd=V, env=dict(os.environ, VERIF_EVIDENCE_DIR="/tmp/mutant_evidence"))
            finally:
                sh("git", "-C", "/repo", "checkout", "--", ".")
            clauses = {}
            for line in r.stdout.splitlines():
                if line.startswith("VIOLATION"):
                    m = re.search(r"clause=(\S+)", line)
                    k = m.group(1) if m else "?"
                    clauses[k] = clauses.get(k, 0) + 1
            row[c] = {"rc": r.returncode, "violations": sum(clauses.values()), "clauses": clauses}
            print(i, c, "rc=%d" % r.returncode, clauses, flush=True)
        table[i] = {"applies": True, "checks": row, "detected": any(v["rc"] == 1 and v["violations"] for v in row.values())}
        json.dump(table, open(path, "w"), indent=1, sort_keys=True)
    missed = [i for i in ids if table.get(i, {}).get("applies") and not table[i]["detected"]]
    print("swept %d, detected %d, missed %s, not applicable %s" % (len(ids), sum(1 for i in ids if table.get(i, {}).get("detected")), missed,
                                                                  [i for i in ids if not table.get(i, {}).get("applies")]))
    return 0


if __name__ == "__main__":
    sys.exit(main())
