#!/usr/bin/env python3
"""tools/mutant_sweep.py [-j N] [ID-mK | PROP ...] — run the quick check of every stored seeded change against a scratch worktree of
/repo's HEAD with the change applied (RVF_REPO; /repo itself is never touched), plus the checks named in meta.json "also_check";
write seeded/DETECTION.json (the record of which check catches which change, and with which clauses).

A change whose patch no longer applies to the current tree (a later fix: commit rewrote the same lines) is recorded as such.
"""
import concurrent.futures
import json
import os
import re
import subprocess
import sys

V = "/verif"
SEEDED = os.path.join(V, "seeded")


def sh(*a, **k):
    return subprocess.run(a, capture_output=True, text=True, **k)


def one(i):
    d = os.path.join(SEEDED, i)
    prop = i.split("-")[0]
    meta = json.load(open(os.path.join(d, "meta.json"))) if os.path.exists(os.path.join(d, "meta.json")) else {}
    checks = [prop] + [c for c in meta.get("also_check", []) if c != prop]
    w = "/tmp/wtsweep-%s" % i
    sh("git", "-C", "/repo", "worktree", "remove", "--force", w)
    if sh("git", "-C", "/repo", "worktree", "add", "-q", "--detach", w, "HEAD").returncode != 0:
        return i, {"applies": None, "error": "worktree"}
    try:
        if sh("git", "-C", w, "apply", os.path.join(d, "patch.diff")).returncode != 0:
            return i, {"applies": False}
        row = {}
        for c in checks:
            r = sh(os.path.join(V, "bin/check"), c, "--tier", "quick", cwd=V, env=dict(os.environ, RVF_REPO=w, VERIF_EVIDENCE_DIR="/tmp/mutant_evidence/" + i))
            clauses = {}
            for line in r.stdout.splitlines():
                if line.startswith("VIOLATION"):
                    m = re.search(r"clause=(\S+)", line)
                    k = m.group(1) if m else "?"
                    clauses[k] = clauses.get(k, 0) + 1
            row[c] = {"rc": r.returncode, "violations": sum(clauses.values()), "clauses": clauses}
        res = {"applies": True, "checks": row, "detected": any(v["rc"] == 1 and v["violations"] for v in row.values())}
        if not res["detected"] and os.path.exists(os.path.join(d, "demo.py")):
            # does the change still break the property on today's tree?  (a later fix: commit may have made it harmless)
            r = sh("/venv/bin/python", os.path.join(d, "demo.py"), cwd=w, env=dict(os.environ, PYTHONPATH=w))
            res["demo_rc_with_change"] = r.returncode
        return i, res
    finally:
        sh("git", "-C", "/repo", "worktree", "remove", "--force", w)


def main():
    args = sys.argv[1:]
    jobs = 3
    if args[:1] == ["-j"]:
        jobs = int(args[1])
        args = args[2:]
    ids = sorted(d for d in os.listdir(SEEDED) if re.fullmatch(r"[CG]\d\d-m\d+", d))
    if args:
        ids = [i for i in ids if i in args or i.split("-")[0] in args]
    path = os.path.join(SEEDED, "DETECTION.json")
    table = json.load(open(path)) if os.path.exists(path) else {}
    with concurrent.futures.ThreadPoolExecutor(jobs) as ex:
        for i, row in ex.map(one, ids):
            table[i] = row
            print(i, row.get("applies"), row.get("detected"), {c: v["clauses"] for c, v in row.get("checks", {}).items()}, flush=True)
            json.dump(table, open(path, "w"), indent=1, sort_keys=True)
    missed = [i for i in ids if table.get(i, {}).get("applies") and not table[i]["detected"]]
    print("swept %d, detected %d, missed %s, no longer applicable %s" % (len(ids), sum(1 for i in ids if table.get(i, {}).get("detected")), missed,
                                                                          [i for i in ids if table.get(i, {}).get("applies") is False]))
    return 0


if __name__ == "__main__":
    sys.exit(main())
