#!/usr/bin/env python3
"""tools/mkmeta.py — write / refresh seeded/<ID>-m<k>/meta.json from the demonstration's docstring and seeded/DETECTION.json.

An existing meta.json keeps its hand-written fields (needs_to_manifest, notes, also_check); "detected_by" is refreshed from the
last sweep (tools/mutant_sweep.py) unless the file says "detected_by_fixed": true.
"""
import ast
import json
import os
import re

SEEDED = "/verif/seeded"
det = json.load(open(os.path.join(SEEDED, "DETECTION.json"))) if os.path.exists(os.path.join(SEEDED, "DETECTION.json")) else {}
for i in sorted(os.listdir(SEEDED)):
    if not re.fullmatch(r"[CG]\d\d-m\d+", i):
        continue
    d = os.path.join(SEEDED, i)
    mp = os.path.join(d, "meta.json")
    meta = json.load(open(mp)) if os.path.exists(mp) else {}
    prop = i.split("-")[0]
    k = int(i.split("-m")[1])
    try:
        doc = ast.get_docstring(ast.parse(open(os.path.join(d, "demo.py")).read())) or ""
    except Exception:
        doc = ""
    files = sorted(set(re.findall(r"^\+\+\+ b/(\S+)", open(os.path.join(d, "patch.diff")).read(), re.M)))
    meta.setdefault("property", prop)
    meta.setdefault("breaks", prop)
    meta.setdefault("round", 1 if k <= 3 else 2 if k <= 6 else 3 if k <= 9 else 4)
    meta["files"] = files
    meta.setdefault("needs_to_manifest", re.sub(r"\s+", " ", doc)[:700])
    meta.setdefault("origin", "independent sub-agent given only the property text and a scratch worktree")
    meta.setdefault("confirmed", "bin/confirm_mutant: demo exits 0 on unchanged tree, non-zero with the change; bin/run_suite (whole test suite, sharded) shows the same failing ids as the unchanged tree")
    row = det.get(i)
    if row is not None and not meta.get("detected_by_fixed"):
        if row.get("applies") is False:
            meta["detected_by"] = "patch no longer applies to the current tree (the lines were rewritten by a later fix: commit); last detection result kept in the git history of this file"
        elif row.get("applies"):
            parts = []
            for c, v in row["checks"].items():
                if v["rc"] == 1 and v["violations"]:
                    parts.append("bin/check %s --tier quick -> VIOLATION, clauses %s" % (c, ", ".join(sorted(v["clauses"]))))
            if parts:
                meta["detected_by"] = "; ".join(parts)
            elif row.get("demo_rc_with_change") == 0:
                meta["detected_by"] = "no longer breaks the property: the demonstration passes with the change applied to the current tree (made harmless by a later fix: commit)"
            else:
                meta["detected_by"] = "NOT DETECTED by the quick tier of " + ", ".join(row["checks"])
    elif "detected_by" not in meta:
        meta["detected_by"] = "not re-swept against the final checks (the last sweep ran out of machine time); see DESIGN.md 0.5 for the round this change belongs to"
    json.dump(meta, open(mp, "w"), indent=1, ensure_ascii=False)
print("meta.json written for", sum(1 for i in os.listdir(SEEDED) if re.fullmatch(r"[CG]\d\d-m\d+", i)), "seeded changes")
