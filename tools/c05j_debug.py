"""tools/c05x_debug.py <seed> <num> [show] — RDF/XML writer machine: export plans, render, parse, validate; list rejected documents"""
import sys, collections, json, os, shutil
sys.path.insert(0, "/verif/harness"); sys.path.insert(0, "/repo")
from rvf import tlc
from rvf.props import c05
seed, num = int(sys.argv[1]), int(sys.argv[2])
r, plans = c05.jsonld_plans(num, seed)
print("plans", len(plans))
trs = []
for i, p in enumerate(plans):
    t = c05.execute({"cfg": {}, "events": [{"op": "spell_plan", "fmt": "json-ld", "plan": p, "seed": seed * 1000 + i, "routes": ["str", "bytes"], "family": "jsonld-machine"}]})
    t["tid"] = i
    trs.append(t)
try:
    r, v = tlc.validate_batch("TraceSpell", trs, heap="2g", timeout=900)
except tlc.MachineryError as ex:
    s = str(ex); print(s[:300]); print(s[-1500:]); sys.exit(2)
by = collections.defaultdict(list)
for t in trs:
    by[v[t["tid"]][0]].append(t)
for c in sorted(by):
    print("==", c, len(by[c]))
    if c != "ok":
        for t in by[c][:int(sys.argv[3]) if len(sys.argv) > 3 else 2]:
            e = t["ev"][0]
            print(e["text"])
            print("  tokens:", json.dumps(plans[t["tid"]]["doc"], ensure_ascii=False)[:1800])
            print("  expected:", sorted(json.dumps(q[:3], ensure_ascii=False) for q in e["expected"]))
            for rt in e["routes"][:1]:
                print("  got     :", sorted(json.dumps(q[:3], ensure_ascii=False) for q in rt["quads"]), rt.get("msg", ""))
