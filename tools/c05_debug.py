"""debug helper: run a few C05 jobs of one kind and print verdicts"""
import sys, random, collections, time
sys.path.insert(0, "/verif/harness")
from rvf import tlc
from rvf.props import c05
kind, num, seed = sys.argv[1], int(sys.argv[2]), int(sys.argv[3])
r, ps = c05.plans(kind, num, seed, stmts=3 if kind in ("turtle", "trig") else 4, tokens=30 if kind in ("turtle", "trig") else 16)
print("plans", len(ps), "generated states", r.generated)
jobs = [{"cfg": {}, "events": [{"op": "spell_plan", "fmt": kind, "plan": p, "seed": seed * 1000 + i, "routes": ["str", "bytes"], "family": "machine"}]} for i, p in enumerate(ps)]
trs = []
t0 = time.time()
for i, j in enumerate(jobs):
    t = c05.execute(j); t["tid"] = i; trs.append(t)
print("replayed", time.time() - t0)
t0 = time.time()
r, v = tlc.validate_batch("TraceSpell", trs, heap="2g", timeout=600)
print("validated", time.time() - t0)
by = collections.defaultdict(list)
for t in trs:
    by[v[t["tid"]][0]].append(t)
for c in sorted(by):
    print("==", c, len(by[c]))
    if c != "ok":
        for t in by[c][:int(sys.argv[4]) if len(sys.argv) > 4 else 3]:
            e = t["ev"][0]
            print("--- text:"); print(e["text"])
            print("    routes:", [(r["route"], r["res"], r.get("msg", "")[:150]) for r in e["routes"]])
            import json
            json.dump(e, open("/tmp/c05_fail_%s_%d.json" % (c.split(":")[0], by[c].index(t)), "w"))
            if c.startswith("Routes"):
                a = sorted(str([x.get("v", x["k"]) for x in q]) for q in e["routes"][0]["quads"]); b = sorted(str([x.get("v", x["k"]) for x in q]) for q in e["routes"][1]["quads"])
                print("    only-first :", [x for x in a if x not in b][:6]); print("    only-second:", [x for x in b if x not in a][:6])
            if c.startswith("Reads"):
                print("    expected:", sorted(str([x.get("v", x["k"]) for x in q]) for q in e["expected"]))
                print("    got     :", sorted(str([x.get("v", x["k"]) for x in q]) for q in e["routes"][0]["quads"]))
