"""debug helper: list every rejected C09 observation as (clause, family, datatype, text)"""
import sys, random, collections
sys.path.insert(0, "/verif/harness")
from multiprocessing import Pool
from rvf import tlc
from rvf.props import c09
rng = random.Random(int(sys.argv[1]) if len(sys.argv) > 1 else 1)
jobs = c09.lex_jobs(rng, True) + c09.py_jobs(rng, True) + c09.eq_jobs(rng, True)
def chunk(js):
    base, js = js
    trs = []
    for i, j in enumerate(js):
        t = c09.execute(j); t["tid"] = base + i; trs.append(t)
    r, v = tlc.validate_batch("TraceXsd", trs, heap="2g")
    return [(v[t["tid"]][0], js[i]["events"][0].get("fam"), t["ev"][0]) for i, t in enumerate(trs) if v[t["tid"]][0] != "ok"]
parts = [(i, jobs[i:i + 1500]) for i in range(0, len(jobs), 1500)]
with Pool(16) as p:
    res = [x for part in p.map(chunk, parts) for x in part]
by = collections.defaultdict(list)
for c, fam, e in res:
    by[c].append((fam, e))
for c in sorted(by):
    print("==", c, len(by[c]))
    for fam, e in by[c][: int(sys.argv[2]) if len(sys.argv) > 2 else 12]:
        if e["op"] == "eq":
            print("   ", fam, e["a"]["text"], e["a"]["dt"], e["b"]["text"], e["b"]["dt"], {k: e.get(k) for k in ("eq", "eq_rev", "term_eq", "py_eq", "comparable", "raise")})
        else:
            print("   ", fam, e.get("dt"), repr(e.get("text", e.get("lex"))), "ill=%s val=%s out=%r" % (e.get("ill"), e.get("value", e.get("args")), "".join(e.get("out", []))), e.get("raise", ""), e.get("fields") if "date" in str(e.get("dt")).lower() or e.get("dt") == "time" else "")
