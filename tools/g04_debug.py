import sys, random, collections, json
sys.path.insert(0, "/verif/harness"); sys.path.insert(0, "/repo")
from rvf import tlc
from rvf.props import g04
rng = random.Random(int(sys.argv[1]))
jobs = []
for i in range(int(sys.argv[2])):
    evs = [{"op": "new", "A0": [g04.rand_triple(rng) for _ in range(rng.randint(0, 6))], "B0": [g04.rand_triple(rng) for _ in range(rng.randint(0, 6))]}]
    evs += g04.reads(rng, "A") + [{"op": "set", "g": "A", "t": g04.rand_triple(rng)}, {"op": "iadd", "g": "B", "h": "A"}] + g04.reads(rng, "B")
    jobs.append({"cfg": {"stores": rng.choice(g04.STORES), "vocab": rng.choice(g04.VOCABS)}, "events": evs})
trs = []
for i, j in enumerate(jobs):
    t = g04.execute(j); t["tid"] = i; trs.append(t)
try:
    r, v = tlc.validate_batch("TraceGraphAlgebra", trs, heap="2g", timeout=600)
except tlc.MachineryError as ex:
    s = str(ex); i = s.find("Error:"); print(s[:200]); print(s[-1500:]); sys.exit(2)
by = collections.defaultdict(list)
for t in trs:
    by[v[t["tid"]][0]].append((t, v[t["tid"]][1]))
for c in sorted(by):
    print("==", c, len(by[c]))
    if c != "ok":
        for t, at in by[c][:int(sys.argv[3]) if len(sys.argv) > 3 else 2]:
            print("  cfg", t["cfg"])
            for e in t["ev"][max(0, at - 2):at]:
                print("   ", e)
