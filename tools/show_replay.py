"""tools/show_replay.py <PROP> [n] — print the query text, data and answers of the newest violating replays of a SPARQL check"""
import sys, json, glob, os
P = sys.argv[1]; n = int(sys.argv[2]) if len(sys.argv) > 2 else 5
fs = sorted(glob.glob("/verif/replays/%s/*.json" % P), key=os.path.getmtime, reverse=True)[:n]
for f in fs:
    j = json.load(open(f))
    print("==", j["clause"], os.path.basename(f), j["job"]["cfg"])
    for e in j["trace"]["ev"]:
        if e["op"] == "data":
            print("  data:", [" ".join(str(x.get("v", x)) if isinstance(x, dict) else str(x) for x in q) for q in e["quads"]])
        else:
            print("  ", e.get("text", e.get("op")), "| init:", e.get("init"))
            r = e.get("res", {})
            if r.get("k") == "select":
                print("   got:", [{k: v.get("v") for k, v in row.items()} for row in r["rows"]])
            else:
                print("   got:", str(r)[:300])
