#!/usr/bin/env python3
"""tools/design_fill.py — fill the counts DESIGN.md quotes (@NFIX@ fix: commits recorded, @NKF@ known findings listed, @NMOD@ TLA+ modules,
@NSEEDED@ stored seeded changes, @SWEEP@ summary of the last sweep) from the files that are the authority for them."""
import glob
import json
import os
import re
import subprocess

V = "/verif"
lines = open(os.path.join(V, "known_findings.jsonl")).read().splitlines()
nfix = sum(1 for l in lines if l.startswith("fixed:"))
nkf = 0
for l in lines:
    if l.startswith("{"):
        try:
            if json.loads(l).get("status") == "known":
                nkf += 1
        except Exception:
            pass
nmod = len(glob.glob(os.path.join(V, "spec", "*.tla")))
nseed = sum(1 for d in os.listdir(os.path.join(V, "seeded")) if re.fullmatch(r"[CG]\d\d-m\d+", d))
sweep = subprocess.run(["python3", os.path.join(V, "tools", "mkdetection.py")], capture_output=True, text=True).stdout.strip()
p = os.path.join(V, "DESIGN.md")
s = open(p).read()
for k, v in (("@NFIX@", str(nfix)), ("@NKF@", str(nkf)), ("@NMOD@", str(nmod)), ("@NSEEDED@", str(nseed)), ("@SWEEP@", sweep)):
    s = s.replace(k, v)
open(p, "w").write(s)
print("fix commits recorded:", nfix, "| known findings:", nkf, "| TLA+ modules:", nmod, "| seeded:", nseed, "|", sweep)
