import sys, random, collections, json
sys.path.insert(0, "/verif/harness")
from rvf import tlc
from rvf.props import c20
rng = random.Random(int(sys.argv[1]))
jobs = []
for i in range(int(sys.argv[2])):
    ac = rng.random() < 0.4
    jobs.append({"cfg": {"autocommit": ac, "dirty_reads": (not ac) and rng.random() < 0.4, "method": rng.choice(["GET", "POST", "POST_FORM"]), "format": rng.choice(["xml", "json"]), "vocab": rng.choice(sorted(c20.OBJECTS))}, "events": c20.random_history(rng, rng.randint(4, 14))})
trs = []
for i, j in enumerate(jobs):
    t = c20.execute(j); t["tid"] = i; trs.append(t)
r, v = tlc.validate_batch("TraceSparqlStore", trs, heap="2g", timeout=600)
by = collections.defaultdict(list)
for t in trs:
    by[v[t["tid"]][0]].append((t, v[t["tid"]][1]))
for c in sorted(by):
    print("==", c, len(by[c]))
    if c != "ok":
        for t, at in by[c][:int(sys.argv[3]) if len(sys.argv) > 3 else 2]:
            print("  cfg", t["cfg"])
            for e in t["ev"][:at]:
                print("   ", {k: x for k, x in e.items() if k not in ("endpoint", "endpoint_graphs")}, "| endpoint:", sorted(map(tuple, e["endpoint"])), e["endpoint_graphs"])
            print("   requests:", t["requests"][-3:])
